import SparseSpace.Lemmas.DimWiseStep
import Mathlib.Tactic.NormNum
/-!
# C06 — refinement structures stay well formed under every refinement history

Theorems about `Model/RefTree` + `Model/DimWise` (mirror of `RefinementObjectSingleDimension`,
`RefinementContainer`, `MetaRefinementContainer`, the selection loop of `SpatiallyAdaptivBase.refine` and
`initialize_refinement`, `rebalance`, `update_coarsening_values`, `raise_lmax`, `refinement_postprocessing` of
`SpatiallyAdaptiveSingleDimensions2`), for every dimension, start levels, domain, margin, rebalancing setting,
EVERY outcome of the rebalancing float comparisons (`dec` is universally quantified, so nothing depends on the
safety factor or on rounding) and every sequence of benefit tables.

Vocabulary: `Til a lo b hi objs` / `tilingOK a b objs` — the objects tile `[a, b]` in ascending order without gaps
or overlaps, neighbours agree on the level of the shared point, end levels `lo`, `hi` (= 0);
`Valid lo hi L` / `validLevels` — the inner levels form a binary refinement tree; `DWWF` — the whole state.
-/
namespace SparseSpace.C06
open SparseSpace

/-- **valid_init**: `initialize_refinement` produces, in every dimension, a tiling of `[a, b]` whose levels are
the complete refinement tree of depth `lmax`, with coarsening level `0 = lmax - max(levels)` everywhere -/
theorem valid_init (maxv : Nat) (a b : Rat) (hab : a < b) :
    tilingOK a b (initObjs maxv a b) = true ∧ Valid 0 0 (innerLevels (initObjs maxv a b)) ∧
    innerLevels (initObjs maxv a b) = completeLevels maxv 0 ∧
    ∀ x ∈ initObjs maxv a b, x.c = 0 ∧ max x.l0 x.l1 = maxv := by
  obtain ⟨h1, h2, h3, h4⟩ := initObjs_wf maxv a b hab
  exact ⟨(tilingOK_iff a b _).2 h1, (valid_iff_tree 0 0 _).2 (by simpa using h2), h4, h3⟩

example : innerLevels (initObjs 3 0 1) = [3, 2, 3, 1, 3, 2, 3] := (valid_init 3 0 1 (by norm_num)).2.2.1

/-- **validLevels_iff**: the executable check (run by the driver on every model state) decides `Valid` -/
theorem validLevels_iff (lo hi : Nat) (L : List Nat) : validLevels lo hi L = true ↔ Valid lo hi L :=
  SparseSpace.validLevels_iff lo hi L

example : validLevels 0 0 [3, 2, 1, 3, 2, 3] = true := by decide
example : validLevels 0 0 [1, 1] = false := by decide

/-- **valid_split**: a new point of level `max(left, right) + 1` in ANY set of gaps keeps the refinement tree -/
theorem valid_split {lo hi : Nat} {L : List Nat} (h : Valid lo hi L) (flags : List Bool)
    (hf : flags.length = L.length + 1) : Valid lo hi (insertLevels lo L hi flags) :=
  SparseSpace.valid_split h flags hf

example : insertLevels 0 [2, 1, 2] 0 [true, false, false, true] = [3, 2, 1, 2, 3] := by decide

/-- **split on the objects**: replacing any set of objects by their two children (`Ival.split`: midpoint,
level `max + 1`) keeps the tiling and the refinement tree -/
theorem split_keeps_structure (objs : List Ival) (P : Nat → Bool) {a b : Rat} {lo hi : Nat}
    (ht : Til a lo b hi objs) (hv : Valid lo hi (innerLevels objs)) :
    Til a lo b hi (splitSel P objs) ∧ Valid lo hi (innerLevels (splitSel P objs)) :=
  ⟨til_splitSel objs P ht, (valid_iff_tree _ _ _).2 (tree_splitSel objs P ht ((valid_iff_tree _ _ _).1 hv))⟩

/-- **valid_nearest_lower** — the wording of the property: for every inner point (level `x`; `A` the levels to
its left, `B` those to its right, `lo`/`hi` the end levels), the nearest points of lower level on both sides
exist and the higher of their levels is exactly `x - 1` -/
theorem valid_nearest_lower {lo hi : Nat} {L : List Nat} (h : Valid lo hi L) (A B : List Nat) (x : Nat)
    (e : L = A ++ [x] ++ B) :
    ∃ p q, nearestLower x (A.reverse ++ [lo]) = some p ∧ nearestLower x (B ++ [hi]) = some q ∧
      max p q + 1 = x :=
  SparseSpace.valid_nearest_lower h A B x e

example : ∃ p q, nearestLower 3 ([3, 2, 1].reverse ++ [0]) = some p ∧ nearestLower 3 ([2, 3] ++ [0]) = some q ∧
    max p q + 1 = 3 :=
  valid_nearest_lower (L := [3, 2, 1, 3, 2, 3]) ((validLevels_iff 0 0 _).1 (by decide)) [3, 2, 1] [2, 3] 3 rfl

/-- **valid_rotate**: one rebalancing rotation (right child of the root moves up; `tree_rotate_left` is the
mirror image) keeps the refinement tree -/
theorem valid_rotate {lo hi : Nat} {A B D : List Nat}
    (h : Valid lo hi (A ++ [max lo hi + 1] ++ (B ++ [max lo hi + 2] ++ D)))
    (hA : Valid lo (max lo hi + 1) A) (hB : Valid (max lo hi + 1) (max lo hi + 2) B)
    (hD : Valid (max lo hi + 2) hi D) :
    Valid lo hi ((A.map (· + 1) ++ [max lo hi + 2] ++ B) ++ [max lo hi + 1] ++ D.map (· - 1)) :=
  SparseSpace.valid_rotate h hA hB hD

/-- **valid_rebalance**: `rebalance(d)` — the literal recursion with its scans, its two rotation loops and its
asserts — on a tiling with a refinement tree, for EVERY outcome `dec` of the two float comparisons: no assert
fails, the fuel suffices, the result is again a tiling with a refinement tree, and coordinates and coarsening
values are untouched -/
theorem valid_rebalance (dec : Nat → Nat → Nat → Bool) (objs : List Ival) (a b : Rat)
    (ht : tilingOK a b objs = true) (hv : Valid 0 0 (innerLevels objs)) :
    ∃ objs' tr, rebalance dec objs = some (objs', tr) ∧ tilingOK a b objs' = true ∧
      Valid 0 0 (innerLevels objs') ∧ objs'.map frame = objs.map frame := by
  obtain ⟨o, tr, h1, h2, h3, h4⟩ := rebalance_spec dec objs a b ((tilingOK_iff a b _).1 ht)
    (by simpa using (valid_iff_tree 0 0 _).1 hv)
  exact ⟨o, tr, h1, (tilingOK_iff a b _).2 h2, (valid_iff_tree 0 0 _).2 (by simpa using h3), h4⟩

/-- non-vacuity: an unbalanced tree on which both outcomes of the first comparison are possible -/
example : validLevels 0 0 (innerLevels
    [⟨0, 1/4, 0, 2, 0⟩, ⟨1/4, 1/2, 2, 1, 0⟩, ⟨1/2, 3/4, 1, 2, 0⟩, ⟨3/4, 7/8, 2, 3, 0⟩, ⟨7/8, 1, 3, 0, 0⟩]) = true := by
  decide

/-- **selection_exact**: one `refine()` call — the literal cursor loop over `curContainer`, `searchPosition`,
`startNewObjects`, the deferred removal and the sort — started from ANY `startNewObjects` (0 after a `refine()`, the
number of objects after an evaluation), empty `popArray` and `searchPosition = 0`, does not fail, leaves the
cursors reset, refines in strictly ascending order (hence once each) exactly the positions `(d, i)` whose benefit
is `≥ margin · max benefit`, and leaves in every container the old list with exactly those objects replaced by
their children -/
theorem selection_exact (m : Meta) (bens : List (List Rat)) (margin : Rat)
    (hcur : m.cur = 0) (hreset : ∀ c ∈ m.conts, c.Ready)
    (htil : ∀ c ∈ m.conts, ∃ a lo b hi, Til a lo b hi c.objs) :
    ∃ m' ps, m.refineStep bens margin = some (m', ps) ∧
      m'.cur = 0 ∧ m'.conts.length = m.conts.length ∧
      (∀ (d : Nat) (c : Cont), m.conts[d]? = some c →
          m'.conts[d]? = some (c.stepSpec (bens.getD d []) (maxBenefit bens * margin))) ∧
      ps.Pairwise posLt ∧
      (∀ d i, (d, i) ∈ ps ↔ ∃ c : Cont, m.conts[d]? = some c ∧ i < c.objs.length ∧
          Pb (bens.getD d []) (maxBenefit bens * margin) i = true) :=
  refineStep_spec m bens margin hcur hreset htil

/-- the initial state (`performSpatiallyAdaptiv(lmin, lmax)` on the box `[a, b]`; the code asserts `lmax > 1`) is well
formed -/
theorem init_wf (lmin lmax : Nat) (a b : List Rat) (hlen : a.length = b.length) (hd : 1 ≤ a.length)
    (hl : lmin ≤ lmax) (h2 : 2 ≤ lmax) (hab : ∀ d, d < a.length → a.getD d 0 < b.getD d 0) :
    DWWF a b lmax (DW.init lmin lmax a b) :=
  SparseSpace.init_wf lmin lmax a b hlen hd hl h2 hab

/-- **one `refine()` call keeps everything** (selection + split + removal + sort + cursor resets + rebalancing
+ `update_coarsening_values` + `raise_lmax` + `update_values`): it never fails and the new state is well formed -/
theorem step_wf (a b : List Rat) (lmax0 : Int) (st : DW) (h : DWWF a b lmax0 st)
    (bens : List (List Rat)) (margin : Rat) (rebalancing : Bool) (dec : Nat → Nat → Nat → Bool) :
    ∃ out, st.step bens margin rebalancing dec = some out ∧ DWWF a b lmax0 out.st ∧ out.st.dim = st.dim ∧
      out.st.lmin = st.lmin ∧ out.raiseDone = true ∧ out.refined.Pairwise posLt ∧
      (∀ d i, (d, i) ∈ out.refined ↔ ∃ c : Cont, st.m.conts[d]? = some c ∧ i < c.objs.length ∧
          Pb (bens.getD d []) (maxBenefit bens * margin) i = true) :=
  SparseSpace.step_wf a b lmax0 st h bens margin rebalancing dec

/-- **raise_lmax_terminates**: in every well-formed state — hence, by `reachable_wf`, in every state of every
history — the `while True` loop of `raise_lmax` ends by `refinements == 0` within the fuel the model gives it (the flag
`raiseDone`, printed by the driver as `F 1`, is always true): every pass that does not end the loop moves an index of
the box `[lmin, max lmax)^dim` from the active to the duplicate-free, never shrinking old set (C01's invariant) -/
theorem raise_lmax_terminates (a b : List Rat) (lmax0 : Int) (st : DW) (h : DWWF a b lmax0 st)
    (bens : List (List Rat)) (margin : Rat) (rebalancing : Bool) (dec : Nat → Nat → Nat → Bool) :
    ∃ out, st.step bens margin rebalancing dec = some out ∧ out.raiseDone = true := by
  obtain ⟨out, h1, _, _, _, h5, _⟩ := step_wf a b lmax0 st h bens margin rebalancing dec
  exact ⟨out, h1, h5⟩

/-- the loop itself, for any scheme satisfying C01's invariant and any `lmax` -/
theorem raiseLoop_terminates (lmax : List Int) (lmin : Int) (s : CS) (hs : SchemeInv s) (hlm : s.lmin = lmin) :
    (raiseLoop lmax lmin (raiseFuel lmax lmin s.dim) s).2 = true :=
  raiseFuel_enough lmax lmin s hs hlm

example : (raiseLoop [4, 2] 1 (raiseFuel [4, 2] 1 2) (CS.init 2 2 1)).2 = true := by decide

/-- **evaluation between two `refine()` calls**: the cursor effect of `evaluate_operation` (`clear_new_objects()`,
repository commit 48b37d3) leaves the object lists, `lmax` and the scheme untouched and has no influence on the next
`refine()`; so every theorem about `DW.step` / `DW.run` holds verbatim for the flow evaluate → refine → evaluate → … -/
theorem evaluate_transparent (st : DW) (bens : List (List Rat)) (margin : Rat) (rebalancing : Bool)
    (dec : Nat → Nat → Nat → Bool) :
    st.evaluate.step bens margin rebalancing dec = st.step bens margin rebalancing dec ∧
    st.evaluate.m.conts.map (·.objs) = st.m.conts.map (·.objs) ∧ st.evaluate.lmax = st.lmax ∧
    st.evaluate.cs = st.cs ∧
    ∀ c ∈ st.evaluate.m.conts, c.startNew = c.objs.length :=
  ⟨step_evaluate st bens margin rebalancing dec, by simp [DW.evaluate, Meta.clearNew, List.map_map, Function.comp_def],
   rfl, rfl, by
     intro c hc
     simp only [DW.evaluate, Meta.clearNew, List.mem_map] at hc
     obtain ⟨c0, _, rfl⟩ := hc
     rfl⟩

/-- **every refinement history**: no `refine()` call of any history fails, every reached state is well formed -/
theorem reachable_wf (a b : List Rat) (lmax0 : Int) : ∀ (ins : List StepIn) (st : DW), DWWF a b lmax0 st →
    ∃ st', st.run ins = some st' ∧ DWWF a b lmax0 st' ∧ st'.dim = st.dim
  | [], st, h => ⟨st, rfl, h, rfl⟩
  | i :: is, st, h => by
    obtain ⟨out, h1, h2, h3, _⟩ := step_wf a b lmax0 st h i.bens i.margin i.rebalancing i.dec
    obtain ⟨st', h4, h5, h6⟩ := reachable_wf a b lmax0 is out.st h2
    exact ⟨st', by simp only [DW.run, h1]; exact h4, h5, by rw [h6, h3]⟩

/-- **the clauses of the property on a well-formed state** (`tiling_preserved`, `coarsening_eq`,
`coarsening_nonneg`, `lmax_ge_depth`, reset cursors), in terms of the executable checks of the driver -/
theorem wf_clauses (a b : List Rat) (lmax0 : Int) (st : DW) (h : DWWF a b lmax0 st) (d : Nat) (hd : d < st.dim) :
    ∃ (c : Cont) (lm : Int), st.m.conts[d]? = some c ∧ st.lmax[d]? = some lm ∧
      tilingOK (a.getD d 0) (b.getD d 0) c.objs = true ∧
      validLevels 0 0 (innerLevels c.objs) = true ∧
      (∀ x ∈ c.objs, x.c = lm - ((max x.l0 x.l1 : Nat) : Int) ∧ 0 ≤ x.c ∧ ((max x.l0 x.l1 : Nat) : Int) ≤ lm) ∧
      c.pop = [] ∧ c.startNew = 0 ∧ c.searchPos = 0 ∧ st.m.cur = 0 := by
  have hdc : d < st.m.conts.length := by rw [h.lconts]; exact hd
  have hdl : d < st.lmax.length := by rw [h.llmax]; exact hd
  have hc := List.getElem?_eq_getElem hdc
  have hl := List.getElem?_eq_getElem hdl
  have g := h.geo d _ hc
  have co := h.coars d _ _ hd hc hl
  refine ⟨_, _, hc, hl, (tilingOK_iff _ _ _).2 g.til, (SparseSpace.validLevels_iff 0 0 _).2
    ((valid_iff_tree 0 0 _).2 (by simpa using g.tree)), ?_, g.reset.1, g.reset.2.1, g.reset.2.2, h.cur⟩
  intro x hx
  have := co x hx
  exact ⟨this.1, this.2, by omega⟩

/-- **all histories, all clauses**: from the initial state of any configuration, after any sequence of
`refine()` calls with arbitrary benefit tables, margins, rebalancing switches and comparison outcomes, every
dimension's object list satisfies every state clause of C06 -/
theorem all_histories (lmin lmax : Nat) (a b : List Rat) (hlen : a.length = b.length) (hd : 1 ≤ a.length)
    (hl : lmin ≤ lmax) (h2' : 2 ≤ lmax) (hab : ∀ d, d < a.length → a.getD d 0 < b.getD d 0) (ins : List StepIn) :
    ∃ st, (DW.init lmin lmax a b).run ins = some st ∧ st.dim = a.length ∧
      ∀ d, d < a.length → ∃ (c : Cont) (lm : Int), st.m.conts[d]? = some c ∧ st.lmax[d]? = some lm ∧
        tilingOK (a.getD d 0) (b.getD d 0) c.objs = true ∧
        validLevels 0 0 (innerLevels c.objs) = true ∧
        (∀ x ∈ c.objs, x.c = lm - ((max x.l0 x.l1 : Nat) : Int) ∧ 0 ≤ x.c ∧ ((max x.l0 x.l1 : Nat) : Int) ≤ lm) ∧
        c.pop = [] ∧ c.startNew = 0 ∧ c.searchPos = 0 ∧ st.m.cur = 0 := by
  obtain ⟨st, h1, h2, h3⟩ := reachable_wf a b lmax ins _ (init_wf lmin lmax a b hlen hd hl h2' hab)
  have hdim : st.dim = a.length := by rw [h3]; rfl
  exact ⟨st, h1, hdim, fun d hd' => wf_clauses a b lmax st h2 d (by rw [hdim]; exact hd')⟩

/-- non-vacuity: a concrete configuration (2-D unit square, levels (1,2)) and a concrete two-step history with
ties, a threshold value and rebalancing with the exact-rational comparison at safety factor 1/10 -/
example : ∃ st, (DW.init 1 2 [0, 0] [1, 1]).run
      [⟨[[1, 0, 0, 0], [0, 0, 1/2, 1]], 1/2, true, ratDec (1/10)⟩,
       ⟨[[0, 0, 0, 0, 0], [0, 0, 0, 0, 4, 4]], 1, true, fun _ _ _ => true⟩] = some st ∧ st.dim = 2 := by
  obtain ⟨st, h1, h2, _⟩ := all_histories 1 2 [0, 0] [1, 1] rfl (by decide) (by decide) (by decide)
    (by intro d hd
        have : d = 0 ∨ d = 1 := by simp at hd; omega
        rcases this with rfl | rfl <;> norm_num)
    [⟨[[1, 0, 0, 0], [0, 0, 1/2, 1]], 1/2, true, ratDec (1/10)⟩,
     ⟨[[0, 0, 0, 0, 0], [0, 0, 0, 0, 4, 4]], 1, true, fun _ _ _ => true⟩]
  exact ⟨st, h1, h2⟩

end SparseSpace.C06
