import SparseSpace.Lemmas.ExtendSplitGenPass
import SparseSpace.Properties.C07
import SparseSpace.Properties.C07b
/-!
# C07, translator tie — the component-grid selection of the extend–split strategy GENERATED from the source agrees with
`Model/ExtendSplit`

`Generated/ExtendSplitGen.lean` (`coarsen_grid` for the versions 0, 1, 2 and the prefix of
`evaluate_operation_area_complete_flexibel` up to `self.initialize_error`) and `Generated/RefObjESGen.lean`
(`RefinementObjectExtendSplit.add_level`, `is_already_calculated`, `update`) are produced by `tools/py2lean` (specs
`extendsplit.json`, `refobj_es.json`) from `spatiallyAdaptiveExtendSplit.py` / `RefinementObject.py` on every run.
-/
namespace SparseSpace.C07gen
open SparseSpace SparseSpace.PyRt

/-! ## Part A — generated definition = hand model -/

/-- `add_level`: `levelvec_dict[levelvec_coarsened] = levelvec` -/
theorem add_level_agrees (a : GenRO.Area) (k v : LV) :
    GenRO.add_level a k v = { a with levelvec_dict := dictAddLevel a.levelvec_dict k v } := rfl

theorem is_already_calculated_agrees (a : GenRO.Area) (k v : LV) :
    GenRO.is_already_calculated a k v = alreadyCalculated a.levelvec_dict k v := gen_is_already_calculated a k v

/-- `update(update_info)`: `coarseningValue += update_info; levelvec_dict = {}` (the hand model's `ESArea.bump` for 1) -/
theorem update_agrees (a : GenRO.Area) (u : Int) :
    GenRO.update a u = { a with coarseningValue := a.coarseningValue + u, levelvec_dict := [] } := rfl

/-- `temp2 = list(reversed(sorted(temp)))`: `temp2[0]`, `temp2[1]` are the hand model's `lvMax`, `lvSecond` -/
theorem sorted_top_agrees (l : LV) (h : 2 ≤ l.length) :
    getItem (List.reverse (PyRt.sorted l)) 0 = lvMax l ∧ getItem (List.reverse (PyRt.sorted l)) 1 = lvSecond l :=
  gen_sorted_top l h

/-- the `while coarsening > 0` loop of version 0 (with its inner `for … break`) is `v0Loop`, for every coarsening -/
theorem v0_loop_agrees (n : Nat) (lmin0 : Int) (hn : 1 ≤ n) (ml c : Int) (temp : LV) (hl : temp.length = n) :
    (whileSt c.toNat (ml, temp, c) (stepV0 (Int.ofNat n) lmin0)).2.1 = v0Loop lmin0 c.toNat temp :=
  while_v0_int n lmin0 hn ml c temp hl

/-- the `while coarsening > 0` loop of versions 1 / 2 is `v12Loop`, for EVERY fuel -/
theorem v12_loop_agrees (version n : Nat) (lmin0 lmax0 cSave nsd : Int) (hV : version = 1 ∨ version = 2)
    (f : Nat) (c : Int) (temp : LV) (hl : temp.length = n) :
    (whileSt f (temp, c) (stepV12 (version : Int) (n : Int) lmin0 lmax0 cSave nsd)).1
      = v12Loop version n lmin0 lmax0 cSave (nsd == 0) f c temp :=
  while_v12 version n lmin0 lmax0 cSave nsd hV f c temp hl

/-- **`coarsen_grid(levelvector, area)`**: coarsened level vector, `do_compute` flag and the area's collision dictionary
are the hand model's `coarsenGrid`; nothing else of the area changes.  Hypotheses: version 0, 1 or 2; `dim ≥ 2`;
`len(levelvector) = dim`; constant `lmin` (the code assumes it: "we assume here that lmin is equal everywhere");
`noInitialSplitting` off; for versions 1 / 2 the code's own `assert num_sub_diagonal < dim`. -/
theorem coarsen_grid_agrees (g : GenES.State) (lv : LV) (area : GenRO.Area) (V n : Nat) (lmin lmax : Int)
    (hV : V = 0 ∨ V = 1 ∨ V = 2) (hv : g.version = (V : Int)) (hdim : g.dim = (n : Int)) (hn : 2 ≤ n) (hlen : lv.length = n)
    (hlmin : g.lmin = List.replicate n lmin) (hlmax : getItem g.lmax 0 = lmax) (hnis : g.noInitialSplitting = false)
    (hnsd : V ≠ 0 → lmax + (n : Int) - 1 - lv.sum < (n : Int)) :
    ∃ co dc d', coarsenGrid V n lmin lmax lv area.coarseningValue area.levelvec_dict = some (co, dc, d') ∧
      GenES.coarsen_grid g lv area = ({ area with levelvec_dict := d' }, (co, dc)) :=
  gen_coarsen_grid g lv area V n lmin lmax hV hv hdim hn hlen hlmin hlmax hnis hnsd

/-- a whole pass `for component_grid in scheme: coarsen_grid(…)` over the generated `coarsen_grid` = `computedFrom` -/
theorem pass_agrees (g : GenES.State) (V n : Nat) (lmin lmax : Int)
    (hV : V = 0 ∨ V = 1 ∨ V = 2) (hv : g.version = (V : Int)) (hdim : g.dim = (n : Int)) (hn : 2 ≤ n)
    (hlmin : g.lmin = List.replicate n lmin) (hlmax : getItem g.lmax 0 = lmax) (hnis : g.noInitialSplitting = false)
    (sch : List (LV × Int)) (a : GenRO.Area)
    (h : ∀ p ∈ sch, p.1.length = n ∧ (V ≠ 0 → lmax + (n : Int) - 1 - p.1.sum < (n : Int))) :
    genPass g lmin sch a = computedFrom V n lmin lmax a.coarseningValue sch a.levelvec_dict :=
  gen_pass g V n lmin lmax hV hv hdim hn hlmin hlmax hnis sch a h

/-- the prefix of `evaluate_operation_area_complete_flexibel` (statements before `self.initialize_error`): the clamp
`max(coarsening, 0)` and the enlarged scheme `lmax + |coarsening|` are the hand model's `flexEval` -/
theorem flex_prefix_agrees (g : GenES.State) (area : GenRO.Area) (c : Int) (b1 b2 b3 b4 b5 : Bool) :
    GenES.evaluate_operation_area_complete_flexibel g area c b1 b2 b3 b4 b5
      = ({ area with levelvec_dict := [], coarseningValue := (flexEval (getItem g.lmax 0) c).1 },
         if c ≥ 0 then g.scheme
         else Gen.getCombiScheme g.combischeme (getItem g.lmin 0) (flexEval (getItem g.lmax 0) c).2 false) :=
  gen_flex_prefix g area c b1 b2 b3 b4 b5

/-! non-vacuity -/
def exG (v : Int) (n : Nat) (lmin lmax : Int) : GenES.State :=
  { (default : GenES.State) with version := v, dim := n, lmin := List.replicate n lmin, lmax := List.replicate n lmax }

example : (GenES.coarsen_grid (exG 0 2 1 4) [2, 3] (freshArea 1)).2 = ([1, 1], true) ∧
    (GenES.coarsen_grid (exG 0 2 1 4) [2, 3] (freshArea 1)).1.levelvec_dict = [([2, 2], [2, 3])] := by decide
example : (GenES.coarsen_grid (exG 2 3 1 4) [2, 2, 2] (freshArea 3)).2 = ([0, 0, 0], true) := by decide
example : (GenES.evaluate_operation_area_complete_flexibel (exG 0 2 1 4) (freshArea 2) (-2) false false false false false).1.coarseningValue = 0 := by
  decide

/-! ## Part B — key statements of C07 for the generated definitions -/

/-- **version 0, generated**: in a fresh area of coarsening `c ≥ 0` the grids that the generated `coarsen_grid` lets be
computed over the standard scheme `(lmin, lmax)` — collision dictionary included — are, with their coefficients, exactly
the standard scheme of level `lmax - c` -/
theorem gen_v0_local_is_standard (g : GenES.State) (n : Nat) (lmin lmax c : Int) (hv : g.version = 0)
    (hdim : g.dim = (n : Int)) (hn : 2 ≤ n) (hlmin : g.lmin = List.replicate n lmin) (hlmax : getItem g.lmax 0 = lmax)
    (hnis : g.noInitialSplitting = false) (hc : 0 ≤ c) :
    (genPass g lmin (stdScheme n lmin lmax) (freshArea c)).Perm (stdScheme n lmin (lmax - c)) := by
  rw [gen_pass g 0 n lmin lmax (Or.inl rfl) (by simpa using hv) hdim hn hlmin hlmax hnis _ _
    (fun p hp => ⟨std_length n lmin lmax (by omega) p hp, fun h => absurd rfl h⟩)]
  exact C07.v0_local_is_standard n lmin lmax c hn hc

/-- **versions 1 and 2, `lmin = 1`, generated**: the local combination selected by the generated `coarsen_grid` is valid
(coefficient sum 1 at every grid point of the area) for all `dim ≥ 2`, `lmax ≥ 1`, `c ≥ 0` -/
theorem gen_v12_local_valid_lmin1 (g : GenES.State) (V n : Nat) (lmax c : Int) (hV : V = 1 ∨ V = 2) (hv : g.version = (V : Int))
    (hdim : g.dim = (n : Int)) (hn : 2 ≤ n) (hlmin : g.lmin = List.replicate n 1) (hlmax : getItem g.lmax 0 = lmax)
    (hnis : g.noInitialSplitting = false) (hl : 1 ≤ lmax) (hc : 0 ≤ c) :
    localValid n 1 (genPass g 1 (stdScheme n 1 lmax) (freshArea c)) = true := by
  have hsum : ∀ p ∈ stdScheme n 1 lmax, p.1.length = n ∧ (V ≠ 0 → lmax + (n : Int) - 1 - p.1.sum < (n : Int)) := by
    intro p hp
    obtain ⟨j, hj, hg, _⟩ := (mem_std n 1 lmax p).1 hp
    obtain ⟨h1, _, h3⟩ := (mem_shift_getGrids 1 n _ p.1 (by omega) (by omega)).1 hg
    refine ⟨h1, fun _ => ?_⟩
    rw [h3]; omega
  rw [gen_pass g V n 1 lmax (by rcases hV with h | h <;> simp [h]) hv hdim hn hlmin hlmax hnis _ _ hsum]
  rcases hV with rfl | rfl
  · exact C07b.v1_local_valid_lmin1 n lmax c hn hl hc
  · exact C07b.v2_local_valid_lmin1 n lmax c hn hl hc

/-- **the coarsening value read by `coarsen_grid` during an error estimate is never negative** and the scheme used is
enlarged by exactly the clamped amount (generated prefix of `evaluate_operation_area_complete_flexibel`) -/
theorem gen_coarsening_nonneg_when_used (g : GenES.State) (area : GenRO.Area) (c : Int) (b1 b2 b3 b4 b5 : Bool) :
    0 ≤ (GenES.evaluate_operation_area_complete_flexibel g area c b1 b2 b3 b4 b5).1.coarseningValue ∧
    (flexEval (getItem g.lmax 0) c).2 - (GenES.evaluate_operation_area_complete_flexibel g area c b1 b2 b3 b4 b5).1.coarseningValue
      = getItem g.lmax 0 - c := by
  rw [gen_flex_prefix]
  have := C07.coarsening_nonneg_when_used (getItem g.lmax 0) c
  exact ⟨this.1, this.2.1⟩

end SparseSpace.C07gen
