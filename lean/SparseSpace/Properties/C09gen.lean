import SparseSpace.Lemmas.GlobalTrapGen
import SparseSpace.Properties.C09
/-!
# C09gen — translator tie for the global trapezoidal rule

`Generated/GlobalTrapGen.lean` is produced by `tools/py2lean` from `GlobalTrapezoidalGrid.compute_weights` and
`compute_1D_quad_weights` of `sparseSpACE/Grid.py` on every run of the check (floats as exact rationals, `np.zeros(n)` as a
list of `n` zeros, `weights[i] += …` as functional update, the final `print` / self-`assert` dropped — the assert is listed
in the generated docstring as a hypothesis).  The theorems below say that the generated definitions are the hand model
`Model/GlobalQuad`, for every grid, and restate the main C09 theorems on the generated functions.

The generated function is total: where Python raises (`IndexError` for 0 or 2 points of the modified basis,
`ZeroDivisionError` for coinciding points next to the boundary, a failed self-assert) the hand model returns an error and
nothing is claimed about the generated value.
-/
namespace SparseSpace.C09gen
open SparseSpace SparseSpace.GlobalQuad

/-- plain rule, every grid (any length, also empty): the generated loop over indices with `weights[i] += …` is the
structural pass `cwLoop` of the hand model -/
theorem plain_agrees (g : List Rat) (a b : Rat) :
    computeWeights g a b false = .ok (GenGT.compute_weights g a b false) := by
  rw [gen_plain]; rfl

/-- modified basis (1, 3, 4, ≥ 5 points — the closed forms for 3 and 4 points, the loop with the special cases
`i == 1`, `i == 2`, `i == len - 2`, `i == len - 3`, the two end weights set to `0`): whenever the hand model
returns weights, they are the generated ones -/
theorem modified_agrees (g ws : List Rat) (a b : Rat) (h : computeWeights g a b true = .ok ws) :
    GenGT.compute_weights g a b true = ws := gen_modified g ws a b h

/-- both switches at once -/
theorem compute_weights_agrees (g ws : List Rat) (a b : Rat) (md : Bool) (h : computeWeights g a b md = .ok ws) :
    GenGT.compute_weights g a b md = ws := by
  rcases md with _ | _
  · rw [plain_agrees] at h; exact Except.ok.inj h
  · exact gen_modified g ws a b h

/-- `compute_1D_quad_weights` passes the grid, the interval and the object's `modified_basis` on (not `boundary`, not the
dimension, not the levels) -/
theorem quad_weights_agrees (self : GenGT.State) (g ws : List Rat) (a b : Rat) (d : Int) (lv : Option (List Int))
    (h : computeWeights g a b self.modified_basis = .ok ws) :
    GenGT.compute_1D_quad_weights self g a b d lv = ws :=
  compute_weights_agrees g ws a b self.modified_basis h

/-- the levels and the dimension do not enter the weights -/
theorem quad_weights_levels_irrelevant (self : GenGT.State) (g : List Rat) (a b : Rat) (d d' : Int) (lv lv' : Option (List Int)) :
    GenGT.compute_1D_quad_weights self g a b d lv = GenGT.compute_1D_quad_weights self g a b d' lv' := rfl

/-- transfer of `C09.trap_eq_plIntegral`: the generated plain weights integrate the piecewise-linear interpolant exactly -/
theorem gen_trap_eq_plIntegral (pts vals : List Rat) (a b : Rat) (h : pts.length = vals.length) :
    (GenGT.compute_weights pts a b false).length = pts.length ∧
    dot (GenGT.compute_weights pts a b false) vals = plIntegral pts vals := by
  obtain ⟨ws, hw, hl, hd⟩ := C09.trap_eq_plIntegral pts vals a b h
  rw [compute_weights_agrees pts ws a b false hw]
  exact ⟨hl, hd⟩

/-- transfer of `C09.trap_nonneg` -/
theorem gen_trap_nonneg (pts : List Rat) (a b : Rat) (hs : sortedLe pts = true) :
    ∀ w ∈ GenGT.compute_weights pts a b false, 0 ≤ w := by
  obtain ⟨ws, hw, hn⟩ := C09.trap_nonneg pts a b hs
  rw [compute_weights_agrees pts ws a b false hw]
  exact hn

/-- transfer of `C09.modTrap_weights_eq_plIntegral_extrap`: on a strictly increasing grid from `a` to `b` with at least
three points the interior generated weights sum to `b - a` and integrate the linearly extrapolated interpolant -/
theorem gen_modTrap_eq_plIntegral_extrap (pts ivals : List Rat) (a b : Rat)
    (h3 : 3 ≤ pts.length) (hl : ivals.length + 2 = pts.length)
    (hs : pts.Pairwise (· < ·)) (ha : pts.head? = some a) (hb : pts.getLast? = some b) :
    sumR (dropEnds (GenGT.compute_weights pts a b true)) = b - a ∧
    dot (dropEnds (GenGT.compute_weights pts a b true)) ivals = plIntegralExtrap pts ivals := by
  obtain ⟨ws, hw, _, _, _⟩ := mod_core pts a b h3 hs ha hb
  rw [compute_weights_agrees pts ws a b true hw]
  exact C09.modTrap_weights_eq_plIntegral_extrap pts ivals ws a b h3 hl hs ha hb hw

/-- what `set_grid` stores for a one-dimensional grid, with the generated weights in place of the hand model's -/
theorem setGrid_uses_generated (boundary md : Bool) (a b : Rat) (pts : List Rat) (levels : List Int) (g : Grid1)
    (h : setGrid boundary md a b pts levels = .ok g) :
    g.weights = if boundary then GenGT.compute_weights pts a b md else dropEnds (GenGT.compute_weights pts a b md) := by
  unfold setGrid at h
  split_ifs at h with h1 h2 h3 hb
  all_goals
    cases hc : computeWeights pts a b md with
    | error e => rw [hc] at h; cases h
    | ok ws =>
      rw [hc] at h
      rw [compute_weights_agrees pts ws a b md hc]
      obtain rfl := Except.ok.inj h
      simp [hb]

example : GenGT.compute_weights [0, 1, 2, 4] 0 4 false = [1/2, 1, 3/2, 1] := by
  rw [gen_plain]; norm_num [cwLoop, hd1, hd2]

end SparseSpace.C09gen
