import SparseSpace.Lemmas.DimWiseKeep
/-!
# C04b — the hypothesis (H_keep) of C04 on the refinement model of C03/C06 (dimension-wise strategy)

C04 proves `keepsInitial s = true → exact on the whole initial (lmin, lmax) sparse-grid space` for an OBSERVED state
`s : Exact.DWState`.  `DW.toExact` builds that observed state from a state of the refinement model
(`Model/DimWise`: scheme, index set, `dimCoords d l` for every level `lmin ≤ l ≤ lmax_d`), so the hypothesis can be
evaluated on — and partly proved about — every state of `DW.run`.

STATUS (honest):
* the all-histories statement `reachable (rebalancing off, version 6/7/8) → keepsInitial (toExact st) = true` is NOT
  proved here.  It held on all 1199 states of 300 random histories (dim 2–3, four level pairs, versions 6, 7, 8) of the
  real implementation examined for this file, in agreement with C04's monitor.
* the DIRECT form suggested for it — "every component level `l ≥ k` contains the initial level-`k` nodes", i.e. the
  witness `r = k0` in `keepsInitial` — is FALSE for each of the versions 6, 7, 8 already after one `refine()` without
  rebalancing: `direct_form_false` (98 % of the random histories violate it).  The witness has to be
  `r_d > k0_d` in the dimensions whose `lmax_d` was raised (`modify_according_to_levelvec`: "the maximum level is only
  reached if level is max"), and `r ∈ I` then depends on the interplay of `raise_lmax` with the subtraction value.
* what IS proved for every state (any history, rebalancing on or off): interval ends of level `≤ max(lmin, 1)` are
  points of EVERY component level (`keep_low_levels`), hence the `lmin`-part of (H_keep) with the witness `r = k0`.
-/
namespace SparseSpace.C04b
open SparseSpace

/-- versions 3 (with the repository's fix 891031b), 6, 7, 8, every state: an interval end of level `≤ max(lmin, 1)` belongs to every component level -/
theorem keep_low_levels (st : DW) (cfg : PtCfg)
    (hv : cfg.version = 3 ∨ cfg.version = 6 ∨ cfg.version = 7 ∨ cfg.version = 8)
    (d : Nat) (l : Int) (x : Ival) (hx : x ∈ st.objsOf d) (h1 : (x.l1 : Int) ≤ max st.lmin 1) :
    (x.e, x.l1) ∈ st.dimPoints cfg d l :=
  dimPoints_keep_low st cfg hv d l x hx h1

/-- the history of the examples: `lmin = 1`, `lmax = 2` on the unit square, rebalancing OFF; step 1 refines the interval
`[1/4, 1/2]` of dimension 0, step 2 the interval `[3/8, 1/2]` of dimension 0 and `[3/4, 1]` of dimension 1 -/
def hist : List StepIn :=
  [⟨[[0, 1, 0, 0], [0, 0, 0, 0]], 1, false, fun _ _ _ => false⟩,
   ⟨[[0, 0, 1, 0, 0], [0, 0, 0, 1]], 1, false, fun _ _ _ => false⟩]

/-- **the direct form is false** (versions 6, 7, 8, rebalancing off, one `refine()`): `3/4` is a node of the initial
level-2 grid of dimension 0, `lmax_0` has been raised to 3, and the component level `l = 2 ≥ 2` does not contain it -/
theorem direct_form_false :
    ∀ v ∈ [3, 6, 7, 8], ∃ st, (DW.init 1 2 [0, 0] [1, 1]).run (hist.take 1) = some st ∧ st.lmax = [3, 2] ∧
      (3 / 4 : Rat) ∈ Exact.dyadic 0 1 2 ∧ (3 / 4 : Rat) ∉ st.dimCoords { version := v } 0 2 ∧
      (3 / 4 : Rat) ∈ st.dimCoords { version := v } 0 3 := by
  decide +kernel

/-- on the same states C04's predicate holds (witness `r = (3, 1)` for `k0 = (2, 1)`), also after the second step -/
theorem keepsInitial_examples :
    ∀ v ∈ [3, 6, 7, 8], ∀ n ∈ [0, 1, 2], ∃ st, (DW.init 1 2 [0, 0] [1, 1]).run (hist.take n) = some st ∧
      Exact.keepsInitial (st.toExact { version := v } [0, 0] [1, 1] 2) = true := by
  decide +kernel

end SparseSpace.C04b
