import SparseSpace.Lemmas.GramCacheB
import SparseSpace.Lemmas.GramMisc
import SparseSpace.Lemmas.GramPaths
/-!
# C17 — density-estimation caching and size-dependent code paths are transparent

Theorems about `Model/DensityCache` (mirror of the caches `old_R`, `old_B`/`new_B`, `old_grid_coord`/`new_grid_coord`,
`sorted_data`/`data_bins` and of the 200-point threshold of `DensityEstimation`).

* matrix entries: `key_determines_entry`, `equal_keys_equal_entries`, `memo_transparent`, `matrix_reuse_transparent`,
  `matrices_equal_for_every_history` — reuse of matrix entries changes NOTHING, for every refinement history.
* right-hand side: `copy_rule_sound` (a copied entry is the entry of the same basis function), `recompute_eq_sample_mean`
  (every recomputed entry is the sample mean; code as of commit c6031a7 — before it the slice of `find_data_in_domain`
  dropped the sample with the largest coordinate), `reuse_rhs_regression_witness` (the former counterexample on a
  201-point grid: reuse on = reuse off).
* small-grid vs large-grid implementations (threshold 200 points): `rhs_paths_agree_dimension_wise`,
  `rhs_paths_agree_uniform`, `interpolation_paths_agree` — equal on EVERY grid (the model functions have no size
  restriction, so "any grid on which both can be run" is every grid), `hat_paths_agree_all`.
-/
namespace SparseSpace.C17
open SparseSpace SparseSpace.Gram SparseSpace.DCache

/-- **the cache key determines the entry.**  For two hats of a tensor grid the value of `calculate_R_value_analytically`
    is a function of `str(get_domain_overlap_width(..))` = (adjacent?, sorted overlap widths, sorted centre distances):
    it equals `Π widths · 3^{-#(distance = 0)} · 6^{-#(distance ≠ 0)}`, resp. 0 for the non-adjacent key -/
theorem key_determines_entry (stripes : List (List ℚ)) (hs : ∀ s ∈ stripes, s.Pairwise (· < ·))
    (I J : List Hat1) (hI : I ∈ hatsRaw stripes) (hJ : J ∈ hatsRaw stripes) :
    rValue I J = keyValue (overlapKey I J) := DCache.key_determines_entry stripes hs I J hI hJ

example : overlapKey [⟨1/4, 0, 1/2⟩, ⟨3/4, 1/2, 7/8⟩] [⟨1/2, 1/4, 1⟩, ⟨3/4, 1/2, 7/8⟩] = (true, [1/4, 3/8], [0, 1/4])
    ∧ keyValue (true, [1/4, 3/8], [0, 1/4]) = 1/192
    ∧ rValue [⟨1/4, 0, 1/2⟩, ⟨3/4, 1/2, 7/8⟩] [⟨1/2, 1/4, 1⟩, ⟨3/4, 1/2, 7/8⟩] = 1/192 := by decide +kernel

/-- equal keys give equal entries even for pairs of hats of DIFFERENT grids (`old_R` is never cleared: it serves all
    component grids of all refinement steps) -/
theorem equal_keys_equal_entries (p q : List Hat1 × List Hat1) (hp : GridPair p) (hq : GridPair q)
    (hk : overlapKey p.1 p.2 = overlapKey q.1 q.2) : rValue p.1 p.2 = rValue q.1 q.2 :=
  DCache.equal_keys_equal_entries p q hp hq hk

/-- **a memo table whose key determines the value is transparent for every history of look-ups**: starting from any
    table that satisfies the invariant (e.g. the empty one, or the table left by ANY earlier sequence of requests) the
    answers are those of the function itself and the invariant is kept -/
theorem memo_transparent {α K V : Type} [DecidableEq K] (P : α → Prop) (key : α → K) (f : α → V)
    (hkey : ∀ a a', P a → P a' → key a = key a' → f a = f a')
    (as : List α) (c : List (K × V)) (hc : TableOK P key f c) (hP : ∀ a ∈ as, P a) :
    (memoMap key f c as).1 = as.map f ∧ TableOK P key f (memoMap key f c as).2 :=
  memoMap_transparent P key f hkey as c hc hP

example : (memoMap (fun (n : ℕ) => n % 3) (fun n => n % 3 + 10) [] [4, 7, 5, 1]).1 = [11, 11, 12, 11]
    ∧ (memoMap (fun (n : ℕ) => n % 3) (fun n => n % 3 + 10) [] [4, 7, 5, 1]).2 = [(1, 11), (2, 12)] := by decide

/-- **reuse of matrix entries is transparent**: whatever `old_R` contains after earlier evaluations, the matrix built
    with `reuse_old_values` equals the matrix built without, and `old_R` keeps its invariant -/
theorem matrix_reuse_transparent (c : List (Key × ℚ)) (hc : RCacheOK c) (stripes : List (List ℚ))
    (hv : ∀ s ∈ stripes, UnitStripe s) (lam : ℚ) :
    (buildRDWreuse c stripes lam).1 = buildRDW stripes lam ∧ RCacheOK (buildRDWreuse c stripes lam).2 :=
  buildRDWreuse_transparent c hc stripes hv lam

example : (buildRDWreuse [] [[0, 1/4, 1/2, 1], [0, 1/2, 3/4, 7/8, 1]] (1/8)).1 = buildRDW [[0, 1/4, 1/2, 1], [0, 1/2, 3/4, 7/8, 1]] (1/8) :=
  (matrix_reuse_transparent [] (tableOK_nil _ _ _) _ (by
    intro s hs
    simp only [List.mem_cons, List.not_mem_nil, or_false] at hs
    rcases hs with rfl | rfl <;> (unfold UnitStripe; decide +kernel)) (1/8)).1

/-- **for every refinement history** (any sequence of component grids, `post_processing` anywhere in between, any data)
    the system matrices with reuse switched on equal those with reuse switched off -/
theorem matrices_equal_for_every_history (lam : ℚ) (data : List (List ℚ)) (sg : List ℚ) (sidx : List (List ℕ))
    (hist : List (List (List ℚ) × List ℤ × Bool)) (hv : ∀ e ∈ hist, ∀ s ∈ e.1, UnitStripe s) (c' : Cache) :
    matrices true lam data sg sidx {} hist = matrices false lam data sg sidx c' hist :=
  matrices_reuse_eq lam data sg sidx hist hv {} c' (tableOK_nil _ _ _)

example : (matrices true 0 [[1/2]] [1] [[0]] {} [([[0, 1/2, 1]], [1], true), ([[0, 1/4, 1/2, 1]], [2], false)])
    = [[[1/3]], [[1/6, 1/24], [1/24, 1/4]]] := by decide +kernel

/-- **soundness of the copy rule** of the right-hand-side reuse branch: if a new grid point is an old grid point and an
    old hat has the same support in every dimension, then that old hat IS the new hat (same centre, same support), hence
    the copied entry is the entry of the same basis function -/
theorem copy_rule_sound (stripes old : List (List ℚ)) (pt q : List ℚ)
    (h1 : stripes.length = pt.length) (h2 : old.length = pt.length) (h3 : q.length = pt.length)
    (hmem : ∀ c nodes, (c, nodes) ∈ pt.zip old → c ∈ nodes)
    (hval : ∀ h ∈ List.zipWith getHatDomain1 stripes pt, h.lo < h.p ∧ h.p < h.hi)
    (hsame : sameDomain (List.zipWith getHatDomain1 stripes pt) (List.zipWith getHatDomain1 old q) = true) :
    List.zipWith getHatDomain1 old q = List.zipWith getHatDomain1 stripes pt :=
  DCache.copy_rule_sound stripes old pt q h1 h2 h3 hmem hval hsame

example : sameDomain (List.zipWith getHatDomain1 [[0, 1/4, 1/2, 3/4, 1]] [1/4]) (List.zipWith getHatDomain1 [[0, 1/4, 1/2, 1]] [1/4]) = true := by
  decide +kernel

/-- **every recomputed entry of the reuse branch is the sample mean** (`find_data_in_domain` + scalar hats): the slices
    `sorted_data[d][max(lower-1,0) : min(upper+1, M)]` leave out only samples whose coordinate lies outside the support in
    that dimension.  Any per-dimension index list containing every sample index will do (`np.argsort`; ties irrelevant). -/
theorem recompute_eq_sample_mean (data : List (List ℚ)) (sg : List ℚ) (sidx : List (List ℕ)) (h : List Hat1)
    (hlen : sg.length = data.length) (hdim : sidx.length = h.length) (hrow : ∀ x ∈ data, x.length = h.length)
    (hperm : ∀ l ∈ sidx, ∀ x < data.length, x ∈ l) (hval : ∀ a ∈ h, a.lo < a.p ∧ a.p < a.hi) :
    bRecompute data sg sidx h = bSpec data sg h := bRecompute_eq_spec data sg sidx h hlen hdim hrow hperm hval

/-- the witness of the defect fixed by c6031a7 (samples 1/4 and 1/2, hat centred at 1/2 on [0,1]; the old slice gave 1/4) -/
example : bRecompute [[1/4], [1/2]] [1, 1] [[0, 1]] [⟨1/2, 0, 1⟩] = 3/4 ∧ bSpec [[1/4], [1/2]] [1, 1] [⟨1/2, 0, 1⟩] = 3/4 := by
  decide +kernel

/-- witness grids of the former counterexample: 201 interior nodes `k/202`; the earlier grid lacks the node 1/202 -/
def cexNew : List Rat := (List.range 203).map fun (k : Nat) => (k : Rat) / 202
def cexOld : List Rat := cexNew.filter fun c => c != 1/202
def cexData : List (List Rat) := [[1/404], [3/404]]
def cexOldEntry : BEntry := ⟨[8], [cexOld], calcBDW false [] [cexOld] cexData [1, 1] [[0, 1]]⟩

/-- regression witness at the top level (`calculate_B_dimension_wise`, 201 ≥ 200 points, after an earlier evaluation of a
    coarser grid): with the fixed slice the reuse branch returns the right-hand side of the run without reuse
    (before c6031a7 the two differed in the first entry, 1/4 vs 1/2) -/
theorem reuse_rhs_regression_witness :
    calcBDW true [cexOldEntry] [cexNew] cexData [1, 1] [[0, 1]] = calcBDW false [cexOldEntry] [cexNew] cexData [1, 1] [[0, 1]] := by
  decide +kernel

/-- **right-hand side, dimension-wise grids**: the implementation for `N >= 200` (per sample only the neighbouring hats
    found by `take_closest`, scalar hat on the support found by `get_hat_domain`) and the implementation for `N < 200`
    (all hats, completely vectorised) give the same vector on every grid, for every data set and class labelling -/
theorem rhs_paths_agree_dimension_wise (stripes : List (List ℚ)) (hv : ∀ s ∈ stripes, UnitStripe s) (data : List (List ℚ))
    (sg : List ℚ) (hd : ∀ x ∈ data, x.length = stripes.length) : bLargeDW stripes data sg = bSmallDW stripes data sg :=
  bLargeDW_eq_bSmallDW stripes hv data sg hd

example : bLargeDW [[0, 1/4, 1/2, 1], [0, 1/2, 1]] [[1/4, 1/2], [1/2, 1/2], [0, 1], [1/8, 7/8], [3/4, 1/4]] [1, -1, 1, 1, -1]
    = [9/40, -1/4] := by decide +kernel

/-- **right-hand side, uniform grids**: `get_hats_in_support` + unclipped hats (`N >= 200`) vs all hats, clipped (`N < 200`) -/
theorem rhs_paths_agree_uniform (lv : List ℕ) (data : List (List ℚ)) (sg : List ℚ)
    (hd : ∀ x ∈ data, x.length = lv.length ∧ ∀ c ∈ x, 0 ≤ c ∧ c ≤ 1) : bLargeU lv data sg = bSmallU lv data sg :=
  bLargeU_eq_bSmallU lv data sg hd

example : bLargeU [2, 1] [[1/4, 1/2], [1/2, 1/2], [0, 1], [1/8, 7/8], [3/4, 1/4]] [1, 1, 1, 1, 1] = [9/40, 1/5, 1/10] := by decide +kernel

/-- **interpolation**: the implementation for grids with `>= 200` points (neighbouring hats only, `np.ceil` switches) and the one
    for smaller grids (all hats, completely vectorised) agree at every point of the unit cube, for every grid and surplus vector -/
theorem interpolation_paths_agree (stripes : List (List ℚ)) (hv : ∀ s ∈ stripes, UnitStripe s) (alpha : List ℚ)
    (x : List ℚ) (hx : x.length = stripes.length) (hc : ∀ c ∈ x, 0 ≤ c ∧ c ≤ 1) :
    interpLargeDW stripes alpha x = interpSmallDW stripes alpha x :=
  interpLargeDW_eq_interpSmallDW stripes hv alpha x hx hc

example : interpLargeDW [[0, 1/4, 1/2, 1], [0, 1/2, 1]] [2, -3] [1/2, 1/4] = -3/2
    ∧ interpLargeDW [[0, 1/4, 1/2, 1], [0, 1/2, 1]] [2, -3] [1/4, 1] = 0 := by decide +kernel

/-- the hat code paths used by the small-grid and the large-grid implementations agree at every point -/
theorem hat_paths_agree_all (h : List Hat1) (x : List ℚ) (hv : ∀ a ∈ h, a.lo < a.p ∧ a.p < a.hi) :
    hatNS h x = hatCV h x := by rw [hatNS_eq_spec h x hv, hatCV_eq_spec h x hv]

end SparseSpace.C17
