import SparseSpace.Lemmas.RombergAll
/-!
# C11 — Romberg extrapolation grids give consistent, exact-to-order weights

Theorems about `Model/Romberg` and `Model/BinTree` (mirrors of `sparseSpACE/Extrapolation.py`), over `ℚ`, for every
grid, every level list, every slice grouping, both slice versions and every size of container.
The model functions return an error value where the code raises an `AssertionError`; "whenever the code returns
weights" is therefore the hypothesis `weights cfg grid lv = .ok ws` (it is implied by, and much weaker than, "the
levels are those of a dyadic refinement tree": no assumption on dyadic positions is needed for the conclusions).
-/
namespace SparseSpace.C11
open SparseSpace SparseSpace.Romberg

/-! ## extrapolation coefficients -/

/-- **coefficient sum**: `Σ_{j ≤ m} c_{m,j} = 1` for every `m`, for the coded product formula with any exponent
    `e ≥ 1` (1 = linear, 2 = default Romberg, 3 = Simpson variant) on any interval `a ≠ b` -/
theorem romberg_coeff_sum (a b : ℚ) (e m : ℕ) (hab : a ≠ b) (he : 1 ≤ e) :
    sumRange 0 (m + 1) (fun j => coeff a b e m j) = 1 :=
  coeff_sum a b e m hab he

/-- **order conditions**: the coefficients annihilate the powers `1..m` of the nodes `h_j ^ e`, i.e. they are the
    Lagrange basis at 0 — this is what makes `Σ_j c_{m,j} T_j` a rule of order `2m+2` when `T_j = I + Σ_r a_r h_j^{2r}` -/
theorem romberg_coeff_order (a b : ℚ) (e m r : ℕ) (hab : a ≠ b) (he : 1 ≤ e) (hr1 : 1 ≤ r) (hrm : r ≤ m) :
    sumRange 0 (m + 1) (fun j => coeff a b e m j * (((b - a) / 2 ^ j) ^ e) ^ r) = 0 :=
  coeff_annihilates a b e m r hab he hr1 hrm

example : coeff 0 1 2 2 0 = 1 / 45 ∧ coeff 0 1 2 2 1 = -4 / 9 ∧ coeff 0 1 2 2 2 = 64 / 45 := by decide +kernel

/-! ## slice weights -/

/-- **slice weights**: for ANY support pair `L ≠ R` the two weights of a slice add up to its width and their first
    moment is width × midpoint (the sliced trapezoid integrates the linear interpolant through the support points) -/
theorem slice_weights (s : Slice) (L R : ℚ) (h : L ≠ R) :
    (supportWeights s L R).1 + (supportWeights s L R).2 = s.width ∧
    L * (supportWeights s L R).1 + R * (supportWeights s L R).2 = s.width * ((s.xl + s.xr) / 2) :=
  ⟨supportWeights_sum s L R h, supportWeights_moment s L R h⟩

example : supportWeights ⟨1/2, 5/8, 1, 3, []⟩ 0 1 = (7/128, 9/128) := by decide +kernel

/-! ## the weight vector of `ExtrapolationGrid` -/

/-- **weights sum to the interval length and integrate linear functions exactly.**
    Whenever `set_grid` + `get_weights` return a weight vector `ws` (no assertion fires) — for EVERY grid, level
    list, slice grouping (UNIT, GROUPED, GROUPED_OPTIMIZED), slice version (Romberg, trapezoid), container version
    (default, Simpson), with or without forced completion of the tree —
    * there is one weight per point of the grid the object works on (`st.grid`; it is the given grid unless the
      tree is completed), whose end points `a`, `b` are those of the given grid,
    * the weights sum to `b - a`,
    * `integrate` (the scalar product with the function values) is exact for every affine function. -/
theorem extrapolation_weights_exact (cfg : Cfg) (grid : List ℚ) (lv : List ℕ) (ws : List ℚ)
    (h : weights cfg grid lv = .ok ws) :
    ∃ (st : EG) (a b : ℚ), setGrid cfg grid lv = some st ∧ firstLast grid = some (a, b) ∧
      (cfg.forceBalanced = false → st.grid = grid) ∧ st.grid.Nodup ∧
      ws.length = st.grid.length ∧ rsum ws = b - a ∧
      ∀ α β : ℚ, dot ws (st.grid.map fun x => α * x + β) = α * (b ^ 2 - a ^ 2) / 2 + β * (b - a) := by
  simp only [weights] at h
  cases h1 : setGrid cfg grid lv with
  | none => rw [h1] at h; simp at h
  | some st =>
    rw [h1] at h
    simp only at h
    cases h2 : st.weights cfg with
    | none => rw [h2] at h; simp at h
    | some w =>
      rw [h2] at h
      simp only [Res.ok.injEq] at h
      subst h
      obtain ⟨e1, e2⟩ := setGrid_ends cfg grid lv st h1
      obtain ⟨w1, w2, w3⟩ := setGrid_weights cfg grid lv st w h1 h2
      refine ⟨st, st.a, st.b, rfl, e1, fun hf => (e2 hf).1, w2, w1, ?_, ?_⟩
      · have := w3 0 1
        have hf : (fun y : ℚ => 0 * y + 1) = fun _ => (1 : ℚ) := by funext y; ring
        rw [hf, dot_ones w st.grid w1] at this
        rw [rsum_eq, this]; simp [prim]
      · intro α β
        rw [w3 α β]; simp only [prim]; ring

/-- non-vacuity: the adaptive grid of the repository's test, every configuration returns weights -/
example : weights ⟨.unit, .romberg, .default, false⟩ [0, 1/2, 5/8, 3/4, 1] [0, 1, 3, 2, 0]
    = .ok [79/378, 194/567, 512/2835, 592/2835, 337/5670] := by decide +kernel
example : weights ⟨.optimized, .trapezoid, .default, true⟩ [0, 1/4, 3/8, 1/2, 1] [0, 2, 3, 1, 0]
    = .ok [7/180, 8/45, 1/15, 8/45, 11/90, 1/3, 1/12] := by decide +kernel

/-! ## valid refinement trees: no assertion fires, so the statement above is unconditional -/

/-- **the step-width and support-sequence assertions never fire on a valid refinement tree** (`ValidTree`: the
    grid is obtained from `[a, b]`, `a < b`, by repeated bisection, a midpoint getting the level
    `max(left level, right level) + 1`): every slice has width `(b-a)/2^max_level`, a support sequence of length
    `max_level + 1` whose pairs enclose the slice, hence `set_grid` and `get_weights` return a weight vector for every
    grouping, slice version and container version, with or without forced completion (the completed tree is again
    a valid refinement tree; the unrefined grid `[a, b]` is left as it is) -/
theorem valid_tree_weights_defined (cfg : Cfg) (grid : List ℚ) (lv : List ℕ) (hv : ValidTree grid lv) :
    ∃ ws, weights cfg grid lv = .ok ws :=
  valid_weights_defined_all cfg grid lv hv

/-- **the property's first clause, unconditional**: on every valid refinement tree, for every slice grouping, slice
    version and container version, with or without forced completion, weights ARE returned, sum to the interval
    length and integrate affine functions exactly -/
theorem valid_tree_weights_exact (cfg : Cfg) (grid : List ℚ) (lv : List ℕ) (hv : ValidTree grid lv) :
    ∃ (ws : List ℚ) (st : EG) (a b : ℚ), weights cfg grid lv = .ok ws ∧ setGrid cfg grid lv = some st ∧
      firstLast grid = some (a, b) ∧ ws.length = st.grid.length ∧ rsum ws = b - a ∧
      ∀ α β : ℚ, dot ws (st.grid.map fun x => α * x + β) = α * (b ^ 2 - a ^ 2) / 2 + β * (b - a) := by
  obtain ⟨ws, hws⟩ := valid_tree_weights_defined cfg grid lv hv
  obtain ⟨st, a, b, h1, h2, _, _, h5, h6, h7⟩ := extrapolation_weights_exact cfg grid lv ws hws
  exact ⟨ws, st, a, b, hws, h1, h2, h5, h6, h7⟩

/-- non-vacuity: the adaptive grid of the repository's tests is a valid refinement tree -/
example : ValidTree [0, 1/2, 5/8, 3/4, 1] [0, 1, 3, 2, 0] := by
  refine ⟨0, 1, [(1/2, 1), (5/8, 3), (3/4, 2)], by decide +kernel, rfl, by decide +kernel, ?_⟩
  have h3 : RefSeg (1/2, 1) ([] ++ (5/8, 3) :: []) (3/4, 2) :=
    RefSeg.bisect _ _ _ [] [] (by decide +kernel) (by decide) (RefSeg.leaf _ _) (RefSeg.leaf _ _)
  have h2 : RefSeg (1/2, 1) ([(5/8, 3)] ++ (3/4, 2) :: []) (1, 0) :=
    RefSeg.bisect _ _ _ _ [] (by decide +kernel) (by decide) h3 (RefSeg.leaf _ _)
  exact RefSeg.bisect (0, 0) (1, 0) (1/2, 1) [] _ (by decide +kernel) (by decide) (RefSeg.leaf _ _) h2

/-! ## grouped default containers are Romberg's rule; degree of exactness (partial) -/

/-- **a grouped default container is `Σ_j c_{K,j} T_j`**: for ANY integrand the quadrature sum of a container of
    `2^(k+1)` equal consecutive slices is the Romberg combination of the composite trapezoid sums with `2^j` cells,
    `j = 0..k+1`, over the container's interval -/
theorem container_default_is_romberg (sv : SliceVer) (s s' : Slice) (r : List Slice) (k : ℕ) (x h : ℚ) (f : ℚ → ℚ)
    (hlen : (s :: s' :: r).length = 2 ^ (k + 1)) (hE : Equi x h (s :: s' :: r))
    (cs : List (ℚ × ℚ)) (hc : containerContribs sv .default (s :: s' :: r) = some cs) :
    wsum f cs = ∑ j ∈ Finset.range (k + 2),
      coeff x (x + 2 ^ (k + 1) * h) 2 (k + 1) j * cellTrap f j x (2 ^ (k + 1) * h) :=
  container_is_romberg sv s s' r k x h f hlen hE cs hc

/-- non-vacuity: two equal slices on `[0,1]` — the container weights are Simpson's rule `1/6, 2/3, 1/6` -/
example : Equi 0 (1/2) [⟨0, 1/2, 0, 1, []⟩, ⟨1/2, 1, 1, 0, []⟩] ∧
    containerContribs .romberg .default [⟨0, 1/2, 0, 1, []⟩, ⟨1/2, 1, 1, 0, []⟩]
      = some [(0, 1/6), (1/2, 2/3), (1, 1/6)] := by
  refine ⟨⟨rfl, by decide +kernel, by decide +kernel, by decide +kernel, trivial⟩, by decide +kernel⟩

/-- **degree clause — `_partial`**.  Full statement (not proved; validated by the oracle of `harness/c11.py` for
    depth `m ≤ 5`): on the complete dyadic grid of depth `m` the default Romberg variants integrate polynomials of
    degree `≤ 2m+1` exactly (`2m-1` for the balanced grid).  Proved here, for EVERY depth `m = k+1 ≥ 1`: the weights
    returned by `get_weights` when all slices form one default container (`GROUPED`, `GROUPED_OPTIMIZED` on a complete
    grid) integrate every polynomial of degree `≤ 3` exactly.  Missing for the full degree: the Euler–Maclaurin
    expansion of the trapezoid sums of `x^d` up to `h^{2m}`; its algebraic counterpart, `Σ_j c_j h_j^{2r} = 0` for
    `1 ≤ r ≤ m`, is `romberg_coeff_order`. -/
theorem romberg_degree_partial (cfg : Cfg) (grid : List ℚ) (lv : List ℕ) (st : EG) (ws : List ℚ)
    (hcv : cfg.contVer = .default) (h1 : setGrid cfg grid lv = some st) (h2 : st.weights cfg = some ws)
    (c : List Slice) (hc : st.containers = [c]) (h2c : 2 ≤ c.length) (p0 p1 p2 p3 : ℚ) :
    dot ws (st.grid.map (cubic p0 p1 p2 p3)) = cubicPrim p0 p1 p2 p3 st.b - cubicPrim p0 p1 p2 p3 st.a :=
  single_container_cubic cfg grid lv st ws hcv h1 h2 c hc h2c p0 p1 p2 p3

/-- non-vacuity: the complete grid of depth 2 on `[1,3]` with `GROUPED` slices is one container of 4 slices, and the
    hypotheses of `romberg_degree_partial` hold for it -/
example : (setGrid ⟨.grouped, .romberg, .default, false⟩ [1, 3/2, 2, 5/2, 3] [0, 2, 1, 2, 0]).map
      (fun st => (st.containers.map List.length, st.weights ⟨.grouped, .romberg, .default, false⟩))
    = some ([4], some [7/45, 32/45, 4/15, 32/45, 7/45]) := by decide +kernel

/-! ## balanced extrapolation grid -/

/-- **balanced extrapolation weights**: on every valid refinement tree (dyadic spacing), whenever
    `BalancedExtrapolationGrid` returns weights (its assertion "every node has zero or two children" holds), there
    is one weight per grid point, the weights sum to `b - a` and integrate every affine function exactly -/
theorem balanced_weights_exact (grid : List ℚ) (lv : List ℕ) (ws : List ℚ) (a b : ℚ) (inner : List PL) (hab : a < b)
    (hlen : grid.length = lv.length) (hz : grid.zip lv = (a, 0) :: (inner ++ [(b, 0)]))
    (href : RefSeg (a, 0) inner (b, 0)) (h : balancedWeights grid lv = some ws) :
    ws.length = grid.length ∧ rsum ws = b - a ∧
      ∀ α β : ℚ, dot ws (grid.map fun x => α * x + β) = α * (b ^ 2 - a ^ 2) / 2 + β * (b - a) := by
  obtain ⟨w1, w2⟩ := balancedWeights_exact grid lv ws a b inner 0 0 hz hlen hab (refSeg_midSeg href) h
  refine ⟨w1, ?_, ?_⟩
  · have := w2 0 1
    have hf : (fun y : ℚ => 0 * y + 1) = fun _ => (1 : ℚ) := by funext y; ring
    rw [hf, dot_ones ws grid w1] at this
    rw [rsum_eq, this]; simp [prim]
  · intro α β
    rw [w2 α β]; simp only [prim]; ring

/-- … and it does return weights on every valid tree with an inner point whose nodes have zero or two children -/
theorem balanced_weights_defined (grid : List ℚ) (lv : List ℕ) (a b : ℚ) (inner : List PL)
    (hlen : grid.length = lv.length) (hz : grid.zip lv = (a, 0) :: (inner ++ [(b, 0)]))
    (href : RefSeg (a, 0) inner (b, 0)) (hne : inner ≠ [])
    (hfull : (ITree.build (inner.length + 1) a inner b).isFull = true) :
    ∃ ws, balancedWeights grid lv = some ws :=
  balanced_defined grid lv a b inner hlen hz href hne hfull

/-- non-vacuity: the adaptive balanced tree of `test_BalancedExtrapolationGrid.py` -/
example : balancedWeights [0, 1/8, 1/4, 3/8, 1/2, 3/4, 1] [0, 3, 2, 3, 1, 2, 0]
    = some [0, 16/45, -2/9, 16/45, 1/45, 22/45, 0] := by decide +kernel
example : RefSeg (0, 0) [(1/4, 2), (1/2, 1), (3/4, 2)] (1, 0) ∧
    (ITree.build 4 0 [(1/4, 2), (1/2, 1), (3/4, 2)] 1).isFull = true := by
  refine ⟨?_, by decide +kernel⟩
  have hl : RefSeg (0, 0) ([] ++ (1/4, 2) :: []) (1/2, 1) :=
    RefSeg.bisect _ _ _ [] [] (by decide +kernel) (by decide) (RefSeg.leaf _ _) (RefSeg.leaf _ _)
  have hr : RefSeg (1/2, 1) ([] ++ (3/4, 2) :: []) (1, 0) :=
    RefSeg.bisect _ _ _ [] [] (by decide +kernel) (by decide) (RefSeg.leaf _ _) (RefSeg.leaf _ _)
  exact RefSeg.bisect (0, 0) (1, 0) (1/2, 1) _ _ (by decide +kernel) (by decide) hl hr

/-! ## grouped Simpson containers and the unrefined grid -/

/-- **grouped Simpson containers**: the weights `2·boundary + Σ inner` of a Simpson container of depth `k+1` sum to
    the length of its interval (level-0 row `h/2, h/2`, Simpson rows `h/3, 4h/3, 2h/3, …` from level 1 on), and a
    container of `2^(k+1)` equal consecutive slices integrates every affine function exactly — for every size.
    (Together with `extrapolation_weights_exact` this is the sum / linear clause for `SIMPSON_ROMBERG` with `GROUPED`
    and `GROUPED_OPTIMIZED` slices.) -/
theorem simpson_container_exact (sv : SliceVer) (s s' : Slice) (r : List Slice) (k : ℕ) (x h α β : ℚ) (hpos : 0 < h)
    (hlen : (s :: s' :: r).length = 2 ^ (k + 1)) (hE : Equi x h (s :: s' :: r))
    (cs : List (ℚ × ℚ)) (hc : containerContribs sv .simpson (s :: s' :: r) = some cs) :
    2 * simpBoundary x (x + 2 ^ (k + 1) * h) (k + 1)
        + levelSum (fun l => simpInner x (x + 2 ^ (k + 1) * h) l (k + 1)) (k + 1) 1 = 2 ^ (k + 1) * h ∧
    wsum (fun y => α * y + β) cs = prim α β (x + 2 ^ (k + 1) * h) - prim α β x := by
  have hab : x ≠ x + 2 ^ (k + 1) * h := by
    have : (0 : ℚ) < 2 ^ (k + 1) * h := mul_pos (pow_pos (by norm_num) _) hpos
    linarith
  have ht := simpson_total x (x + 2 ^ (k + 1) * h) k hab
  refine ⟨by rw [ht]; ring, ?_⟩
  rw [containerContribs_wsum sv .simpson s s' r k x h α β hlen hE cs hc]
  simp only [bwOf, iwOf]
  rw [ht]
  simp only [prim]
  ring

example : Equi 0 (1/2) [⟨0, 1/2, 0, 1, []⟩, ⟨1/2, 1, 1, 0, []⟩] ∧
    containerContribs .romberg .simpson [⟨0, 1/2, 0, 1, []⟩, ⟨1/2, 1, 1, 0, []⟩]
      = some [(0, 5/42), (1/2, 16/21), (1, 5/42)] := by
  refine ⟨⟨rfl, by decide +kernel, by decide +kernel, by decide +kernel, trivial⟩, by decide +kernel⟩

/-- the refinement tree `[0,1/8,1/4,3/8,1/2,3/4,1]` with grouped Simpson containers (containers of 4 and 2 slices) -/
example : weights ⟨.grouped, .romberg, .simpson, false⟩ [0, 1/8, 1/4, 3/8, 1/2, 3/4, 1] [0, 3, 2, 3, 1, 2, 0]
    = .ok [187/5292, 256/1323, 8/189, 256/1323, 251/2646, 8/21, 5/84] := by decide +kernel

/-- **the unrefined grid** `[a, b]`, `a < b`: every configuration — also with `force_balanced_refinement_tree`, which
    only completes trees with an inner point — returns the trapezoidal weights `(b-a)/2, (b-a)/2` -/
theorem two_point_grid_weights (cfg : Cfg) (a b : ℚ) (hab : a < b) :
    weights cfg [a, b] [0, 0] = .ok [(b - a) / 2, (b - a) / 2] :=
  two_points cfg a b hab

example : weights ⟨.optimized, .trapezoid, .simpson, true⟩ [0, 1] [0, 0] = .ok [1/2, 1/2] := by decide +kernel

/-! ## binary tree completion -/

/-- **round trip**: `init_tree` followed by `get_grid` returns the given inner points, for arbitrary level lists -/
theorem init_tree_round_trip (l : List PL) : (BTree.build (l.length + 1) l).inorder = l.map Prod.fst :=
  BTree.build_inorder _ l (Nat.le_succ _)

/-- **forcing a full tree keeps all given points and only adds points**: the in-order list of (point, level) pairs
    of the given tree is a sublist of that of the completed tree (points, their order and their levels survive) -/
theorem full_tree_keeps_points (t : BTree) (k : ℕ) :
    (t.pointLevels k).Sublist (t.forceFull.pointLevels k) ∧ t.inorder.Sublist t.forceFull.inorder :=
  ⟨BTree.forceFull_keeps t k, BTree.forceFull_keeps_points t⟩

/-- **the completed tree has zero or two children at every node**, and a tree that already has this property is
    left unchanged -/
theorem full_tree_is_full (t : BTree) :
    t.forceFull.isFull = true ∧ (t.isFull = true → t.forceFull = t) :=
  ⟨BTree.forceFull_isFull t, BTree.forceFull_of_isFull t⟩

/-- **the completed tree is again a dyadic refinement tree** of the same interval (the added point is the missing
    sibling), hence strictly increasing in order and strictly inside the interval -/
theorem full_tree_dyadic (t : BTree) (c w : ℚ) (hw : 0 < w) (h : BTree.Dyadic c w t) :
    BTree.Dyadic c w t.forceFull ∧ (∀ x ∈ t.forceFull.inorder, c - w < x ∧ x < c + w) ∧
      t.forceFull.inorder.Pairwise (· < ·) :=
  ⟨BTree.forceFull_dyadic t c w h, BTree.dyadic_sorted _ c w hw (BTree.forceFull_dyadic t c w h)⟩

/-- non-vacuity: the third grid of `test_BinaryTreeGrid.py` -/
example : BTree.build 4 [(1/4, 2), (3/8, 3), (1/2, 1)]
      = .node (.node .nil (1/4) (.node .nil (3/8) .nil)) (1/2) .nil ∧
    BTree.Dyadic (1/2) (1/2) (.node (.node .nil (1/4) (.node .nil (3/8) .nil)) (1/2) .nil) ∧
    (BTree.build 4 [(1/4, 2), (3/8, 3), (1/2, 1)]).isFull = false ∧
    (BTree.build 4 [(1/4, 2), (3/8, 3), (1/2, 1)]).forceFull.inorder = [1/8, 1/4, 3/8, 1/2, 3/4] := by
  refine ⟨by decide +kernel, ?_, by decide +kernel, by decide +kernel⟩
  exact ⟨rfl, ⟨by decide +kernel, trivial, by decide +kernel, trivial, trivial⟩, trivial⟩

end SparseSpace.C11
