import SparseSpace.Lemmas.AdaptDriverGen
import SparseSpace.Properties.C13
/-!
# C13 / C14, translator tie — the adaptive driver GENERATED from `spatiallyAdaptiveBase.py` agrees with `Model/AdaptDriver`

`Generated/AdaptDriverGen.lean` is produced by `tools/py2lean --spec specs/adaptdriver.json` on every run:
`performSpatiallyAdaptiv` and `continue_adaptive_refinement`.  The strategy-specific part of the object is the opaque
world `W` with abstract operations (`GenAD.Abstract`); plotting, solution storage, evaluation-point monitoring and
single-step mode are assumed off (spec `assume_exprs`); the fuel of the `while True` loop is the ghost parameter `fuel`.
`machineOf F` is the hand model's `Machine` made of `evaluate_operation / initialize_grid / get_total_num_points / refine`.
-/
namespace SparseSpace.C13gen
open SparseSpace SparseSpace.Adapt SparseSpace.PyRt
variable {W R RC EO SCH LM : Type}

/-! ## Part A — generated definition = hand model -/

/-- the stop test of the generated loop is the hand model's `stopNow` (limits of THIS call) -/
theorem stop_test_agrees (tol e sur : Rat) (minE n : Int) (maxE : Option Int) (hn : 0 ≤ n) :
    stopNow ⟨tol, minE, maxE⟩ ⟨e, n.toNat, sur⟩ = stopB tol e minE n maxE := stopNow_eq_stopB tol e sur minE n maxE hn

/-- one round of the generated loop (no time limit): evaluate, three appends, stop test, refine -/
theorem round_agrees (F : GenAD.Abstract W R RC EO SCH LM) (tol : Rat) (minE : Int) (start : Rat)
    (s : GenAD.State W R RC EO SCH LM) (maxE : Option Int) :
    stepAD F tol none minE start (s, maxE)
      = if stopB tol (F.evaluate_operation s.world).2.1 minE
            (F.get_total_num_points (F.initialize_grid (F.evaluate_operation s.world).1) false) maxE = true
        then (false, (afterEval F s, maxE)) else (true, (afterRefine F s, maxE)) := stepAD_none F tol minE start s maxE

/-- the `while True` loop in lock-step with the hand model's `loop` -/
theorem loop_agrees (F : GenAD.Abstract W R RC EO SCH LM) (tol : Rat) (minE : Int) (maxE : Option Int) (start : Rat)
    (hpts : ∀ w, F.get_total_num_points w true = F.get_total_num_points w false)
    (hnn : ∀ w, 0 ≤ F.get_total_num_points w false)
    (fuel : Nat) (s : GenAD.State W R RC EO SCH LM) (k : Nat) (r : Result W)
    (h : loop (machineOf F) ⟨tol, minE, maxE⟩ fuel s.world (histOf s) k = some r) :
    ∃ s', whileSt fuel (s, maxE) (stepAD F tol none minE start) = (s', maxE) ∧ s'.world = r.state ∧ histOf s' = r.hist ∧
      s' = { s with world := s'.world, error_array := s'.error_array, surplus_error_array := s'.surplus_error_array,
                    num_point_array := s'.num_point_array } :=
  gen_loop F tol minE maxE start hpts hnn fuel s k r h

/-- `continue_adaptive_refinement` (no time limit, `test_scheme` / `reevaluate_at_end` off) -/
theorem continue_agrees (F : GenAD.Abstract W R RC EO SCH LM) (s : GenAD.State W R RC EO SCH LM) (tol : Rat) (maxE : Option Int)
    (minE fuel : Int) (hpts : ∀ w, F.get_total_num_points w true = F.get_total_num_points w false)
    (hnn : ∀ w, 0 ≤ F.get_total_num_points w false) (ht : s.test_scheme = false) (hre : s.reevaluate_at_end = false)
    (r : Result W) (hl : loop (machineOf F) ⟨tol, minE, maxE⟩ fuel.toNat s.world (histOf s) 0 = some r) :
    (GenAD.continue_adaptive_refinement F s tol none maxE minE fuel).1.world = r.state ∧
    histOf (GenAD.continue_adaptive_refinement F s tol none maxE minE fuel).1 = r.hist ∧
    (GenAD.continue_adaptive_refinement F s tol none maxE minE fuel).1.calculated_solution = some (F.get_result r.state) ∧
    (GenAD.continue_adaptive_refinement F s tol none maxE minE fuel).2
      = (F.refinement r.state, F.scheme r.state, F.lmax r.state, F.get_result r.state, F.evaluationstotal r.state,
         r.hist.errs, (GenAD.continue_adaptive_refinement F s tol none maxE minE fuel).1.num_point_array, r.hist.surs,
         s.interpolation_error_arrayL2, s.interpolation_error_arrayMax) :=
  gen_continue F s tol maxE minE fuel hpts hnn ht hre r hl

/-- `performSpatiallyAdaptiv` = store the arguments, EMPTY the five history arrays, `init_adaptive_combi`, then
`continue_adaptive_refinement` with exactly its own `tol`, `max_time`, `max_evaluations`, `min_evaluations` -/
theorem perform_agrees (F : GenAD.Abstract W R RC EO SCH LM) (s : GenAD.State W R RC EO SCH LM) (lmin lmax : Int) (eo : EO) (tol : Rat)
    (rc : RC) (do_plot recalc test_scheme reeval : Bool) (max_time : Option Rat) (maxE : Option Int) (print_output : Bool)
    (minE : Int) (ss ep : Option Bool) (single : Bool) (fuel : Int) :
    GenAD.performSpatiallyAdaptiv F s lmin lmax eo tol rc do_plot recalc test_scheme reeval max_time maxE print_output minE ss ep single fuel
      = GenAD.continue_adaptive_refinement F
          (enterState F s lmin lmax eo tol rc do_plot recalc test_scheme reeval print_output ss ep single) tol max_time maxE minE fuel ∧
    histOf (enterState F s lmin lmax eo tol rc do_plot recalc test_scheme reeval print_output ss ep single) = Hist.empty :=
  ⟨rfl, rfl⟩

/-! non-vacuity: a concrete strategy (world = number of refinements made; error 1 before the second refinement, then 0; points 2w+1) -/
def exF : GenAD.Abstract Nat Nat Nat Nat Nat Nat :=
  { evaluate_operation := fun w => (w, ((if 2 ≤ w then (0 : Rat) else 1), 0)), initialize_grid := id, refine := fun w => w + 1,
    init_adaptive_combi := fun _ _ _ _ _ => 0, evaluate_final_combi := fun w => (w, (w, 0)), check_combi_scheme := id,
    get_total_num_points := fun w _ => 2 * (w : Int) + 1, get_result := id, get_reference_solution := fun _ => 0,
    perf_counter := fun _ => 0, time_time := fun _ => 0, evaluationstotal := fun w => w, refinement := id, scheme := id, lmax := id }
def exS : GenAD.State Nat Nat Nat Nat Nat Nat :=
  { (default : GenAD.State Nat Nat Nat Nat Nat Nat) with error_array := [7], num_point_array := [9], surplus_error_array := [8] }

example : (GenAD.performSpatiallyAdaptiv exF exS 1 2 0 0 0 false false false false none (some 2) true 1 none none false 10).1.num_point_array
    = [1, 3] := by decide
example : (GenAD.performSpatiallyAdaptiv exF exS 1 2 0 0 0 false false false false none none true 9 none none false 10).1.world = 4 := by
  decide

/-! ## Part B — C13 / C14 statements for the generated driver -/

/-- **stops at the first evaluation that meets the rule of THIS call, one array entry per evaluation, no refinement after
the stop** — for the generated `performSpatiallyAdaptiv`: if the hand model's run stops within the fuel (`r`), then the
generated call ends in the state right after evaluation number `r.refines` (not refined again), `r.refines` is the LEAST
evaluation index at which `error ≤ tol ∧ points ≥ min_evaluations` or `points > max_evaluations` holds, and the returned
error array has exactly `r.refines + 1` entries: the errors of the evaluations `0 … r.refines` -/
theorem gen_stops_at_first (F : GenAD.Abstract W R RC EO SCH LM) (s : GenAD.State W R RC EO SCH LM) (lmin lmax : Int) (eo : EO) (tol : Rat)
    (rc : RC) (do_plot recalc : Bool) (maxE : Option Int) (print_output : Bool) (minE : Int) (ss ep : Option Bool) (single : Bool)
    (fuel : Int) (hpts : ∀ w, F.get_total_num_points w true = F.get_total_num_points w false)
    (hnn : ∀ w, 0 ≤ F.get_total_num_points w false) (r : Result W)
    (hr : run (machineOf F) ⟨tol, minE, maxE⟩ fuel.toNat (F.init_adaptive_combi s.world lmin lmax rc tol) = some r) :
    let out := GenAD.performSpatiallyAdaptiv F s lmin lmax eo tol rc do_plot recalc false false none maxE print_output minE ss ep single fuel
    let w0 := F.init_adaptive_combi s.world lmin lmax rc tol
    out.1.world = stateAt (machineOf F) w0 r.refines ∧
    C13.StopRule ⟨tol, minE, maxE⟩ (obsAt (machineOf F) w0 r.refines) ∧
    (∀ j, j < r.refines → ¬ C13.StopRule ⟨tol, minE, maxE⟩ (obsAt (machineOf F) w0 j)) ∧
    out.1.error_array = (obsList (machineOf F) w0 (r.refines + 1)).map (·.err) ∧
    out.1.error_array.length = r.refines + 1 ∧ out.1.surplus_error_array.length = r.refines + 1 ∧
    out.1.num_point_array.length = r.refines + 1 := by
  intro out w0
  have hc := gen_continue F (enterState F s lmin lmax eo tol rc do_plot recalc false false print_output ss ep single)
    tol maxE minE fuel hpts hnn rfl rfl r hr
  have hs := C13.stops_at_first (machineOf F) ⟨tol, minE, maxE⟩ fuel.toNat w0 r hr
  have ha := C13.arrays_len (machineOf F) ⟨tol, minE, maxE⟩ fuel.toNat w0 Hist.empty r hr
  have hout : out = GenAD.continue_adaptive_refinement F
      (enterState F s lmin lmax eo tol rc do_plot recalc false false print_output ss ep single) tol none maxE minE fuel := rfl
  rw [hout]
  obtain ⟨c1, c2, _, _⟩ := hc
  have he : (GenAD.continue_adaptive_refinement F
      (enterState F s lmin lmax eo tol rc do_plot recalc false false print_output ss ep single) tol none maxE minE fuel).1.error_array
      = r.hist.errs := by rw [← c2]; rfl
  have hsu : (GenAD.continue_adaptive_refinement F
      (enterState F s lmin lmax eo tol rc do_plot recalc false false print_output ss ep single) tol none maxE minE fuel).1.surplus_error_array
      = r.hist.surs := by rw [← c2]; rfl
  have hp : ((GenAD.continue_adaptive_refinement F
      (enterState F s lmin lmax eo tol rc do_plot recalc false false print_output ss ep single) tol none maxE minE fuel).1.num_point_array).map Int.toNat
      = r.hist.pts := by rw [← c2]; rfl
  have hev : r.evals = r.refines + 1 := hs.2.2.2.2.1
  refine ⟨by rw [c1]; exact hs.2.2.1, hs.1, hs.2.1, ?_, ?_, ?_, ?_⟩
  · rw [he, ha.1, hev]; simp [Hist.empty]
  · rw [he, ha.1, hev]; simp [Hist.empty, obsList_length]
  · rw [hsu, ha.2.2.1, hev]; simp [Hist.empty, obsList_length]
  · have := congrArg List.length hp
    rw [List.length_map] at this
    rw [this, ha.2.1, hev]; simp [Hist.empty, obsList_length]

end SparseSpace.C13gen
