import SparseSpace.Properties.C07
import SparseSpace.Lemmas.ExtendSplitPushV12
/-!
# C07b — versions 1 and 2 of `coarsen_grid` with `lmin = 1`: valid local combination for ALL `dim`, `lmax`, coarsening

Closes the extension left open in `Properties/C07.lean` (`v12_local_valid_lmin1_bounded` was an exhaustive kernel
evaluation on `dim ≤ 4`, `lmax ≤ 5`).  Here, for every `dim ≥ 2`, every `lmax ≥ 1 = lmin` and every coarsening `c ≥ 0`
(no upper bound needed), the grids that `coarsen_grid` versions 1 and 2 compute in an area of coarsening `c`
(`computed v dim 1 lmax c`, the same definition the driver executes) form a valid local combination: the
executable check `localValid` is `true`, i.e. the coefficients of the computed grids containing a grid point of the
area sum to 1 at every point of the downward closure of the support (0 elsewhere), they sum to 1 in total, and the
combination reproduces everything the component operators agree on (nodal values).

Route (pure order theory + C01's identity for the GLOBAL standard scheme):
* `coarsen_loop_dominates_iff`: what the `while` loop does, as an order statement for every start vector / budget;
* `v12_coarsening_adjoint`: on the simplex where the global scheme lives the coarsening map `phi12` has the lower
  adjoint `psi12` (`phi12 l ≥ t ⇔ l ≥ psi12 t`) — it has none on the whole lattice; the code's "no forward problem"
  bound is exactly what is needed;
* `pushforward_valid`: the push-forward of a scheme with the dominated-sum identity along a map with a lower
  adjoint on the SUPPORT is valid, with index set `{t | psi t ∈ J}`.
The computed scheme is not a standard scheme in general; its index set is `{t | |psi12 t| ≤ lmax + dim - 1}`
(`v12_index_set`), e.g. for `computed 1 3 1 4 1` the box `≤ (2,2,2)` plus the three axes up to 3.

For `lmin ≥ 2` the statement is false (`C07.v12_counterexample`, known finding).
-/
namespace SparseSpace.C07b
open SparseSpace

/-! ## the general lemma -/

/-- **push-forward of a valid combination along a map with a lower adjoint on the support**: if the dominated sums
of `L` are the indicator of a downward-closed `J ⊇ supp L` and `φ l ≥ t ⇔ l ≥ ψ t` for every `l` of the support, then
`[(φ l, c_l)]` is a valid local combination, its dominated sums are `[ψ t ∈ J]` and its index set is `ψ⁻¹ J`. -/
theorem pushforward_valid (dim : Nat) (lmin : Int) (L : List (LV × Int)) (J : LV → Bool)
    (φ ψ : LV → LV) (hne : L ≠ [])
    (hid : ∀ u : LV, u.length = dim → geAll lmin u → domSum L u = if J u = true then 1 else 0)
    (hsupp : ∀ p ∈ L, J p.1 = true)
    (hJdown : ∀ a b : LV, a.length = dim → geAll lmin a → leAll a b = true → J b = true → J a = true)
    (hφ : ∀ p ∈ L, (φ p.1).length = dim ∧ geAll lmin (φ p.1))
    (hψ : ∀ t : LV, t.length = dim → geAll lmin t → (ψ t).length = dim ∧ geAll lmin (ψ t))
    (hadj : ∀ t : LV, t.length = dim → geAll lmin t → ∀ p ∈ L, leAll t (φ p.1) = leAll (ψ t) p.1) :
    LocalValid dim lmin (pushForward φ L) ∧
      (∀ t : LV, t.length = dim → geAll lmin t → domSum (pushForward φ L) t = if J (ψ t) = true then 1 else 0) ∧
      (∀ t : LV, t.length = dim → geAll lmin t → inDown (pushForward φ L) t = J (ψ t)) :=
  SparseSpace.pushforward_valid dim lmin L J φ ψ hne hid hsupp hJdown hφ hψ hadj

/-- the executable check is complete as well as sound: `localValid = true` IFF the local combination is valid -/
theorem localValid_iff (dim : Nat) (lmin : Int) (c : List (LV × Int)) :
    localValid dim lmin c = true ↔ LocalValid dim lmin c :=
  ⟨SparseSpace.localValid_sound dim lmin c, localValid_complete dim lmin c⟩

/-! ## the loop of versions 1 and 2 -/

/-- **the `while coarsening > 0` loop, order-theoretically** (every `lmin`, `lmax`, version, top-diagonal flag, start
vector `cur ≥ lmin`, remaining budget `c ≥ -b`, target `T`): the result dominates `T` iff `cur` dominates `T` and the
loop cannot shave `cur` down to height `max T - 1` — `max T` is below the thresholds, or the cost
`wAbove (max T - 1) cur = Σ (cur_i - (max T - 1))^+` exceeds the budget (top diagonal of version 1: one unit of
overdraft, but only with at least two maxima). -/
theorem coarsen_loop_dominates_iff (version dim : Nat) (lmin lmax C : Int) (top : Bool) (T cur : LV) (c : Int)
    (hT : T ≠ []) (hcur : cur ≠ []) (hg : geAll lmin cur)
    (hc : -(if version = 1 ∧ top = true then 1 else 0 : Int) ≤ c) :
    leAll T (v12Loop version dim lmin lmax C top c.toNat c cur) = true ↔
      leAll T cur = true ∧
        ((lvMax T ≤ lmin ∨ C < lmax + 1 - 2 * lvMax T + (if version = 1 then 1 else 2)) ∨
          wAbove (lvMax T - 1) cur > c + (if version = 1 ∧ top = true then 1 else 0) ∨
          ((if version = 1 ∧ top = true then 1 else 0 : Int) = 1 ∧ wAbove (lvMax T - 1) cur = c + 1 ∧
            kAbove (lvMax T - 1) cur = 1)) :=
  v12Loop_ge_iff version dim lmin lmax C top _ _ rfl rfl T hT c.toNat c cur (by omega) hc hcur hg

/-- **the coarsening map of versions 1, 2 has a lower adjoint on the simplex**: for a level vector `lv ≥ 1` of length
`dim ≥ 2` with `|lv| ≤ lmax + dim - 1` (diagonal `q ≥ 0`), every coarsening `C ≥ 0` and every target `T`:
`phi12 lv ≥ T ⇔ lv ≥ psi12 T`. -/
theorem v12_coarsening_adjoint (version dim : Nat) (lmax C : Int) (hd : 2 ≤ dim) (hC : 0 ≤ C)
    (lv : LV) (q : Int) (hq0 : 0 ≤ q) (hlen : lv.length = dim) (hg : geAll 1 lv)
    (hsum : lv.sum = lmax - 1 - q + (dim : Int)) (T : LV) (hT : T.length = dim) :
    leAll T (phi12 version dim lmax C lv) = leAll (psi12 version lmax C T) lv :=
  v12_adjoint version dim lmax C hd hC lv q hq0 hlen hg hsum T hT

/-- what the pass of the code over its scheme computes (versions 1, 2; the collision dictionary is not used by these
versions, nothing is nulled): the push-forward of the global standard scheme along `phi12` -/
theorem v12_computed_is_pushforward (version dim : Nat) (lmax c : Int) (hv : version = 1 ∨ version = 2)
    (hd : 2 ≤ dim) :
    computed version dim 1 lmax c = pushForward (phi12 version dim lmax c) (stdScheme dim 1 lmax) :=
  computed_v12_eq_push version dim lmax c hv hd

/-! ## the open theorems of C07, round 2 -/

/-- **version 1, `lmin = 1`, all `dim ≥ 2`, `lmax ≥ 1`, `c ≥ 0`**: the computed grids form a valid local combination -/
theorem v1_local_valid_lmin1 (dim : Nat) (lmax c : Int) (hd : 2 ≤ dim) (hl : 1 ≤ lmax) (hc : 0 ≤ c) :
    localValid dim 1 (computed 1 dim 1 lmax c) = true :=
  localValid_complete dim 1 _ (v12_push_valid 1 dim lmax c (Or.inl rfl) hd hl hc).1

/-- **version 2, `lmin = 1`, all `dim ≥ 2`, `lmax ≥ 1`, `c ≥ 0`** -/
theorem v2_local_valid_lmin1 (dim : Nat) (lmax c : Int) (hd : 2 ≤ dim) (hl : 1 ≤ lmax) (hc : 0 ≤ c) :
    localValid dim 1 (computed 2 dim 1 lmax c) = true :=
  localValid_complete dim 1 _ (v12_push_valid 2 dim lmax c (Or.inr rfl) hd hl hc).1

/-- point-wise meaning: at a grid point of level `t` the coefficients of the computed grids containing it sum to 1
iff `psi12 t` lies in the global simplex, else to 0 -/
theorem v12_pointwise (version dim : Nat) (lmax c : Int) (hv : version = 1 ∨ version = 2) (hd : 2 ≤ dim)
    (hl : 1 ≤ lmax) (hc : 0 ≤ c) (t : LV) (ht : t.length = dim) (hmin : geAll 1 t) :
    domSum (computed version dim 1 lmax c) t =
      if (psi12 version lmax c t).sum ≤ lmax - 1 + (dim : Int) then 1 else 0 :=
  (v12_push_valid version dim lmax c hv hd hl hc).2.1 t ht hmin

/-- the index set of the local combination (levels of the area's grid points = downward closure of the computed
grids) in closed form -/
theorem v12_index_set (version dim : Nat) (lmax c : Int) (hv : version = 1 ∨ version = 2) (hd : 2 ≤ dim)
    (hl : 1 ≤ lmax) (hc : 0 ≤ c) (t : LV) (ht : t.length = dim) (hmin : geAll 1 t) :
    inDown (computed version dim 1 lmax c) t = decide ((psi12 version lmax c t).sum ≤ lmax - 1 + (dim : Int)) :=
  (v12_push_valid version dim lmax c hv hd hl hc).2.2 t ht hmin

/-- the coefficients of the computed grids sum to 1 -/
theorem v12_total_one (version dim : Nat) (lmax c : Int) (hv : version = 1 ∨ version = 2) (hd : 2 ≤ dim)
    (hl : 1 ≤ lmax) (hc : 0 ≤ c) : ((computed version dim 1 lmax c).map (·.2)).sum = 1 :=
  (v12_push_valid version dim lmax c hv hd hl hc).1.total

/-- reproduction: for every level `k` of a grid point of the area and every family `F` of component results that
only depends on `l ⊓ k` (nodal interpolants at a point of level `k`), the combination of the computed grids is `F k` -/
theorem v12_reproduces {V : Type} [AddCommGroup V] (version dim : Nat) (lmax c : Int)
    (hv : version = 1 ∨ version = 2) (hd : 2 ≤ dim) (hl : 1 ≤ lmax) (hc : 0 ≤ c)
    (k : LV) (hk : k.length = dim) (hkmin : geAll 1 k)
    (hkJ : (psi12 version lmax c k).sum ≤ lmax - 1 + (dim : Int))
    (F : LV → V) (hF : ∀ p ∈ computed version dim 1 lmax c, F p.1 = F (meet p.1 k)) :
    ((computed version dim 1 lmax c).map fun p => p.2 • F p.1).sum = F k := by
  have h := v12_push_valid version dim lmax c hv hd hl hc
  refine h.1.collapse k hk hkmin ?_ F hF
  rw [h.2.2 k hk hkmin]
  exact decide_eq_true hkJ

/-- **all histories**: in every state reached from `(dim ≥ 2, lmin = 1, lmax ≥ 1)` with version 1 or 2 by an arbitrary
operation list, every area of the refinement tree carries a valid local combination -/
theorem v12_reachable_valid (dim : Nat) (lmax nrbe : Int) (version : Nat) (auto single : Bool) (root : Box)
    (ops : List ESOp) (hv : version = 1 ∨ version = 2) (hd : 2 ≤ dim) (hp : Proper root) (hl : root.length = dim)
    (hlm : 1 ≤ lmax) :
    ∀ a ∈ (C07.reach dim 1 lmax nrbe version auto single root ops).forest.nodes,
      localValid dim 1
        (computed version dim 1 (C07.reach dim 1 lmax nrbe version auto single root ops).lmax a.coarsening) = true := by
  intro a ha
  have h := C07.coarsening_nonneg dim 1 lmax nrbe version auto single root ops (by omega) hp hl a ha
  exact localValid_complete dim 1 _ (v12_push_valid version dim _ _ hv hd (by omega) h.1).1

/-! ## 2-D, version 1: the standard scheme of level `max (lmax - c) 1` -/

theorem psi12_sum_2d (lmax c a b : Int) (hl : 1 ≤ lmax) (hc : 0 ≤ c) (ha : 1 ≤ a) (hb : 1 ≤ b) :
    (psi12 1 lmax c [a, b]).sum ≤ lmax - 1 + 2 ↔ a + b ≤ max (lmax - c) 1 - 1 + 2 * 1 := by
  have hm : lvMax [a, b] = max a b := by simp [lvMax]
  unfold psi12 bumpMax
  rw [hm]
  have h1 : a ≤ max a b := le_max_left a b
  have h2 : b ≤ max a b := le_max_right a b
  have h3 : max a b = a ∨ max a b = b := by rcases le_total a b with h | h <;> simp [h]
  generalize max a b = m at *
  simp only [if_true, List.map_cons, List.map_nil]
  by_cases hlow : m ≤ 1 ∨ c < lmax + 1 - 2 * m + 1
  · rw [if_pos hlow]
    simp only [List.sum_cons, List.sum_nil]
    omega
  · rw [if_neg hlow]
    by_cases e1 : a = m <;> by_cases e2 : b = m <;>
      simp only [e1, e2, if_true, if_false, List.sum_cons, List.sum_nil] <;> omega

/-- in two dimensions version 1 computes (up to duplicates whose coefficients cancel) the STANDARD scheme of level
`max (lmax - c) 1`: the dominated sums at every level agree, for every `lmax ≥ 1`, `c ≥ 0` -/
theorem v1_2d_is_standard (lmax c : Int) (hl : 1 ≤ lmax) (hc : 0 ≤ c) (t : LV) (ht : t.length = 2) (hmin : geAll 1 t) :
    domSum (computed 1 2 1 lmax c) t = domSum (stdScheme 2 1 (max (lmax - c) 1)) t := by
  rw [v12_pointwise 1 2 lmax c (Or.inl rfl) (le_refl 2) hl hc t ht hmin,
    std_domSum 2 1 (max (lmax - c) 1) (by decide) (by decide) (le_max_right _ _) t ht hmin]
  match t, ht, hmin with
  | [a, b], _, hmin =>
    have ha : 1 ≤ a := hmin a (by simp)
    have hb : 1 ≤ b := hmin b (by simp)
    have := psi12_sum_2d lmax c a b hl hc ha hb
    have hs : [a, b].sum = a + b := by simp
    rw [hs]
    exact if_congr this rfl rfl

/-! ## non-vacuity and consistency -/

-- outside the box of the bounded theorem (dim 5, lmax 6; dim 6)
example : localValid 5 1 (computed 1 5 1 6 2) = true := v1_local_valid_lmin1 5 6 2 (by decide) (by decide) (by decide)
example : localValid 6 1 (computed 2 6 1 4 3) = true := v2_local_valid_lmin1 6 4 3 (by decide) (by decide) (by decide)
-- the statement is not about an empty or trivial scheme, and the scheme is not a standard scheme
example : (computed 1 3 1 4 1).length = 19 := by decide
example : domSum (computed 1 3 1 4 1) [3, 1, 1] = 1 := by decide
example : domSum (computed 1 3 1 4 1) [3, 2, 1] = 0 := by decide
-- the closed-form index set on the example of the handoff: box ≤ (2,2,2) plus the axes up to 3
example : psi12 1 4 1 [3, 1, 1] = [4, 1, 1] := by decide
example : psi12 1 4 1 [2, 2, 2] = [2, 2, 2] := by decide
example : inDown (computed 1 3 1 4 1) [3, 1, 1] = true := by
  rw [v12_index_set 1 3 4 1 (Or.inl rfl) (by decide) (by decide) (by decide) _ rfl (by simp [geAll])]; decide
example : inDown (computed 1 3 1 4 1) [3, 2, 1] = false := by
  rw [v12_index_set 1 3 4 1 (Or.inl rfl) (by decide) (by decide) (by decide) _ rfl (by simp [geAll])]; decide
example : inDown (computed 2 2 1 3 1) [2, 2] = true := by
  rw [v12_index_set 2 2 3 1 (Or.inr rfl) (by decide) (by decide) (by decide) _ rfl (by simp [geAll])]; decide
-- the map really coarsens and has NO lower adjoint on the whole lattice: `(6,1)` and `(5,4)` are mapped above `(4,1)`,
-- their meet `(5,1)` is not (outside the simplex `|l| ≤ 6`, where the adjoint `psi12 (4,1) = (6,1)` is exact)
example : phi12 2 2 5 2 [4, 2] = [2, 2] := by decide
example : leAll [4, 1] (phi12 2 2 5 2 [6, 1]) = true ∧ leAll [4, 1] (phi12 2 2 5 2 [5, 4]) = true ∧
    leAll [4, 1] (phi12 2 2 5 2 [5, 1]) = false ∧ psi12 2 5 2 [4, 1] = [6, 1] := by decide
-- hypotheses of `pushforward_valid` are satisfiable: its instance for the standard scheme
example : LocalValid 3 1 (pushForward (phi12 1 3 4 1) (stdScheme 3 1 4)) := by
  rw [← v12_computed_is_pushforward 1 3 4 1 (Or.inl rfl) (by decide)]
  exact (localValid_iff 3 1 _).1 (v1_local_valid_lmin1 3 4 1 (by decide) (by decide) (by decide))
-- 2-D: version 1 is standard, version 2 is not (it computes the single full grid (2,2) here)
example : domSum (computed 1 2 1 3 1) [2, 2] = 0 ∧ domSum (stdScheme 2 1 2) [2, 2] = 0 := by decide
example : domSum (computed 2 2 1 3 1) [2, 2] = 1 := by decide
-- `lmin = 1` is essential (known finding of C07)
example : localValid 2 2 (computed 1 2 2 4 1) = false := by decide

end SparseSpace.C07b
