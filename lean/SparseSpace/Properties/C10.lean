import SparseSpace.Lemmas.HierPoly
import SparseSpace.Lemmas.HierUnique
import SparseSpace.Lemmas.HierTriTree
import Mathlib.Tactic.IntervalCases
import Mathlib.Tactic.NormNum
/-!
# C10 — hierarchical bases interpolate: surpluses reproduce every nodal value

Theorems about `Model/Hier` (mirror of `BasisFunctions.py`, `Hierarchization.py`, `Grid.py: interpolate`), over ℚ,
for every number of knots, every dimension, every table and every evaluation point.

Clauses of the property and the theorems that carry them
* "each Lagrange basis function is 1 at its own knot and 0 at its other knots" — `lagrange_cardinal`,
  `lagrangeR_cardinal` (the restricted variant used by the grids);
* "basis derivatives agree with differentiation of the basis values" — `lagrange_derivative` (the value computed
  by `derivative_for_index` IS the formal derivative of the polynomial computed by `__call__`);
* "hierarchisation followed by interpolation returns the original values at all grid points, vector-valued, any
  dimension" — `gaussSolve_sound`, `hierarchise_interpolate_id`, `hierarchise_interpolate_id_table`
  (any basis family: Lagrange, restricted, B-spline — the basis functions are arbitrary);
* "the per-pole systems are uniquely solvable" — `unitriangular_unique` + `hierarchise_surpluses_unique`
  (uniqueness whenever the collocation matrices are level-triangular), `collocation_unitriangular` (they ARE, for the
  hierarchical restricted Lagrange basis of every order on every refinement tree), `gaussSolve_complete`,
  `hier_lagrange_solvable` (no hypothesis left for the hierarchical Lagrange grids);
* "polynomials up to min(p, n-1) are reproduced everywhere" — `poly_reproduction`, `lagrange_partition` for ONE
  Lagrange knot window (`n = p+1` knots: every polynomial of degree ≤ p = n-1), and
  `hier_reproduces_span` for the hierarchical interpolant (everything in the span of the tensor basis is
  reproduced everywhere once the solves succeed and are unique).

Full statement NOT carried by a theorem (validated by the oracle only): that the span of the hierarchical
restricted Lagrange / not-a-knot B-spline basis of a refinement tree contains all polynomials of degree
≤ min(p, deepest complete level + 1); B-spline values, derivatives and Gauss–Legendre integrals.
-/
namespace SparseSpace.C10
open SparseSpace.Hier Polynomial

/-- a Lagrange basis function is 1 at its own knot and 0 at every other knot (pairwise distinct knots, any number) -/
theorem lagrange_cardinal (knots : List ℚ) (hn : knots.Nodup) (i : Nat) (hi : i < knots.length) :
    lagrange knots i knots[i] = 1 ∧ ∀ j (hj : j < knots.length), j ≠ i → lagrange knots i knots[j] = 0 :=
  ⟨lagrange_own knots hn i hi, fun j hj hne => lagrange_other knots i j hi hj hne⟩

example : ([0, 1/4, 1/2, 1] : List ℚ).Nodup := by simp [List.nodup_cons]
example : lagrange [0, 1/4, 1/2, 1] 2 (3/4) = 3/2 := by norm_num [lagrange, lagFactor, prodExcept, prodAll]

/-- the restricted basis function of the grids (zero outside `[knots[i-1], knots[i+1]]`) keeps the cardinal
property on a strictly increasing knot list -/
theorem lagrangeR_cardinal (knots : List ℚ) (hs : knots.Pairwise (· < ·)) (i : Nat) (hi : i < knots.length) :
    lagrangeR knots i knots[i] = 1 ∧ ∀ j (hj : j < knots.length), j ≠ i → lagrangeR knots i knots[j] = 0 := by
  have hn : knots.Nodup := hs.imp (fun h => ne_of_lt h)
  have hmono : ∀ a b (ha : a < knots.length) (hb : b < knots.length), a ≤ b → knots[a] ≤ knots[b] := by
    intro a b ha hb hab
    rcases Nat.lt_or_ge a b with h | h
    · exact le_of_lt ((List.pairwise_iff_getElem.1 hs) a b ha hb h)
    · have : a = b := by omega
      subst this; exact le_refl _
  constructor
  · have h1 : i - 1 < knots.length := by omega
    have h2 : min (i + 1) (knots.length - 1) < knots.length := by omega
    have : inSupport knots i knots[i] = true := by
      simp only [inSupport, Hier.support, List.getElem?_eq_getElem h1, List.getElem?_eq_getElem h2,
        Bool.and_eq_true, decide_eq_true_eq]
      exact ⟨hmono _ _ h1 hi (by omega), hmono _ _ hi h2 (by omega)⟩
    simp only [lagrangeR, this, if_true]
    exact lagrange_own knots hn i hi
  · intro j hj hne
    simp only [lagrangeR]
    split
    · exact lagrange_other knots i j hi hj hne
    · rfl

example : ([0, 1/2, 3/4, 1] : List ℚ).Pairwise (· < ·) := by norm_num

/-- the code's derivative (`derivative_for_index(x,[index])`) is the formal derivative of the polynomial whose
values `__call__` computes; that polynomial has degree `< number of knots`.  No distinctness needed. -/
theorem lagrange_derivative (knots : List ℚ) (i : Nat) (hi : i < knots.length) :
    ∃ P : ℚ[X], P.degree < knots.length ∧ (∀ x, P.eval x = lagrange knots i x) ∧
      (∀ x, (derivative P).eval x = lagDeriv knots i x) :=
  ⟨lagPoly knots i, degree_lagPoly_lt knots i hi, eval_lagPoly knots i, eval_derivative_lagPoly knots i hi⟩

example : lagDeriv [0, 1/2, 1] 1 (1/4) = 2 := by
  norm_num [lagDeriv, derivLoop, List.eraseIdx, prodExcept, prodAll]

/-- polynomial reproduction on one knot window: with `n` pairwise distinct knots every polynomial of degree `< n`
(for the `p+1` knots of a `LagrangeBasis(p, ·, knots)`: degree ≤ p = n-1) equals its Lagrange interpolant at
EVERY `x` -/
theorem poly_reproduction (knots : List ℚ) (hn : knots.Nodup) (f : ℚ[X]) (hf : f.degree < knots.length) (x : ℚ) :
    ((List.range knots.length).map fun i => f.eval (knots.getD i 0) * lagrange knots i x).sum = f.eval x := by
  rw [← eval_interpPoly knots (fun t => f.eval t) x, interpPoly_reproduces knots hn f hf]

example : ((X ^ 2 + C 3 : ℚ[X])).degree < ([0, 1/4, 1] : List ℚ).length := by
  have : (X ^ 2 + C 3 : ℚ[X]).degree = 2 := by
    rw [degree_add_C (by simp)]; simp
  rw [this]; norm_num

/-- partition of unity -/
theorem lagrange_partition (knots : List ℚ) (hn : knots.Nodup) (hne : knots ≠ []) (x : ℚ) :
    ((List.range knots.length).map fun i => lagrange knots i x).sum = 1 := by
  have h := poly_reproduction knots hn 1 (by
    rw [degree_one]
    have : 0 < knots.length := List.length_pos_iff.2 hne
    exact_mod_cast this) x
  simpa using h

/-- the exact linear solve of the model returns a solution of the system whenever it returns anything -/
theorem gaussSolve_sound (B : Mat) (v α : Vec) (h : gaussSolve B v = some α) :
    α.length = v.length ∧ mulVec B α = v :=
  SparseSpace.Hier.gaussSolve_sound B v α h

example : gaussSolve [[1,0,0],[1/2,1,1/2],[0,0,1]] [1,2,5] = some [1,-1,5] := by
  norm_num [gaussSolve, gauss, pickFirst, dot]

/-- **hierarchisation followed by interpolation is the identity at every grid node**, for every number of
dimensions, every family of 1-D basis functions and points, every table: whenever the dimension-by-dimension pole
solves of `HierarchizationLSG` go through, the tensor-product interpolant built from the surpluses takes the
original value at the node with multi-index `p`. -/
theorem hierarchise_interpolate_id (dims : List Dim1) (hw : WellFormed dims) (T S : Vec)
    (hT : T.length = size dims) (h : hier gaussSolve dims T = some S) (p : List Nat) (hp : validIdx dims p) :
    T[flatIdx dims p]? = some (interp dims (nodeCoords dims p) S) :=
  hier_interp_node gaussSolve SparseSpace.Hier.gaussSolve_sound dims hw T S hT h p hp

/-- the same for ANY solver that returns solutions (dense solve, QR + triangular solve, …) -/
theorem hierarchise_interpolate_id_solver (solver : Mat → Vec → Option Vec) (hs : SolverSound solver)
    (dims : List Dim1) (hw : WellFormed dims) (T S : Vec)
    (hT : T.length = size dims) (h : hier solver dims T = some S) (p : List Nat) (hp : validIdx dims p) :
    T[flatIdx dims p]? = some (interp dims (nodeCoords dims p) S) :=
  hier_interp_node solver hs dims hw T S hT h p hp

/-- vector-valued tables: every component is reproduced -/
theorem hierarchise_interpolate_id_table (dims : List Dim1) (hw : WellFormed dims) (tab surp : List Vec)
    (hT : ∀ T ∈ tab, T.length = size dims) (h : hierTable gaussSolve dims tab = some surp) :
    surp.length = tab.length ∧
    ∀ c (hc : c < tab.length) (hc' : c < surp.length) (p : List Nat), validIdx dims p →
      (tab[c])[flatIdx dims p]? = some (interp dims (nodeCoords dims p) surp[c]) := by
  obtain ⟨hl, he⟩ := mapOpt_some _ _ _ h
  refine ⟨hl, ?_⟩
  intro c hc hc' p hp
  exact hierarchise_interpolate_id dims hw _ _ (hT _ (List.getElem_mem hc)) (he c hc hc') p hp

/-- non-vacuity: a 3 × 2 grid (hierarchical hat/quadratic functions × linear functions) -/
def exD3 : Dim1 := { basis := [lagrangeR [0,1] 0, lagrangeR [0,1/2,1] 1, lagrangeR [0,1] 1], xs := [0,1/2,1] }
def exD2 : Dim1 := { basis := [lagrangeR [0,1] 0, lagrangeR [0,1] 1], xs := [0,1] }
example : WellFormed [exD3, exD2] := by intro D hD; simp at hD; rcases hD with rfl | rfl <;> rfl
example : validIdx [exD3, exD2] [1, 1] := by simp [validIdx, exD3, exD2, Dim1.n]
example : colloc exD3 = [[1,0,0],[1/2,1,1/2],[0,0,1]] := by
  norm_num [colloc, exD3, lagrangeR, inSupport, Hier.support, lagrange, lagFactor, prodExcept, prodAll]

example : colloc exD2 = [[1,0],[0,1]] := by
  norm_num [colloc, exD2, lagrangeR, inSupport, Hier.support, lagrange, lagFactor, prodExcept, prodAll]

/-- the hierarchisation of the 2-point grid goes through (so the hypothesis `hier … = some S` is satisfiable) -/
example : hier gaussSolve [exD2] [1, 3] = some [1, 3] := by
  have hc : colloc exD2 = [[1,0],[0,1]] := by
    norm_num [colloc, exD2, lagrangeR, inSupport, Hier.support, lagrange, lagFactor, prodExcept, prodAll]
  have hn : exD2.n = 2 := rfl
  have hp : poleSolve gaussSolve exD2 [1, 3] = some [1, 3] := by
    unfold poleSolve
    rw [hc]
    norm_num [hn, gaussSolve, gauss, pickFirst, dot]
  simp [hier, size, hn, splitChunks, tr, mapOpt, hp, List.range, List.range.loop]

/-- **unique solvability** of a pole system whose collocation matrix is level-triangular (unit diagonal; a basis
function vanishes at every other point that is not on a strictly higher level than its own) — the structure of the
hierarchical (restricted Lagrange, hat) bases; the harness checks it on every collocation matrix of the Lagrange grids -/
theorem unitriangular_unique (B : Mat) (lev : List Nat) (hB : LevelTriangular B lev) (α β : Vec)
    (hα : α.length = lev.length) (hβ : β.length = lev.length) (h : mulVec B α = mulVec B β) : α = β :=
  levelTriangular_injective B lev hB α β hα hβ h

example : LevelTriangular [[1,0,0],[1/2,1,1/2],[0,0,1]] [0,1,0] := by
  refine ⟨rfl, ?_, ?_⟩
  · intro r hr
    simp only [List.mem_cons, List.not_mem_nil, or_false] at hr
    rcases hr with rfl | rfl | rfl <;> rfl
  · intro i j hi hj
    simp only [List.length_cons, List.length_nil] at hi hj
    interval_cases i <;> interval_cases j <;> simp

/-- the surpluses are THE solution: any surplus array with the same nodal values equals the computed one, when
the 1-D pole systems are uniquely solvable -/
theorem hierarchise_surpluses_unique (dims : List Dim1) (hw : WellFormed dims) (hinj : ∀ D ∈ dims, Inj1 D)
    (T S S' : Vec) (hT : T.length = size dims) (h : hier gaussSolve dims T = some S) (hS' : S'.length = size dims)
    (hnod : ∀ p, validIdx dims p → T[flatIdx dims p]? = some (interp dims (nodeCoords dims p) S')) : S' = S := by
  apply nodal_injective dims hw hinj S' S hS' (hier_length gaussSolve SparseSpace.Hier.gaussSolve_sound dims T S hT h)
  intro p hp
  have h1 := hierarchise_interpolate_id dims hw T S hT h p hp
  have h2 := hnod p hp
  rw [h1] at h2
  exact (Option.some.inj h2).symm

/-- **reproduction of the span, everywhere**: if the table consists of the nodal values of a function
`y ↦ interp dims y β` of the tensor-product space (e.g. a polynomial of the degree the basis contains), the
interpolant built from the computed surpluses equals that function at EVERY point `y`, not only at the nodes -/
theorem hier_reproduces_span (dims : List Dim1) (hw : WellFormed dims) (hinj : ∀ D ∈ dims, Inj1 D)
    (T S β : Vec) (hT : T.length = size dims) (h : hier gaussSolve dims T = some S) (hβ : β.length = size dims)
    (hnod : ∀ p, validIdx dims p → T[flatIdx dims p]? = some (interp dims (nodeCoords dims p) β)) (y : List ℚ) :
    interp dims y S = interp dims y β := by
  rw [hierarchise_surpluses_unique dims hw hinj T S β hT h hβ hnod]

/-- a level-triangular collocation matrix makes the dimension uniquely solvable -/
theorem inj1_of_levelTriangular (D : Dim1) (lev : List Nat) (hl : lev.length = D.n)
    (hB : LevelTriangular (colloc D) lev) : Inj1 D := by
  intro α β hα hβ h
  exact levelTriangular_injective (colloc D) lev hB α β (by rw [hl]; exact hα) (by rw [hl]; exact hβ) h

/-! ## Extension: the solvability hypothesis is discharged for the hierarchical Lagrange grids

`RTree` is the inductive characterisation of the valid 1-D point sets (end points of level 0; every further point is the
midpoint of an interval between two already present neighbouring points and gets the level of that interval + 1);
`RTree.grid p t a b` attaches to every point the knots the code selects (end points + ancestors + the point itself,
`p+1` window) — validated on every run to coincide with the flat `hierKnots` (= `compute_1D_quad_weights`) and with the
basis objects of the real grids. -/

/-- **`collocation_unitriangular`**: for every order `p ≥ 1`, every refinement tree and every interval the
collocation matrix of the hierarchical restricted Lagrange basis has unit diagonal, and entry `(i,j)` vanishes whenever
point `i` is not on a strictly higher level than point `j` (a basis function vanishes at every other point of its own
and of all coarser levels: such a point is a knot of its window or lies outside its support) -/
theorem collocation_unitriangular (p : Nat) (hp : 1 ≤ p) (t : RTree) (a b : ℚ) (hab : a < b) :
    LevelTriangular (colloc (t.dim1 p a b)) ((t.grid p a b).map HNode.lev) :=
  levelTriangular_of_gridOK _ (grid_ok p hp t a b hab)

/-- `gaussSolve` never meets a zero pivot column on an injective square system -/
theorem gaussSolve_complete (B : Mat) (v : Vec) (hB : B.length = v.length) (hrows : ∀ r ∈ B, r.length = v.length)
    (hinj : ∀ α β : Vec, α.length = v.length → β.length = v.length → mulVec B α = mulVec B β → α = β) :
    ∃ α, gaussSolve B v = some α :=
  SparseSpace.Hier.gaussSolve_complete B v hB hrows hinj

/-- the dimensions of a hierarchical Lagrange grid of order `p`: one tree and one interval per dimension -/
def lagDims (p : Nat) (specs : List (RTree × ℚ × ℚ)) : List Dim1 :=
  specs.map fun s => s.1.dim1 p s.2.1 s.2.2

theorem lagDims_facts (p : Nat) (hp : 1 ≤ p) (specs : List (RTree × ℚ × ℚ)) (hspec : ∀ s ∈ specs, s.2.1 < s.2.2) :
    WellFormed (lagDims p specs) ∧ (∀ D ∈ lagDims p specs, Inj1 D) ∧ PolesSolvable gaussSolve (lagDims p specs) := by
  refine ⟨?_, ?_, ?_⟩
  · intro D hD
    simp only [lagDims, List.mem_map] at hD
    obtain ⟨s, _, rfl⟩ := hD
    simp [RTree.dim1]
  · intro D hD
    simp only [lagDims, List.mem_map] at hD
    obtain ⟨s, hs, rfl⟩ := hD
    exact inj1_of_levelTriangular _ _ (by simp [RTree.dim1, Dim1.n])
      (collocation_unitriangular p hp s.1 s.2.1 s.2.2 (hspec s hs))
  · intro D hD v hv
    simp only [lagDims, List.mem_map] at hD
    obtain ⟨s, hs, rfl⟩ := hD
    exact poleSolve_of_levelTriangular _ _ (by simp [RTree.dim1, Dim1.n])
      (collocation_unitriangular p hp s.1 s.2.1 s.2.2 (hspec s hs)) v hv

/-- **`hier_lagrange_solvable`**: for hierarchical Lagrange grids of every order `p ≥ 1`, every refinement tree in every
dimension and every table, WITHOUT any solvability hypothesis: the hierarchisation goes through, the interpolant takes
the table value at every node, and the surpluses are the only array with that property -/
theorem hier_lagrange_solvable (p : Nat) (hp : 1 ≤ p) (specs : List (RTree × ℚ × ℚ))
    (hspec : ∀ s ∈ specs, s.2.1 < s.2.2) (T : Vec) (hT : T.length = size (lagDims p specs)) :
    ∃ S, hier gaussSolve (lagDims p specs) T = some S ∧
      (∀ q, validIdx (lagDims p specs) q →
        T[flatIdx (lagDims p specs) q]? = some (interp (lagDims p specs) (nodeCoords (lagDims p specs) q) S)) ∧
      (∀ S' : Vec, S'.length = size (lagDims p specs) →
        (∀ q, validIdx (lagDims p specs) q →
          T[flatIdx (lagDims p specs) q]? = some (interp (lagDims p specs) (nodeCoords (lagDims p specs) q) S')) → S' = S) := by
  obtain ⟨hw, hinj, hok⟩ := lagDims_facts p hp specs hspec
  obtain ⟨S, hS⟩ := hier_succeeds gaussSolve (lagDims p specs) hok T hT
  exact ⟨S, hS, fun q hq => hierarchise_interpolate_id _ hw T S hT hS q hq,
    fun S' hS' hnod => hierarchise_surpluses_unique _ hw hinj T S S' hT hS hS' hnod⟩

/-- vector-valued tables: the whole table is hierarchised -/
theorem hier_lagrange_solvable_table (p : Nat) (hp : 1 ≤ p) (specs : List (RTree × ℚ × ℚ))
    (hspec : ∀ s ∈ specs, s.2.1 < s.2.2) (tab : List Vec) (hT : ∀ T ∈ tab, T.length = size (lagDims p specs)) :
    ∃ surp, hierTable gaussSolve (lagDims p specs) tab = some surp := by
  obtain ⟨_, _, hok⟩ := lagDims_facts p hp specs hspec
  exact mapOpt_exists _ _ (fun T hTm => hier_succeeds gaussSolve (lagDims p specs) hok T (hT T hTm))

/-- non-vacuity: a graded tree (points 0, 1/4, 1/2, 1 with levels 0,2,1,0) times a one-interval grid, order 3 -/
example : ∃ S, hier gaussSolve (lagDims 3 [(RTree.node (RTree.node .leaf .leaf) .leaf, 0, 1), (RTree.leaf, -1, 2)])
    [1, 2, 3, 4, 5, 6, 7, 8] = some S := by
  obtain ⟨S, hS, _⟩ := hier_lagrange_solvable 3 (by omega)
    [(RTree.node (RTree.node .leaf .leaf) .leaf, 0, 1), (RTree.leaf, -1, 2)]
    (by intro s hs; simp at hs; rcases hs with rfl | rfl <;> norm_num) [1, 2, 3, 4, 5, 6, 7, 8]
    (by simp [lagDims, size, RTree.dim1, RTree.grid, RTree.nodes, Dim1.n])
  exact ⟨S, hS⟩

end SparseSpace.C10
