import SparseSpace.Model.AnalyticInt
/-!
# Model of the transcendental built-in test functions of `sparseSpACE/Function.py` and their analytic integrals

No Mathlib import, executable.  Every definition mirrors the Python method named in its docstring and is written ONCE
over a carrier `α` with the core arithmetic classes, a decidable `<` and the small class `NumOps α` (exp, cos, sin,
arctan, real power, π): the term the theorems talk about (`α := ℝ`, Lemmas/FuncCacheTrans*, Properties/C12) is the
term the driver executes (`α := Float`, Drive/C12, op `anaT` / `evlT`).

`x >= b` is modelled as `¬ x < b`, `c != 0` as `c < 0 ∨ 0 < c` (equivalent on ℝ and on non-NaN floats).
The signed corner enumeration `for c in combinations: result += (-1)**sum(c) * T(partial_result)` of GenzOszillatory
and GenzCornerPeak is `cornerSum` (the same 2^n terms, summed dimension by dimension instead of in meshgrid order).
-/
namespace SparseSpace.AnalyticTrans
open SparseSpace.AnalyticInt

/-- the transcendental operations the formulas use (`math` / `numpy`) -/
class NumOps (α : Type) where
  exp : α → α
  cos : α → α
  sin : α → α
  arctan : α → α
  /-- `x ** y` with a float exponent -/
  rpow : α → α → α
  pi : α

section
variable {α : Type} [Add α] [Sub α] [Mul α] [Div α] [Neg α] [NatCast α] [HPow α Nat α] [LT α] [DecidableLT α]
  [NumOps α]
open NumOps

/-- `result = r; for t in ts: result /= t` -/
def divLoop (r : α) (ts : List α) : α := ts.foldl (· / ·) r

/-- `result = r; for t in ts: result -= t` -/
def subLoop (r : α) (ts : List α) : α := ts.foldl (· - ·) r

/-- `abs(x)` -/
def absN (x : α) : α := if x < ((0 : Nat) : α) then -x else x

/-- `(-1) ** k` -/
def negOnePow (k : Nat) : α := if k % 2 = 0 then ((1 : Nat) : α) else -((1 : Nat) : α)

/-- `c != 0` -/
def nonzero (c : α) : Bool := decide (c < ((0 : Nat) : α)) || decide (((0 : Nat) : α) < c)

/-! ### GenzProductPeak (lines 681-706) -/

/-- `self.factor = 10 ** (-self.dim)` -/
def ppFactor (n : Nat) : α := ((1 : Nat) : α) / ((10 : Nat) : α) ^ n

/-- `eval`: `result = self.factor; for d: result /= (coeffs[d] ** (-2) + (coordinates[d] - midPoint[d]) ** 2)` -/
def evalProductPeak (c m x : List α) : α :=
  divLoop (ppFactor c.length)
    (List.zipWith (fun (cm : α × α) x => ((1 : Nat) : α) / cm.1 ^ 2 + (x - cm.2) ^ 2) (List.zip c m) x)

/-- `getAnalyticSolutionIntegral`: `result = 1; for d: result *= arctan(c*(m - start))*c - arctan(c*(m - end))*c;
return result * self.factor` -/
def anaProductPeak (c m s e : List α) : α :=
  mulLoop ((1 : Nat) : α)
    (List.zipWith (fun (cm : α × α) (se : α × α) =>
        arctan (cm.1 * (cm.2 - se.1)) * cm.1 - arctan (cm.1 * (cm.2 - se.2)) * cm.1) (List.zip c m) (List.zip s e))
    * ppFactor c.length

/-! ### GenzC0 (lines 810-847) -/

/-- `eval`: `result = 0; for d: result -= coeffs[d] * abs(coordinates[d] - midPoint[d]); return np.exp(result)` -/
def evalC0 (c m x : List α) : α :=
  exp (subLoop ((0 : Nat) : α) (List.zipWith (fun (cm : α × α) x => cm.1 * absN (x - cm.2)) (List.zip c m) x))

/-- the body of the loop of `GenzC0.getAnalyticSolutionIntegral` for one dimension (`one_d_integral`) -/
def c0Dim (c m s e : α) : α :=
  let one0 : α := ((0 : Nat) : α)
  let one1 : α :=
    if s < m then
      (if e < m then one0 + (exp (c * (e - m)) / c - exp (c * (s - m)) / c)
       else one0 + (((1 : Nat) : α) / c - exp (c * (s - m)) / c))
    else one0
  if m < e then
    (if m < s then one1 + (exp (c * (m - s)) / c - exp (c * (m - e)) / c)
     else one1 + (((1 : Nat) : α) / c - exp (c * (m - e)) / c))
  else one1

/-- `getAnalyticSolutionIntegral`: `result = 1; for d: ...; result *= one_d_integral` -/
def anaC0 (c m s e : List α) : α :=
  mulLoop ((1 : Nat) : α)
    (List.zipWith (fun (cm : α × α) (se : α × α) => c0Dim cm.1 cm.2 se.1 se.2) (List.zip c m) (List.zip s e))

/-! ### GenzDiscontinious / GenzDiscontinious2 (lines 751-808) -/

/-- `eval`: `result = 0; for d: if coordinates[d] >= border[d]: return 0.0; result -= coeffs[d]*coordinates[d];
return np.exp(result)` -/
def evalDiscGo (acc : α) : List ((α × α) × α) → α
  | [] => exp acc
  | ((c, b), x) :: r => if x < b then evalDiscGo (acc - c * x) r else ((0 : Nat) : α)

def evalDisc (c b x : List α) : α := evalDiscGo ((0 : Nat) : α) (List.zip (List.zip c b) x)

/-- `getAnalyticSolutionIntegral`: `result = 1; for d: if start[d] >= border[d]: return 0.0 else:
end[d] = min(end[d], border[d]); result *= (exp(-c*start) - exp(-c*end)) / c` -/
def anaDiscGo (result : α) : List ((α × α) × (α × α)) → α
  | [] => result
  | ((c, b), (s, e)) :: r =>
    if s < b then
      let e' : α := if e < b then e else b
      anaDiscGo (result * ((exp (-c * s) - exp (-c * e')) / c)) r
    else ((0 : Nat) : α)

def anaDisc (c b s e : List α) : α := anaDiscGo ((1 : Nat) : α) (List.zip (List.zip c b) (List.zip s e))

/-- `GenzDiscontinious2`: both components are the value of `GenzDiscontinious` -/
def evalDisc2 (c b x : List α) : List α := [evalDisc c b x, evalDisc c b x]
def anaDisc2 (c b s e : List α) : List α := [anaDisc c b s e, anaDisc c b s e]

/-! ### FunctionExpVar (lines 886-907) -/

/-- `eval`: `dim = len(coordinates); prod = 1.0; for d: prod *= coordinates[d] ** (1.0/dim);
return (1 + 1.0/dim) ** dim * prod` -/
def evalExpVar (x : List α) : α :=
  let dim := x.length
  let r : α := ((1 : Nat) : α) / ((dim : Nat) : α)
  (((1 : Nat) : α) + r) ^ dim * mulLoop ((1 : Nat) : α) (x.map (fun x => rpow x r))

/-- `getAnalyticSolutionIntegral`: `result *= end[d]**(1+1.0/dim)/(1+1.0/dim) - start[d]**(1+1.0/dim)/(1+1.0/dim);
return (1 + 1.0/dim) ** dim * result` -/
def anaExpVar (s e : List α) : α :=
  let dim := s.length
  let q : α := ((1 : Nat) : α) + ((1 : Nat) : α) / ((dim : Nat) : α)
  q ^ dim * mulLoop ((1 : Nat) : α) (List.zipWith (fun s e => rpow e q / q - rpow s q / q) s e)

/-! ### signed corner sums (GenzOszillatory, GenzCornerPeak) -/

/-- `Σ_{corner} (-1)^(number of start coordinates) * T(φ + Σ_d value_d * coeffs[d])` over the dimensions `(c, s, e)`:
`partial_result = φ; for d: partial_result += value * coeffs[d]` with `value = start[d]` (sign −) or `end[d]` (sign +) -/
def cornerSum (T : α → α) : List (α × α × α) → α → α
  | [], φ => T φ
  | (c, s, e) :: r, φ => cornerSum T r (φ + e * c) - cornerSum T r (φ + s * c)

/-! ### GenzOszillatory (lines 709-755, with the lead's fix of the all-zero case) -/

/-- `eval`: `result = 2*math.pi*self.offset; for d: result += coeffs[d]*coordinates[d]; return math.cos(result)` -/
def evalOsz (c : List α) (o : α) (x : List α) : α :=
  cos (addLoop (((2 : Nat) : α) * pi * o) (List.zipWith (fun c x => c * x) c x))

/-- `getAnalyticSolutionIntegral` -/
def anaOsz (c : List α) (o : α) (s e : List α) : α :=
  let dims := List.zip c (List.zip s e)
  let nz := dims.filter (fun d => nonzero d.1)
  let z := dims.filter (fun d => !nonzero d.1)
  let fz : α := mulLoop ((1 : Nat) : α) (z.map (fun d => d.2.2 - d.2.1))
  let n := nz.length
  let factor : α := negOnePow (n / 2) * ((1 : Nat) : α) / mulLoop ((1 : Nat) : α) (nz.map (·.1))
  if n = 0 then cos (((2 : Nat) : α) * pi * o) * fz
  else
    factor * cornerSum (if n % 2 = 1 then sin else cos) nz (((2 : Nat) : α) * pi * o) * fz

/-! ### GenzCornerPeak (lines 647-678) -/

def factorial : Nat → Nat
  | 0 => 1
  | n + 1 => (n + 1) * factorial n

/-- `eval`: `result = 1; for d: result += coeffs[d]*coordinates[d]; return result ** (-self.dim - 1)` -/
def evalCornerPeak (c x : List α) : α :=
  ((1 : Nat) : α) / (addLoop ((1 : Nat) : α) (List.zipWith (fun c x => c * x) c x)) ^ (c.length + 1)

/-- `getAnalyticSolutionIntegral`: `factor = ((-1)**dim) * 1.0 / (math.factorial(dim) * np.prod(coeffs));
result = Σ_corners (-1)**sum(c) * partial_result ** -1` with `partial_result = 1 + Σ value*coeffs[d]` -/
def anaCornerPeak (c s e : List α) : α :=
  let n := c.length
  let factor : α := negOnePow n * ((1 : Nat) : α) / (((factorial n : Nat) : α) * mulLoop ((1 : Nat) : α) c)
  factor * cornerSum (fun u => ((1 : Nat) : α) / u) (List.zip c (List.zip s e)) ((1 : Nat) : α)

end

end SparseSpace.AnalyticTrans
