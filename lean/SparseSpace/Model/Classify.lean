/-!
# Model of `sparseSpACE/DEMachineLearning.py`, class `Classification` (property C19)

Import-free, executable.  The learned per-class densities (the combination objects in
`Classification._classificators`) are NOT modelled: they are an oracle parameter
`dens : class index → position (in the learning scaling) → Rat`.  Everything else the property talks
about is mirrored AS CODED:

* `_initialize`: set-aside of unlabelled samples, the scaling fixed at learning time (either fitted by
  `MinMaxScaler(feature_range=(0.005, 0.995))` or derived from a user `data_range`), the scaling of the
  omitted samples, shuffle / `move_boundaries_to_front` (the permutation and the iteration order of the
  Python `set` of boundary rows are inputs), even / uneven split with Python's `round` (half to even);
* `_internal_scaling`: later data are mapped with the STORED `_data_range[0]` / `_scale_factor`
  (`shift_value`, `scale_factor`, `shift_value(0.005)`), never refitted; a data set that the caller has
  already scaled is accepted unchanged iff `DataSet.same_scaling` holds (range and factor) AND its original
  minimum equals the one of the learning data; it is refused otherwise; samples with a coordinate `< 0.0049` or `> 0.9951` are removed;
* `_classificate`: `np.argmax(axis=1)` = first maximum; rows are appended to `_densities_testset`;
* `__call__`, `test_data`, `evaluate`, `_evaluate`, `_process_performed_classification`; `test_data` appends the
  set-aside samples to `_omitted_data` and the tested ones to `_testing_data` BEFORE it classifies (so a call that
  raises inside `_classificate` has already extended `_omitted_data`) and appends the classes to
  `_calculated_classes_testset`.

Not modelled (the harness does not generate it): data sets scaled beforehand by other means than one `scale_range` (e.g. a
`DataSet` object this `Classification` has already scaled in place); `continue_dimension_wise_refinement`; printing
and plotting; numpy broadcasting of samples of a wrong dimension other than the refusal.

Numbers are exact rationals: `0.005 = 1/200`, `0.995 = 199/200`, `0.99 = 99/100`, `0.0049 = 49/10000`,
`0.9951 = 9951/10000`; labels are `Int` (`-1` = unlabelled); returned classes are the LABELS
`_learning_data.get_labels()[np.argmax(row)]` (`Int`).
-/
namespace SparseSpace.Classify

abbrev Pt := List Rat

/-- one row of a `DataSet`: sample and label (`-1` = unknown) -/
structure Sample where
  pt : Pt
  label : Int
deriving DecidableEq, Repr

abbrev Data := List Sample

/-- per dimension: `_data_range[0][d]`, `_data_range[1][d]`, `_scale_factor[d]` -/
structure Axis where
  lo : Rat
  hi : Rat
  f : Rat
deriving DecidableEq, Repr

abbrev Scaling := List Axis

def loTarget : Rat := 1/200
def hiTarget : Rat := 199/200
/-- `0.99` in `_scale_factor = 0.99 / (data_range[1] - data_range[0])` and `0.995 - 0.005` in the scaler -/
def targetWidth : Rat := 99/100
def thrLo : Rat := 49/10000
def thrHi : Rat := 9951/10000

/-- `shift_value(-lo); scale_factor(f); shift_value(0.005)` on one coordinate (`_internal_scaling`) -/
def scaleCoord (a : Axis) (x : Rat) : Rat := (x - a.lo) * a.f + loTarget

/-- `MinMaxScaler.transform`: `X * scale_ + min_` with `min_ = 0.005 - data_min_ * scale_` (`scale_range`) -/
def sklCoord (a : Axis) (x : Rat) : Rat := x * a.f + (loTarget - a.lo * a.f)

/-- a sample in the learning scaling (numpy broadcasting of equal-length vectors) -/
def scalePt (sc : Scaling) (x : Pt) : Pt := List.zipWith scaleCoord sc x

def sklPt (sc : Scaling) (x : Pt) : Pt := List.zipWith sklCoord sc x

def rmin (a b : Rat) : Rat := if b < a then b else a
def rmax (a b : Rat) : Rat := if a < b then b else a

/-- `np.amin(data, axis=0)` (the caller guarantees a non-empty data set) -/
def colMin : List Pt → List Rat
  | [] => []
  | p :: ps => ps.foldl (fun m q => List.zipWith rmin m q) p

def colMax : List Pt → List Rat
  | [] => []
  | p :: ps => ps.foldl (fun m q => List.zipWith rmax m q) p

/-- `MinMaxScaler.fit`: `scale_ = 0.99 / _handle_zeros_in_scale(data_max_ - data_min_)` -/
def fitAxis (lo hi : Rat) : Axis := { lo, hi, f := targetWidth / (if hi - lo = 0 then 1 else hi - lo) }

/-- `_scale_factor = 0.99 / (data_range[1] - data_range[0])` -/
def givenAxis (lo hi : Rat) : Axis := { lo, hi, f := targetWidth / (hi - lo) }

def fitScaling (pts : List Pt) : Scaling := List.zipWith fitAxis (colMin pts) (colMax pts)

/-- the removal test of `_internal_scaling`: `any(y < 0.0049) or any(y > 0.9951)` -/
def outOfRange (y : Pt) : Bool := y.any (fun v => decide (v < thrLo)) || y.any (fun v => decide (v > thrHi))

def keptOf (d : Data) : Data := d.filter (fun s => !outOfRange s.pt)
def removedOf (d : Data) : Data := d.filter (fun s => outOfRange s.pt)

/-- `split_without_labels` -/
def unlabelled (d : Data) : Data := d.filter (fun s => s.label == -1)
def labelled (d : Data) : Data := d.filter (fun s => decide (0 ≤ s.label))

inductive Err where
  | notPerformed        -- AttributeError "Classification needs to be performed on this object first."
  | emptyInput          -- ValueError "Can't classificate / test empty dataset."
  | dimMismatch         -- numpy broadcasting error in shift_value
  | scalingMismatch     -- ValueError "Provided DataSet's scaling doesn't match ..."
  | allOutOfBounds      -- ValueError "All given samples ... were out of bounds"
  | emptyClassify       -- IndexError / AxisError inside `_classificate` on an empty sample array
  | lengthMismatch      -- ValueError "Samples of testing DataSet and its calculated classes have to be the same amount."
  | nothingToEvaluate   -- ValueError "Nothing to evaluate; test dataset of this object is empty."
  | divZero             -- ZeroDivisionError in `_evaluate`
  | emptyLearning       -- ValueError "Can't perform classification learning on empty or classless DataSet."
  | invalidRange        -- ValueError "Invalid dataset range."
  | twice               -- ValueError "Can't perform classification for the same object twice."
  | badSplitInput       -- (model only) the supplied permutation / boundary index list is not what the code would use
deriving DecidableEq, Repr

/-- the state of a `Classification` object that the property talks about -/
structure State where
  sc : Scaling                  -- `_data_range`, `_scale_factor`
  fitted : Bool                 -- no `data_range` was given: `_scaled_data._scaling_range` is the float pair (0.005, 0.995)
  omitted : Data                -- `_omitted_data`
  learning : Data               -- `_learning_data`
  testing : Data                -- `_testing_data`
  classes : List Int            -- `_calculated_classes_testset` (labels)
  densities : List (List Rat)   -- `_densities_testset`
  performed : Bool              -- `_performed_classification`
  k : Nat                       -- `len(_classificators)`
deriving DecidableEq, Repr

/-- a `DataSet` handed to `__call__` / `test_data`; `pre = some (a, b)`: the caller has already applied
`scale_range((a, b))` to it (`is_scaled()` is true) -/
structure Input where
  data : Data
  pre : Option (Rat × Rat)
deriving DecidableEq, Repr

/-! ### a data set scaled beforehand by its owner -/

def preAxis (a b lo hi : Rat) : Axis := { lo, hi, f := (b - a) / (if hi - lo = 0 then 1 else hi - lo) }

/-- `scale_` of the caller's own `scale_range((a, b))` -/
def preFactor (a b : Rat) (d : Data) : List Rat :=
  (List.zipWith (preAxis a b) (colMin (d.map (·.pt))) (colMax (d.map (·.pt)))).map (·.f)

/-- the caller's own `scale_range((a, b))`: `x * scale_ + (a - min * scale_)` -/
def preScale (a b : Rat) (d : Data) : Data :=
  let axes := List.zipWith (preAxis a b) (colMin (d.map (·.pt))) (colMax (d.map (·.pt)))
  d.map fun s => { s with pt := List.zipWith (fun (ax : Axis) x => x * ax.f + (a - ax.lo * ax.f)) axes s.pt }

/-- `self._scaled_data.same_scaling(data)`: both scaled; the range entries must both be floats (only the
fitted case) and equal; the factors must agree entry by entry (`zip`); and (`_internal_scaling`)
`np.array_equal(_scaled_data.get_original_min(), data.get_original_min())`: same length, same entries. -/
def sameScaling (st : State) (a b : Rat) (d : Data) : Bool :=
  st.fitted && decide (a = loTarget) && decide (b = hiTarget) &&
    (List.zipWith (fun (x y : Rat) => decide (x = y)) (st.sc.map (·.f)) (preFactor a b d)).all id &&
    decide (st.sc.map (·.lo) = colMin (d.map (·.pt)))

/-- `_internal_scaling` up to (not including) the removal: the coordinates the samples are given -/
def internalPts (st : State) (inp : Input) : Except Err Data :=
  match inp.pre with
  | none =>
    if inp.data.any (fun s => s.pt.length != st.sc.length) then .error .dimMismatch
    else .ok (inp.data.map fun s => { s with pt := scalePt st.sc s.pt })
  | some (a, b) =>
    if sameScaling st a b inp.data then .ok (preScale a b inp.data) else .error .scalingMismatch

/-! ### arg-max -/

/-- scan of `np.argmax`: remaining entries, index of the next entry, best value so far, its index -/
def argmaxAux : List Rat → Nat → Rat → Nat → Nat
  | [], _, _, bi => bi
  | v :: vs, i, b, bi => if b < v then argmaxAux vs (i + 1) v i else argmaxAux vs (i + 1) b bi

/-- `np.argmax(row)`: index of the FIRST maximal entry (rows are never empty: one entry per classificator) -/
def argmaxFirst : List Rat → Nat
  | [] => 0
  | v :: vs => argmaxAux vs 1 v 0

/-- `[x(point) for x in self._classificators]` for one sample -/
def densRow (dens : Nat → Pt → Rat) (k : Nat) (p : Pt) : List Rat := (List.range k).map fun (c : Nat) => dens c p

def densRows (dens : Nat → Pt → Rat) (k : Nat) (d : Data) : List (List Rat) := d.map fun s => densRow dens k s.pt

/-- `set(labels)` of a data set with small non-negative labels: ascending, duplicate-free -/
def insertSorted (x : Int) : List Int → List Int
  | [] => [x]
  | y :: ys => if x < y then x :: y :: ys else if x = y then y :: ys else y :: insertSorted x ys

def labelSet (d : Data) : List Int := d.foldr (fun s acc => insertSorted s.label acc) []

/-- `labels[np.argmax(row)]` with `labels = np.array(_learning_data.get_labels())` (the order in which the
classificators were built); the index is below `len(labels)` whenever there is one classificator per label -/
def classOf (labels : List Int) (row : List Rat) : Int := labels.getD (argmaxFirst row) (-1)

/-! ### evaluation summary -/

structure Summary where
  wrong : Nat
  total : Nat
  pct : Rat
deriving DecidableEq, Repr

/-- `sum([0 if (x == y) else 1 for x, y in zip(labels, classes)])` -/
def mismatches : List Int → List Int → Nat
  | l :: ls, c :: cs => (if l = c then 0 else 1) + mismatches ls cs
  | _, _ => 0

/-- `_evaluate(testing_data, calculated_classes)` -/
def summarize (labels : List Int) (cls : List Int) : Except Err Summary :=
  if labels.length ≠ cls.length then .error .lengthMismatch
  else if cls.length = 0 then .error .divZero
  else .ok { wrong := mismatches labels cls, total := cls.length,
             pct := 1 - (mismatches labels cls : Rat) / (cls.length : Rat) }

/-! ### the public operations after learning -/

structure CallResult where
  evaluated : List (Pt × Int)   -- returned DataSet: scaled sample, class label
  removed : Data                -- removed (and, with `print_removed`, reported) samples, scaled
deriving DecidableEq, Repr

/-- `Classification.__call__(data_to_evaluate)` -/
def call (dens : Nat → Pt → Rat) (st : State) (inp : Input) : Except Err (State × CallResult) :=
  if !st.performed then .error .notPerformed
  else if inp.data.isEmpty then .error .emptyInput
  else match internalPts st inp with
    | .error e => .error e
    | .ok pts =>
      let kept := keptOf pts
      if kept.isEmpty then .error .allOutOfBounds
      else
        let rows := densRows dens st.k kept
        let dens1 := st.densities ++ rows                              -- `_classificate`: `_densities_testset += ...`
        let cls := rows.map (classOf (labelSet st.learning))
        let dens2 := dens1.take (dens1.length - kept.length)           -- `del _densities_testset[len - n:]`
        .ok ({ st with densities := dens2 },
             { evaluated := (kept.map (·.pt)).zip cls, removed := removedOf pts })

structure TestResult where
  used : List (Sample × Int)    -- tested samples (scaled, true label) with their class
  omitted : Data                -- unlabelled samples of this call (set aside)
  removed : Data
  summary : Summary
deriving DecidableEq, Repr

/-- the state a `test_data` call leaves behind when it RAISES: the concatenations precede `_classificate`, so if
scaling and removal went through and no labelled sample is left, the set-aside samples have already been appended to
`_omitted_data` (`_testing_data` / `_scaled_data` get nothing); every other exception leaves the object as it was -/
def testFailState (st : State) (inp : Input) : State :=
  if !st.performed || inp.data.isEmpty then st
  else match internalPts st inp with
    | .error _ => st
    | .ok pts =>
      if (keptOf pts).isEmpty then st
      else if (labelled (keptOf pts)).isEmpty then { st with omitted := st.omitted ++ unlabelled (keptOf pts) }
      else st

/-- `Classification.test_data(new_testing_data)`: set-aside samples are appended to `_omitted_data`, tested ones to
`_testing_data`, their classes to `_calculated_classes_testset`, their density rows to `_densities_testset`. -/
def test (dens : Nat → Pt → Rat) (st : State) (inp : Input) : Except Err (State × TestResult) :=
  if !st.performed then .error .notPerformed
  else if inp.data.isEmpty then .error .emptyInput
  else match internalPts st inp with
    | .error e => .error e
    | .ok pts =>
      let kept := keptOf pts
      if kept.isEmpty then .error .allOutOfBounds
      else
        let used := labelled kept
        if used.isEmpty then .error .emptyClassify
        else
          let rows := densRows dens st.k used
          let cls := rows.map (classOf (labelSet st.learning))
          match summarize (used.map (·.label)) cls with
          | .error e => .error e
          | .ok sm =>
            .ok ({ st with omitted := st.omitted ++ unlabelled kept, testing := st.testing ++ used,
                           densities := st.densities ++ rows, classes := st.classes ++ cls },
                 { used := used.zip cls, omitted := unlabelled kept, removed := removedOf pts, summary := sm })

/-- `Classification.evaluate()` -/
def evaluate (st : State) : Except Err Summary :=
  if !st.performed then .error .notPerformed
  else if st.testing.isEmpty then .error .nothingToEvaluate
  else if st.testing.length ≠ st.classes.length then .error .lengthMismatch
  else summarize (st.testing.map (·.label)) st.classes

/-! ### learning: `_initialize` and `_process_performed_classification` -/

/-- first stage of `_initialize`: set-aside of unlabelled samples, the learning scaling, the scaled
labelled data (after the out-of-range removal if a `data_range` was given) and the scaled omitted samples -/
def initScale (raw : Data) (range : Option (List Rat × List Rat)) : Except Err (Scaling × Bool × Data × Data) :=
  let om := unlabelled raw
  let used := labelled raw
  if used.isEmpty then .error .emptyLearning
  else match range with
    | some (los, his) =>
      if (List.zipWith (fun (h l : Rat) => decide (h ≤ l)) his los).any id then .error .invalidRange
      else
        let sc := List.zipWith givenAxis los his
        let scaled := used.map fun s => { s with pt := scalePt sc s.pt }
        .ok (sc, false, keptOf scaled, om.map fun s => { s with pt := scalePt sc s.pt })
    | none =>
      let sc := fitScaling (used.map (·.pt))
      .ok (sc, true, used.map fun s => { s with pt := sklPt sc s.pt }, om.map fun s => { s with pt := scalePt sc s.pt })

/-- `data[[i, x]] = data[[x, i]]` -/
def swapAt (d : Data) (i x : Nat) : Data :=
  match d[i]?, d[x]? with
  | some a, some b => (d.set i b).set x a
  | _, _ => d

/-- `move_boundaries_to_front` with the iteration order `idx` of the Python set of boundary rows -/
def moveFront (d : Data) (idx : List Nat) : Data :=
  (idx.zipIdx).foldl (fun acc (p : Nat × Nat) => swapAt acc p.2 p.1) d

/-- rows attaining the column minimum or maximum in some dimension -/
def isBoundaryRow (mins maxs : List Rat) (p : Pt) : Bool :=
  (List.zipWith (fun (x m : Rat) => decide (x = m)) p mins).any id ||
  (List.zipWith (fun (x m : Rat) => decide (x = m)) p maxs).any id

/-- Python's `round` of a non-negative rational: half to even -/
def roundHalfEven (q : Rat) : Nat :=
  let fl := q.floor
  let r := q - (fl : Rat)
  let n := if r < 1/2 then fl else if 1/2 < r then fl + 1 else if fl % 2 = 0 then fl else fl + 1
  n.toNat

/-- `split_pieces(percentage)` -/
def splitPieces (d : Data) (p : Rat) : Data × Data :=
  let p := if 0 ≤ p ∧ p < 1 then p else 1
  let c := roundHalfEven ((d.length : Rat) * p)
  (d.take c, d.drop c)

/-- second stage of `_initialize`: shuffle, boundary samples to the front, split -/
def initSplit (scaled : Data) (perm : Option (List Nat)) (idx : List Nat) (p : Rat) (even : Bool) :
    Except Err (Data × Data) :=
  let n := scaled.length
  let permOk := match perm with
    | none => true
    | some pm => pm.length == n && (List.range n).all (fun i => pm.contains i)
  if !permOk then .error .badSplitInput else
  let d1 := match perm with
    | none => scaled
    | some pm => pm.filterMap (fun i => scaled[i]?)
  let mins := colMin (d1.map (·.pt))
  let maxs := colMax (d1.map (·.pt))
  let idxOk := idx.all (fun i => decide (i < n)) &&
    (List.range n).all (fun i => idx.contains i == (match d1[i]? with | some s => isBoundaryRow mins maxs s.pt | none => false)) &&
    idx.eraseDups.length == idx.length
  if !idxOk then .error .badSplitInput else
  let d2 := moveFront d1 idx
  let p := if 0 < p ∧ p < 1 then p else 1         -- constructor: `split_percentage if 1 > split_percentage > 0 else 1.0`
  if even then
    let parts := (labelSet d2).map fun l => splitPieces (d2.filter (fun s => s.label == l)) p
    .ok ((parts.map (·.1)).flatten, (parts.map (·.2)).flatten)
  else .ok (splitPieces d2 p)

/-- `Classification.__init__` / `_initialize` -/
def initialise (raw : Data) (range : Option (List Rat × List Rat)) (perm : Option (List Nat)) (idx : List Nat)
    (p : Rat) (even : Bool) : Except Err State :=
  match initScale raw range with
  | .error e => .error e
  | .ok (sc, fitted, scaled, om) =>
    match initSplit scaled perm idx p even with
    | .error e => .error e
    | .ok (learn, tst) =>
      .ok { sc, fitted, omitted := om, learning := learn, testing := tst, classes := [], densities := [],
            performed := false, k := 0 }

/-- `perform_classification*` + `_process_performed_classification`: one classificator per label of the
learning data; the testing part is classified at once and OVERWRITES `_calculated_classes_testset` -/
def perform (dens : Nat → Pt → Rat) (st : State) : Except Err State :=
  if st.performed then .error .twice
  else
    let k := (labelSet st.learning).length
    if st.testing.isEmpty then .ok { st with performed := true, k := k }
    else
      let rows := densRows dens k st.testing
      .ok { st with performed := true, k := k, densities := st.densities ++ rows, classes := rows.map (classOf (labelSet st.learning)) }

/-! ### histories of later calls -/

inductive Op where
  | call (inp : Input)
  | test (inp : Input)
  | evaluate
deriving Repr

/-- one later call; an exception leaves the object as it was, except for `testFailState` -/
def step (dens : Nat → Pt → Rat) (st : State) : Op → State
  | .call inp => match call dens st inp with | .ok r => r.1 | .error _ => st
  | .test inp => match test dens st inp with | .ok r => r.1 | .error _ => testFailState st inp
  | .evaluate => st

def run (dens : Nat → Pt → Rat) (st : State) (ops : List Op) : State := ops.foldl (step dens) st

end SparseSpace.Classify
