/-!
# Model of the polynomial built-in test functions of `sparseSpACE/Function.py` and their analytic integrals

Import-free, executable.  Every definition mirrors the loop of the Python method named in its docstring and
is written ONCE over an arbitrary carrier `α` with the core arithmetic classes, so that the term the
theorems talk about (`α := ℝ`, Properties/C12) is the term the driver executes (`α := Rat`, Drive/C12).
`coordinates[d]`, `start[d]`, `end[d]` for `d in range(self.dim)` is a `zipWith` along the coefficient list
(the theorems require equal lengths; the code raises `IndexError` on shorter arguments).
Floating-point rounding is not modelled.
-/
namespace SparseSpace.AnalyticInt

section
variable {α : Type} [Add α] [Sub α] [Mul α] [Div α] [NatCast α] [HPow α Nat α]

/-- `result = r; for t in ts: result *= t` -/
def mulLoop (r : α) (ts : List α) : α := ts.foldl (· * ·) r

/-- `result = r; for t in ts: result += t` -/
def addLoop (r : α) (ts : List α) : α := ts.foldl (· + ·) r

/-- `ConstantValue.eval` (line 169) -/
def evalConst (v : α) (_x : List α) : α := v

/-- `ConstantValue.getAnalyticSolutionIntegral` (lines 172-178):
`integral = 1.0; for d: integral *= end[d] - start[d]; integral *= value` -/
def anaConst (v : α) (s e : List α) : α :=
  mulLoop ((1 : Nat) : α) (List.zipWith (fun s e => e - s) s e) * v

/-- `FunctionLinear.eval` (lines 447-451): `result = 1; for d: result *= coeffs[d] * coordinates[d]` -/
def evalLinear (c x : List α) : α :=
  mulLoop ((1 : Nat) : α) (List.zipWith (fun c x => c * x) c x)

/-- `FunctionLinear.eval_vectorized` (line 454): `np.prod(coordinates * self.coeffs, axis=-1)`, one row -/
def evalLinearVec (c x : List α) : α :=
  mulLoop ((1 : Nat) : α) (List.zipWith (fun x c => x * c) x c)

/-- `FunctionLinear.getAnalyticSolutionIntegral` (lines 460-464):
`result = 1.0; for d: result *= coeffs[d] * (end[d]**2/2 - start[d]**2/2)` -/
def anaLinear (c s e : List α) : α :=
  mulLoop ((1 : Nat) : α)
    (List.zipWith (fun c se => c * (se.2 ^ 2 / ((2 : Nat) : α) - se.1 ^ 2 / ((2 : Nat) : α))) c (List.zip s e))

/-- `FunctionPolynomial.eval` (lines 582-586): `result = 1; for d: result *= coeffs[d] * coordinates[d] ** degree` -/
def evalPolynomial (k : Nat) (c x : List α) : α :=
  mulLoop ((1 : Nat) : α) (List.zipWith (fun c x => c * x ^ k) c x)

/-- `FunctionPolynomial.getAnalyticSolutionIntegral` (lines 588-592):
`result *= coeffs[d] * (end[d]**(degree+1)/(degree+1) - start[d]**(degree+1)/(degree+1))` -/
def anaPolynomial (k : Nat) (c s e : List α) : α :=
  mulLoop ((1 : Nat) : α)
    (List.zipWith (fun c se => c * (se.2 ^ (k + 1) / ((k + 1 : Nat) : α) - se.1 ^ (k + 1) / ((k + 1 : Nat) : α)))
      c (List.zip s e))

/-- `FunctionMultilinear.eval` (lines 473-477): `result = 0.0; for d: result += coeffs[d] * coordinates[d]` -/
def evalMultilinear (c x : List α) : α :=
  addLoop ((0 : Nat) : α) (List.zipWith (fun c x => c * x) c x)

/-- `FunctionMultilinear.getAnalyticSolutionIntegral` AS CODED (lines 479-483):
`result = 0.0; for d: result += coeffs[d] * (end[d]**2/2 - start[d]**2/2)` — the volume of the other
dimensions is missing, see `C12.multilinear_code_wrong` -/
def anaMultilinear (c s e : List α) : α :=
  addLoop ((0 : Nat) : α)
    (List.zipWith (fun c se => c * (se.2 ^ 2 / ((2 : Nat) : α) - se.1 ^ 2 / ((2 : Nat) : α))) c (List.zip s e))

/-- the PROPOSED repair of `FunctionMultilinear.getAnalyticSolutionIntegral` (handoff/C12-fix-2.diff):
`result = 0.0; volume = 1.0; for d: result += coeffs[d] * (end[d] + start[d]) / 2; volume *= end[d] - start[d];
return result * volume` (volume times the value at the midpoint) -/
def anaMultilinearFixed (c s e : List α) : α :=
  addLoop ((0 : Nat) : α) (List.zipWith (fun c se => c * (se.2 + se.1) / ((2 : Nat) : α)) c (List.zip s e))
    * mulLoop ((1 : Nat) : α) (List.zipWith (fun s e => e - s) s e)

/-- is handoff/C12-fix-2.diff present in the modelled code?  `false`: the code AS IT IS today -/
def multilinearRepaired : Bool := true

/-- `FunctionMultilinear.getAnalyticSolutionIntegral` of the code under test (what the driver executes) -/
def anaMultilinearCurrent (c s e : List α) : α :=
  if multilinearRepaired then anaMultilinearFixed c s e else anaMultilinear c s e

/-- `value = 0; for i in range(len(cs)): value += cs[i] * x ** i` (shared by `Polynomial1d.eval`, lines 629-635,
and `Polynomial1d.eval_anti_derivative`, lines 637-643) -/
def polyLoop (cs : List α) (x : α) : α :=
  addLoop ((0 : Nat) : α) (cs.zipIdx.map (fun (p : α × Nat) => p.1 * x ^ p.2))

/-- `Polynomial1d.__init__` (lines 620-624): `anti[0] = 0.0; anti[i] = coefficients[i-1] * 1 / i` -/
def antiCoeffs (cs : List α) : List α :=
  ((0 : Nat) : α) :: cs.zipIdx.map (fun (p : α × Nat) => p.1 * ((1 : Nat) : α) / ((p.2 + 1 : Nat) : α))

/-- `Polynomial1d.eval(coordinates)` uses `coordinates[0]` -/
def evalPoly1d (cs : List α) (x : α) : α := polyLoop cs x

/-- `Polynomial1d.getAnalyticSolutionIntegral(start, end)` (line 627) with `start[0]`, `end[0]` -/
def anaPoly1d (cs : List α) (s e : α) : α := polyLoop (antiCoeffs cs) e - polyLoop (antiCoeffs cs) s

end

end SparseSpace.AnalyticInt
