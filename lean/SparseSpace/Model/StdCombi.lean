import SparseSpace.Model.Combi
import SparseSpace.Model.Interp
/-!
# Model of `sparseSpACE/StandardCombi.py` with `Integration` / `Interpolation` on a `TrapezoidalGrid`

`set_combi_parameters`, `perform_operation` (combined integral), `__call__` / `interpolate_grid` (combined
interpolant), `get_points_component_grid`, `get_num_points_component_grid`, `get_points_and_weights`,
`check_combi_scheme` (point-wise coefficient sums).  Import-free, executable.  A scheme is a list of
`(levelvector, coefficient)`; the standard one is `stdScheme dim lmin lmax` of `Model/Combi`.
-/
namespace SparseSpace

/-- `StandardCombi.__call__(points)` for one point and one output component:
`Σ interpolate_points(points, component_grid) * component_grid.coefficient` -/
def combiInterp (a b : List Rat) (bd : Flags) (c : List (LV × Int)) (f : List Rat → Rat) (x : List Rat) : Rat :=
  (c.map fun p => (p.2 : Rat) * interpN (meshAxes a b p.1 bd) (meshVal a b bd f) x).sum

/-- `StandardCombi.__call__(points)`; `none` = scipy's `ValueError` (some point outside `[a,b]`) -/
def combiCall? (a b : List Rat) (bd : Flags) (c : List (LV × Int)) (f : List Rat → Rat)
    (xs : List (List Rat)) : Option (List Rat) :=
  if c.all (fun p => xs.all (inBounds (meshAxes a b p.1 bd))) then some (xs.map (combiInterp a b bd c f)) else none

/-- `StandardCombi.interpolate_grid(grid_coordinates)` = `__call__` on the cross product -/
def combiInterpGrid? (a b : List Rat) (bd : Flags) (c : List (LV × Int)) (f : List Rat → Rat)
    (coords : List (List Rat)) : Option (List Rat) :=
  combiCall? a b bd c f (cross coords)

/-- `StandardCombi.perform_operation(lmin, lmax)` with `Integration`: `Σ grid.integrate(f, l, a, b) * coefficient` -/
def combiIntegral (a b : List Rat) (bd : Flags) (c : List (LV × Int)) (f : List Rat → Rat) : Rat :=
  (c.map fun p => (p.2 : Rat) * quadGrid a b p.1 bd f).sum

/-- `StandardCombi.get_points_and_weights()`: concatenated points, weights multiplied by the coefficient -/
def combiPointsWeights (a b : List Rat) (bd : Flags) (c : List (LV × Int)) : List (List Rat × Rat) :=
  c.flatMap fun p => List.zipWith (fun x w => (x, w * (p.2 : Rat))) (gridPoints a b p.1 bd) (gridWeights a b p.1 bd)

/-- the dictionary of `StandardCombi.check_combi_scheme` at one point: sum of the coefficients of the component
grids that contain `x` -/
def pointCoeffSum (a b : List Rat) (bd : Flags) (c : List (LV × Int)) (x : List Rat) : Int :=
  ((c.filter fun p => (gridPoints a b p.1 bd).contains x).map (·.2)).sum

/-- all points of all component grids (with repetitions) -/
def unionPoints (a b : List Rat) (bd : Flags) (c : List (LV × Int)) : List (List Rat) :=
  c.flatMap fun p => gridPoints a b p.1 bd

end SparseSpace
