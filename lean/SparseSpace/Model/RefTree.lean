/-!
# Model of the 1-D refinement structures of the dimension-wise strategy

Mirrors `RefinementObjectSingleDimension` (RefinementObject.py), `RefinementContainer` /
`MetaRefinementContainer` (RefinementContainer.py), the selection loop of `SpatiallyAdaptivBase.refine`
(spatiallyAdaptiveBase.py) and `initialize_refinement`, `rebalance`, `rebalance_interval`,
`update_coarsening_values` of `SpatiallyAdaptiveSingleDimensions2` (spatiallyAdaptiveSingleDimension2.py).

Import-free, executable.  Coordinates are `Rat`, point levels `Nat`, coarsening levels `Int` (the code lets
them become negative between `update_coarsening_values` and `update_values`).  In-place mutation is a
returned state, Python exceptions / failed `assert`s are `none`.  The float comparisons that decide a
rebalancing rotation are a PARAMETER `dec` of the model (`ratDec sf` is their exact-rational reading).
-/
namespace SparseSpace

/-- one `RefinementObjectSingleDimension`: `start`, `end`, `levels[0]`, `levels[1]`, `coarsening_level` -/
structure Ival where
  s : Rat
  e : Rat
  l0 : Nat
  l1 : Nat
  c : Int
deriving Repr, DecidableEq

/-! ## initialisation (`initialize_refinement`) -/

/-- `_initialize_levels(levels, i1, i2, level)`: the levels written to the indices strictly between `i1`
and `i2`, in index order (fuel = `i2 - i1` suffices, see `initLevels_fuel`) -/
def initLevels : Nat → Nat → Nat → Nat → List Nat
  | 0, _, _, _ => []
  | f+1, i1, i2, level =>
    if i1 + 1 ≥ i2 then [] else
    let i := (i1 + i2) / 2
    initLevels f i1 i (level + 1) ++ [level + 1] ++ initLevels f i i2 (level + 1)

/-- `_initialize_points(points, func_mid, d, i1, i2)` with `func_mid = (a + b) / 2`
(`GlobalGrid.get_mid_point`): the coordinates written strictly between `i1` and `i2` -/
def initPoints : Nat → Nat → Nat → Rat → Rat → List Rat
  | 0, _, _, _, _ => []
  | f+1, i1, i2, p1, p2 =>
    if i1 + 1 ≥ i2 then [] else
    let i := (i1 + i2) / 2
    let m := (p1 + p2) / 2
    initPoints f i1 i p1 m ++ [m] ++ initPoints f i i2 m p2

/-- `[RefinementObjectSingleDimension(points[i], points[i+1], …, (levels[i], levels[i+1]), coarsening_level=0)]` -/
def mkIvals : List Rat → List Nat → List Ival
  | p :: q :: ps, l :: m :: ls => ⟨p, q, l, m, 0⟩ :: mkIvals (q :: ps) (m :: ls)
  | _, _ => []

/-- the initial object list of one dimension: `2^maxv` intervals on `[a, b]` -/
def initObjs (maxv : Nat) (a b : Rat) : List Ival :=
  let n := 2 ^ maxv
  mkIvals ([a] ++ initPoints n 0 n a b ++ [b]) ([0] ++ initLevels n 0 n 0 ++ [0])

/-! ## split (`RefinementObjectSingleDimension.refine`) -/

/-- the two children of an interval: midpoint, child level `max(levels) + 1`, coarsening `max(c - 1, 0)`
in the code's form `0 if c == 0 else c - 1` -/
def Ival.split (x : Ival) : List Ival :=
  let cv : Int := if x.c == 0 then 0 else x.c - 1
  let mid : Rat := (x.s + x.e) / 2
  let nl := max x.l0 x.l1 + 1
  [⟨x.s, mid, x.l0, nl, cv⟩, ⟨mid, x.e, nl, x.l1, cv⟩]

/-! ## container and cursors (`RefinementContainer`) -/

/-- `refinementObjects`, `popArray`, `startNewObjects`, `searchPosition` -/
structure Cont where
  objs : List Ival
  pop : List Nat := []
  startNew : Nat := 0
  searchPos : Nat := 0
deriving Repr, DecidableEq

/-- `RefinementContainer.refine(object_id)`; an index out of range is Python's `IndexError` (`none`) -/
def Cont.refine (c : Cont) (i : Nat) : Option Cont :=
  match c.objs[i]? with
  | none => none
  | some x =>
    some { c with startNew := if c.startNew == 0 then c.objs.length else c.startNew,
                  objs := c.objs ++ x.split,
                  pop := c.pop ++ [i] }

/-- `for i in range(pos, pos + n): if objs[i].benefit >= tolerance: return i`.  `bens` is the list of the
`benefit` attributes of the objects that have one (new objects have `None`; they are never visited because
the scan ends at `startNewObjects`; a missing entry is skipped here) -/
def findFrom (bens : List Rat) (tol : Rat) : Nat → Nat → Option Nat
  | 0, _ => none
  | n+1, pos =>
    match bens[pos]? with
    | some b => if tol ≤ b then some pos else findFrom bens tol n (pos + 1)
    | none => findFrom bens tol n (pos + 1)

/-- `RefinementContainer.get_next_object_for_refinement(tolerance)` -/
def Cont.next (c : Cont) (bens : List Rat) (tol : Rat) : Cont × Option Nat :=
  let end_ := if c.startNew == 0 then c.objs.length else c.startNew
  match findFrom bens tol (end_ - c.searchPos) c.searchPos with
  | some i => ({ c with searchPos := i + 1 }, some i)
  | none => (c, none)

/-- `sorted(popArray)` reversed: insertion sort, descending -/
def insertDesc (x : Nat) : List Nat → List Nat
  | [] => [x]
  | y :: ys => if y ≤ x then x :: y :: ys else y :: insertDesc x ys

def sortDesc (l : List Nat) : List Nat := l.foldr insertDesc []

/-- stable insertion by `start` (`sorted(…, key=attrgetter('start'))` is stable) -/
def insertByStart (x : Ival) : List Ival → List Ival
  | [] => [x]
  | y :: ys => if x.s < y.s then x :: y :: ys else y :: insertByStart x ys

def sortByStart (l : List Ival) : List Ival := l.foldr insertByStart []

/-- `RefinementContainer.apply_remove(sort=True)` -/
def Cont.applyRemove (c : Cont) : Cont :=
  let ps := sortDesc c.pop
  { objs := sortByStart (ps.foldl (fun o p => o.eraseIdx p) c.objs),
    pop := [],
    startNew := ps.foldl (fun sn _ => if sn != 0 then sn - 1 else sn) c.startNew,
    searchPos := c.searchPos }

/-- `MetaRefinementContainer`: the containers and `curContainer` -/
structure Meta where
  conts : List Cont
  cur : Nat := 0
deriving Repr, DecidableEq

/-- `MetaRefinementContainer.get_next_object_for_refinement(tolerance)`; fuel `conts.length + 1` suffices -/
def Meta.next (bens : List (List Rat)) (tol : Rat) : Nat → Meta → Meta × Option (Nat × Nat)
  | 0, m => (m, none)
  | f+1, m =>
    if m.cur == m.conts.length then (m, none) else
    match m.conts[m.cur]? with
    | none => (m, none)
    | some c =>
      let r := c.next (bens.getD m.cur []) tol
      match r.2 with
      | some i => ({ m with conts := m.conts.set m.cur r.1 }, some (m.cur, i))
      | none =>
        let m' : Meta := { m with cur := m.cur + 1 }
        if m'.cur == m'.conts.length then (m', none) else Meta.next bens tol f m'

/-- `MetaRefinementContainer.refine(position)` -/
def Meta.refine (m : Meta) (pos : Nat × Nat) : Option Meta :=
  match m.conts[pos.1]? with
  | none => none
  | some c =>
    match c.refine pos.2 with
    | none => none
    | some c' => some { m with conts := m.conts.set pos.1 c' }

/-- the `while True` loop of `SpatiallyAdaptivBase.refine` (`do_refinement` never asks to quit): returns the
container state before post-processing and the positions refined, in order -/
def refineLoop (bens : List (List Rat)) (tol : Rat) : Nat → Meta → Option (Meta × List (Nat × Nat))
  | 0, _ => none
  | f+1, m =>
    let r := Meta.next bens tol (m.conts.length + 1) m
    match r.2 with
    | none => some (r.1, [])
    | some pos =>
      match r.1.refine pos with
      | none => none
      | some m' =>
        match refineLoop bens tol f m' with
        | none => none
        | some (m'', ps) => some (m'', pos :: ps)

/-- `get_max_benefit` of a container (`max_benefit = 0; if i.benefit > max_benefit: …`) -/
def maxBenefit1 (bens : List Rat) : Rat := bens.foldl (fun m x => if m < x then x else m) 0

/-- `MetaRefinementContainer.get_max_benefit` -/
def maxBenefit (bens : List (List Rat)) : Rat :=
  bens.foldl (fun m row => if m < maxBenefit1 row then maxBenefit1 row else m) 0

/-- `clear_new_objects` on every container -/
def Meta.clearNew (m : Meta) : Meta :=
  { m with conts := m.conts.map fun c => { c with startNew := c.objs.length } }

/-- `apply_remove(sort=True)`, `refinement_postprocessing()` (search positions), `reinit_new_objects()` -/
def Meta.post (m : Meta) : Meta :=
  { conts := m.conts.map fun c =>
      let c' := c.applyRemove
      { c' with searchPos := 0, startNew := 0 },
    cur := 0 }

/-- the selection-and-split part of one `refine()` call: total number of objects + 1 is enough fuel -/
def Meta.refineStep (m : Meta) (bens : List (List Rat)) (margin : Rat) : Option (Meta × List (Nat × Nat)) :=
  let tol := maxBenefit bens * margin
  let m1 := m.clearNew
  match refineLoop bens tol ((m1.conts.map (·.objs.length)).sum + 1) m1 with
  | none => none
  | some (m2, ps) => some (m2.post, ps)

/-! ## rebalancing (`rebalance`, `rebalance_interval`) -/

/-- what the first loop of `rebalance_interval` finds; `ok = false` is a failed `assert` -/
structure Scan where
  pl : Option Nat := none
  p1l : Option Nat := none
  p1r : Option Nat := none
  ok : Bool := true
deriving Repr, DecidableEq

/-- the first loop of `rebalance_interval` over `levels[1]` of the objects `start..end-1` -/
def scanLevels (level : Nat) : List Nat → Nat → Scan → Scan
  | [], _, r => r
  | x :: xs, i, r =>
    let r1 : Scan := if x == level then { r with pl := some i } else r
    let r2 : Scan :=
      if x == level + 1 then
        if r1.p1l.isNone && r1.pl.isNone then { r1 with p1l := some i }
        else if r1.pl.isSome then
          (if r1.p1r.isNone then { r1 with p1r := some i } else { r1 with ok := false })
        else { r1 with ok := false }
      else r1
    scanLevels level xs (i + 1) r2

/-- the level changes of the first rotation loop (right child of the root moves up), one entry per object
`j < end - start - 1`: `+1` for `j ≤ pl`, `-1` from the object whose `levels[1] == level + 1` on.
The loop reads `levels[1]` of object `j` before any write to it.  Returns the changes and
`position_new_leaf`; `none` = failed `assert j == position_level_1_right`. -/
def deltasR (level pl pr : Nat) : List Nat → Nat → Bool → Option (List Int × Option Nat)
  | [], _, _ => some ([], none)
  | x :: xs, j, nl =>
    if j ≤ pl then
      match deltasR level pl pr xs (j + 1) nl with
      | none => none
      | some (ds, p) => some (1 :: ds, p)
    else
      let hit := x == level + 1
      if hit && j != pr then none else
      let nl' := nl || hit
      match deltasR level pl pr xs (j + 1) nl' with
      | none => none
      | some (ds, p) => some ((if nl' then -1 else 0) :: ds, if hit then some j else p)

/-- the second rotation loop (left child of the root moves up): `+1` for `j ≥ pl`; before that `-1` while
`new_leaf_reached`, which is switched off at the object whose (already decremented) `levels[1] == level`.
`none` = failed `assert j == position_level_1_left`. -/
def deltasL (level pl p1l : Nat) : List Nat → Nat → Bool → Option (List Int × Option Nat)
  | [], _, _ => some ([], none)
  | x :: xs, j, nl =>
    if j ≥ pl then
      match deltasL level pl p1l xs (j + 1) nl with
      | none => none
      | some (ds, p) => some (1 :: ds, p)
    else
      let x' := if nl then x - 1 else x
      let hit := x' == level
      if hit && j != p1l then none else
      match deltasL level pl p1l xs (j + 1) (nl && !hit) with
      | none => none
      | some (ds, p) => some ((if nl then -1 else 0) :: ds, if hit then some j else p)

def addLevel (l : Nat) (d : Int) : Nat := ((l : Int) + d).toNat

/-- `refinement_object.levels[1] += δ; next_refinement_object.levels[0] += δ` for every object but the last:
`carry` is the change of the previous step, applied to `levels[0]` -/
def applyDeltas : List Int → Int → List Ival → List Ival
  | _, _, [] => []
  | [], carry, x :: xs => { x with l0 := addLevel x.l0 carry } :: xs
  | _ :: _, carry, [x] => [{ x with l0 := addLevel x.l0 carry }]
  | d :: ds, carry, x :: y :: xs =>
    { x with l0 := addLevel x.l0 carry, l1 := addLevel x.l1 d } :: applyDeltas ds d (y :: xs)

/-- one evaluated comparison `abs(p/(n-2) - 0.5) > abs(q/(n-2) - 0.5) + safety_factor` : `(p, q, n)` -/
abbrev Cmp := Nat × Nat × Nat

/-- the exact-rational reading of the comparison -/
def ratDec (sf : Rat) (p q n : Nat) : Bool :=
  let m : Rat := ((n : Int) - 2 : Int)
  decide ((if (p : Rat) / m - 1/2 < 0 then -((p : Rat) / m - 1/2) else (p : Rat) / m - 1/2)
    > (if (q : Rat) / m - 1/2 < 0 then -((q : Rat) / m - 1/2) else (q : Rat) / m - 1/2) + sf)

/-- `other is not None and abs(pl/(n-2) - 0.5) > abs(other/(n-2) - 0.5) + safety_factor` -/
def pickRot (dec : Nat → Nat → Nat → Bool) (pl : Nat) (other : Option Nat) (n : Nat) : Option Nat :=
  match other with
  | some q => if dec pl q n then some q else none
  | none => none

/-- the comparison evaluated for `pickRot` (none if `other is None`: Python's `and` short-circuits) -/
def cmpOf (pl : Nat) (other : Option Nat) (n : Nat) : List Cmp :=
  match other with
  | some q => [(pl, q, n)]
  | none => []

/-- `rebalance_interval(start, end, level, …)` on the object list `objs[start:end]` (the function touches
nothing else).  Returns the new segment and the comparisons evaluated, in order.  `none` = a failed
`assert`.  Fuel: the segment length suffices (`rebalSeg_spec`). -/
def rebalSeg (dec : Nat → Nat → Nat → Bool) : Nat → Nat → List Ival → Option (List Ival × List Cmp)
  | 0, _, seg => if seg.length ≤ 2 then some (seg, []) else none
  | f+1, level, seg =>
    let n := seg.length
    if n ≤ 2 then some (seg, []) else
    let lv1 := seg.map (·.l1)
    let r := scanLevels level lv1 0 {}
    if !r.ok then none else
    match r.pl with
    | none => none
    | some pl =>
      match pickRot dec pl r.p1r n with
      | some pr =>
        if !(pl < pr) then none else
        match deltasR level pl pr (lv1.take (n - 1)) 0 false with
        | none => none
        | some (_, none) => none
        | some (ds, some pnl) =>
          let seg' := applyDeltas ds 0 seg
          match rebalSeg dec f (level + 1) (seg'.take (pnl + 1)), rebalSeg dec f (level + 1) (seg'.drop (pnl + 1)) with
          | some (a, ta), some (b, tb) => some (a ++ b, cmpOf pl r.p1r n ++ ta ++ tb)
          | _, _ => none
      | none =>
        match pickRot dec pl r.p1l n with
        | some q =>
          if !(q < pl) then none else
          match deltasL level pl q (lv1.take (n - 1)) 0 true with
          | none => none
          | some (_, none) => none
          | some (ds, some pnl) =>
            let seg' := applyDeltas ds 0 seg
            match rebalSeg dec f (level + 1) (seg'.take (pnl + 1)), rebalSeg dec f (level + 1) (seg'.drop (pnl + 1)) with
            | some (a, ta), some (b, tb) => some (a ++ b, cmpOf pl r.p1r n ++ cmpOf pl r.p1l n ++ ta ++ tb)
            | _, _ => none
        | none =>
          match rebalSeg dec f (level + 1) (seg.take (pl + 1)), rebalSeg dec f (level + 1) (seg.drop (pl + 1)) with
          | some (a, ta), some (b, tb) => some (a ++ b, cmpOf pl r.p1r n ++ cmpOf pl r.p1l n ++ ta ++ tb)
          | _, _ => none

/-- `rebalance(d)` = `rebalance_interval(0, size, 1, container)` -/
def rebalance (dec : Nat → Nat → Nat → Bool) (objs : List Ival) : Option (List Ival × List Cmp) :=
  rebalSeg dec objs.length 1 objs

/-! ## coarsening levels (`update_coarsening_values`, `update_values`) -/

/-- `refinement_object.coarsening_level = lmax[d] - max(refinement_object.levels)` for every object -/
def setCoarsening (lmaxd : Int) (objs : List Ival) : List Ival :=
  objs.map fun x => { x with c := lmaxd - ((max x.l0 x.l1 : Nat) : Int) }

/-- the return value of `update_coarsening_values`: `-min(0, min coarsening)` -/
def updateDim (objs : List Ival) : Int :=
  -(objs.foldl (fun u x => if x.c < u then x.c else u) (0 : Int))

/-- `RefinementContainer.update_values(v)`: `coarsening_level += v` (its `assert ≥ 0` is `coarsening_nonneg`) -/
def addCoarsening (v : Int) (objs : List Ival) : List Ival :=
  objs.map fun x => { x with c := x.c + v }

/-- `RefinementContainer.get_max_coarsening` -/
def maxCoarsening (objs : List Ival) : Int := objs.foldl (fun m x => max m x.c) 0

/-! ## observation helpers (no code counterpart; used by the theorems and the driver) -/

/-- the levels of the inner points: `levels[1]` of every object but the last -/
def innerLevels (objs : List Ival) : List Nat := (objs.map (·.l1)).dropLast

/-- split a list at the first occurrence of `c` -/
def splitAtFirst (c : Nat) : List Nat → Option (List Nat × List Nat)
  | [] => none
  | x :: xs =>
    if x == c then some ([], xs) else
    match splitAtFirst c xs with
    | none => none
    | some (a, b) => some (x :: a, b)

/-- executable form of the binary-refinement-tree predicate `Tree b L` (see Lemmas/RefTree):
`L = []` or `L = L₁ ++ [b+1] ++ L₂` with both parts trees below `b+1`; fuel `L.length` suffices -/
def treeB : Nat → Nat → List Nat → Bool
  | _, _, [] => true
  | 0, _, _ :: _ => false
  | f+1, b, x :: xs =>
    match splitAtFirst (b + 1) (x :: xs) with
    | none => false
    | some (L₁, L₂) => treeB f (b + 1) L₁ && treeB f (b + 1) L₂

/-- `validLevels lo hi L`: the inner levels `L` between boundary levels `lo`, `hi` form a refinement tree -/
def validLevels (lo hi : Nat) (L : List Nat) : Bool := treeB L.length (max lo hi) L

/-- ascending, gap-free, adjacent intervals agree on the shared level: the chain condition -/
def chainOK : List Ival → Bool
  | [] => true
  | [x] => decide (x.s < x.e)
  | x :: y :: xs => decide (x.s < x.e) && decide (x.e = y.s) && decide (x.l1 = y.l0) && chainOK (y :: xs)

/-- the tiling clause of C06 on one object list -/
def tilingOK (a b : Rat) (objs : List Ival) : Bool :=
  match objs.head?, objs.getLast? with
  | some x, some y => decide (x.s = a) && decide (y.e = b) && decide (x.l0 = 0) && decide (y.l1 = 0) && chainOK objs
  | _, _ => false

end SparseSpace
