import SparseSpace.Model.AnalyticInt
/-!
# Model of the evaluation cache of `sparseSpACE/Function.py` (class `Function`, lines 13-82)

No Mathlib import (only Model/AnalyticInt for the built-in classes), executable.  A Python `dict` is an association
list with duplicate-free keys in insertion order; in-place mutation is a returned state; an exception is an
`Out.error` with the state the code leaves behind.  The evaluated function is a PARAMETER (`Fn`): its scalar `eval`,
its (possibly overridden) `eval_vectorized` and its declared `output_length()`.

A point is the list of its coordinates, a function value is the list of its `output_length()` components
(the code turns a scalar result into a one-element list: `if np.isscalar(f_value): f_value = [f_value]`).
-/
namespace SparseSpace.FuncCache

abbrev Pt := List Rat
abbrev Val := List Rat
/-- `f_dict` / `old_f_dict` -/
abbrev Dict := List (Pt × Val)

/-- `d.get(p, None)` -/
def dget : Dict → Pt → Option Val
  | [], _ => none
  | (k, v) :: r, p => if k = p then some v else dget r p

/-- `d[p] = v` : an existing key keeps its place, a new key is appended -/
def dset : Dict → Pt → Val → Dict
  | [], p, v => [(p, v)]
  | (k, w) :: r, p, v => if k = p then (k, v) :: r else (k, w) :: dset r p v

/-- `d.update(zip(ps, vs))` -/
def dupdate : Dict → List Pt → List Val → Dict
  | d, p :: ps, v :: vs => dupdate (dset d p v) ps vs
  | d, _, _ => d

def keys (d : Dict) : List Pt := d.map (·.1)

/-- the three members of a `Function` subclass that `__call__` uses -/
structure Fn where
  /-- `eval(coordinates)`; a scalar result is the one-element list -/
  eval : Pt → Val
  /-- `eval_vectorized(np.asarray(coordinates))` as a list of rows; `none` = it raises -/
  evalVec : List Pt → Option (List Val)
  /-- `output_length()` -/
  outLen : Nat

/-- numpy assignment `f_values[i, :] = self.eval(coordinate)` into a row of length `n`:
a result of length `n` is stored, a result of length 1 is broadcast, anything else raises -/
def fitRow (n : Nat) (v : Val) : Option Val :=
  if v.length = n then some v
  else match v with
    | [x] => some (List.replicate n x)
    | _ => none

/-- the base-class `Function.eval_vectorized` (lines 56-63) on a list of points: a loop over `eval` -/
def genericVec (eval : Pt → Val) (n : Nat) : List Pt → Option (List Val)
  | [] => some []
  | p :: ps =>
    match fitRow n (eval p), genericVec eval n ps with
    | some v, some vs => some (v :: vs)
    | _, _ => none

/-- a subclass that does not override `eval_vectorized` -/
def Fn.generic (eval : Pt → Val) (outLen : Nat) : Fn :=
  { eval, evalVec := genericVec eval outLen, outLen }

/-- a subclass whose `eval_vectorized` override computes row `i` as `vec p_i` -/
def Fn.override (eval vec : Pt → Val) (outLen : Nat) : Fn :=
  { eval, evalVec := fun ps => some (ps.map vec), outLen }

/-- Which of the two proposed repairs of `Function.__call__` are present in the modelled code.  Model, theorems and
driver are written once for all four variants; `Cfg.current` is the code AS IT IS and is the only variant the
driver executes and the `current_*` theorems of Properties/C12 speak about. -/
structure Cfg where
  /-- handoff/C12-fix-1.diff: `if len(coordinates) == 0: return np.empty((0, self.output_length()))` before
  `coordinates[0]` is read.  `false` (today): the empty sequence raises `IndexError`. -/
  emptyOk : Bool
  /-- handoff/C12-fix-5.diff: the single-point branch enters the point in `f_dict` also when caching is off.
  `false` (today): `if self.do_cache: self.f_dict[coords] = f_value`. -/
  countUncached : Bool
deriving Repr, DecidableEq

/-- the code under test today (with the lead's `fix:` commits 77aa780 and 59b9e87; neither fix-1 nor fix-5) -/
def Cfg.current : Cfg := { emptyOk := true, countUncached := true }

/-- `f_dict`, `old_f_dict`, `do_cache` -/
structure St where
  fdict : Dict
  old : Dict
  doCache : Bool
deriving Repr, DecidableEq

/-- `Function.__init__` -/
def St.init : St := { fdict := [], old := [], doCache := true }

inductive Op
  /-- `f(p)` with `p` a tuple of scalars -/
  | single (p : Pt)
  /-- `f(ps)` with `ps` a list of tuples -/
  | batch (ps : List Pt)
  /-- `reset_dictionary()` -/
  | reset
  /-- `deactivate_caching()` -/
  | deactivate
  /-- `get_f_dict_size()` -/
  | size
deriving Repr, DecidableEq

inductive Err
  /-- `coordinates[0]` on an empty sequence: `IndexError` -/
  | index
  /-- `assert len(f_value) == self.output_length()` -/
  | assertLen
  /-- `eval_vectorized` raised or `reshape((len(coordinates), output_length()))` failed: `ValueError` -/
  | shape
deriving Repr, DecidableEq

inductive Out
  /-- single point: the returned vector, and whether `eval` was called (a cache miss) -/
  | value (v : Val) (miss : Bool)
  /-- batch: the returned rows (`eval_vectorized` is always called, once, on all points) -/
  | values (vs : List Val)
  | count (n : Nat)
  | unit
  | error (e : Err)
deriving Repr, DecidableEq

/-- `__call__` on a sequence of length 0 (the empty batch `[]`, or the empty tuple `()`): `coordinates[0]` raises
`IndexError`; with fix-1 an array of shape `(0, output_length())` is returned -/
def onEmpty (cfg : Cfg) : Out := if cfg.emptyOk then .values [] else .error .index

/-- `Function.__call__`, single-point branch (lines 29-45).  Note that the dictionary is written BEFORE the
length assertion. -/
def single (cfg : Cfg) (F : Fn) (s : St) (p : Pt) : St × Out :=
  if p = [] then (s, onEmpty cfg) else           -- coordinates[0]
  -- if self.do_cache: f_value = self.f_dict.get(coords, None)
  let c1 : Option Val := if s.doCache then dget s.fdict p else none
  --   if f_value is None: f_value = self.old_f_dict.get(coords, None); if f_value is not None: self.f_dict[coords] = f_value
  let (s1, c2) : St × Option Val :=
    if s.doCache then
      match c1 with
      | some v => (s, some v)
      | none =>
        match dget s.old p with
        | some v => ({ s with fdict := dset s.fdict p v }, some v)
        | none => (s, none)
    else (s, none)
  -- if f_value is None: f_value = self.eval(coords); if self.do_cache: self.f_dict[coords] = f_value
  let (s2, v, miss) : St × Val × Bool :=
    match c2 with
    | some v => (s1, v, false)
    | none =>
      let v := F.eval p
      (if s.doCache || cfg.countUncached then { s1 with fdict := dset s1.fdict p v } else s1, v, true)
  if v.length = F.outLen then (s2, .value v miss) else (s2, .error .assertLen)

/-- `Function.__call__`, batch branch (lines 46-53): always evaluates, always writes `f_dict`,
never looks at `do_cache` -/
def batch (cfg : Cfg) (F : Fn) (s : St) (ps : List Pt) : St × Out :=
  if ps = [] then (s, onEmpty cfg) else          -- coordinates[0]
  match F.evalVec ps with
  | none => (s, .error .shape)
  | some rows =>
    -- f_values.reshape((len(coordinates), self.output_length()))
    if rows.length = ps.length ∧ rows.all (fun r => r.length = F.outLen) then
      ({ s with fdict := dupdate s.fdict ps rows }, .values rows)
    else (s, .error .shape)

def step (cfg : Cfg) (F : Fn) (s : St) : Op → St × Out
  | .single p => single cfg F s p
  | .batch ps => batch cfg F s ps
  | .reset => ({ s with fdict := [], old := [] }, .unit)
  | .deactivate => ({ s with doCache := false }, .unit)
  | .size => (s, .count s.fdict.length)

/-- run an operation sequence; outputs in order -/
def run (cfg : Cfg) (F : Fn) : St → List Op → St × List Out
  | s, [] => (s, [])
  | s, o :: os =>
    let r := step cfg F s o
    let q := run cfg F r.1 os
    (q.1, r.2 :: q.2)

/-! ## Specification side: a pure function plus the set of points evaluated since the last reset -/

/-- `l ∪ {p}` keeping first occurrences -/
def insertNew (l : List Pt) (p : Pt) : List Pt := if p ∈ l then l else l ++ [p]

/-- what the history says, independent of any dictionary -/
structure Trace where
  /-- caching has not been deactivated -/
  cacheOn : Bool
  /-- all points passed to an evaluation since the last reset, in order, with repetitions -/
  evaluated : List Pt
  /-- the points the implementation's counter sees: batch points, and single points while caching is on
  (all single points with fix-5) -/
  counted : List Pt
deriving Repr, DecidableEq

def Trace.init : Trace := { cacheOn := true, evaluated := [], counted := [] }

def Trace.step (cfg : Cfg) (t : Trace) : Op → Trace
  | .single p =>
    if p = [] then t else
    { t with evaluated := t.evaluated ++ [p],
             counted := if t.cacheOn || cfg.countUncached then insertNew t.counted p else t.counted }
  | .batch ps =>
    if ps = [] then t else
    { t with evaluated := t.evaluated ++ ps, counted := ps.foldl insertNew t.counted }
  | .reset => { t with evaluated := [], counted := [] }
  | .deactivate => { t with cacheOn := false }
  | .size => t

def trace (cfg : Cfg) (ops : List Op) : Trace := ops.foldl (Trace.step cfg) Trace.init

/-- the values the PROPERTY promises for an operation (no state, no history): a single point gives the
pure value, a batch the list of pure values — for the empty batch the empty list (shape `(0, outLen)`) -/
def specVals (F : Fn) : Op → Option (List Val)
  | .single p => some [F.eval p]
  | .batch ps => some (ps.map F.eval)
  | _ => none

/-- the values an output carries -/
def Out.vals : Out → Option (List Val)
  | .value v _ => some [v]
  | .values vs => some vs
  | _ => none

/-- an evaluation request the code accepts: points of dimension ≥ 1, non-empty batches (every batch with fix-1) -/
def Op.accepted (cfg : Cfg) : Op → Bool
  | .single p => p ≠ []
  | .batch ps => ps ≠ [] || cfg.emptyOk
  | _ => true

/-- no single-point evaluation happens while caching is off -/
def noSingleWhileOff : Bool → List Op → Bool
  | _, [] => true
  | on, .single _ :: os => on && noSingleWhileOff on os
  | _, .deactivate :: os => noSingleWhileOff false os
  | on, _ :: os => noSingleWhileOff on os

/-! ## the built-in classes with exact rational arithmetic as `Fn` (scalar output: `output_length() = 1`) -/
section
open SparseSpace.AnalyticInt

/-- `ConstantValue(v)` (base-class `eval_vectorized`) -/
def constFn (v : Rat) : Fn := Fn.generic (fun p => [evalConst v p]) 1

/-- `FunctionLinear(c)` with its override `np.prod(coordinates * coeffs, axis=-1)` -/
def linearFn (c : List Rat) : Fn :=
  Fn.override (fun p => [evalLinear c p]) (fun p => [evalLinearVec c p]) 1

/-- `FunctionPolynomial(c, degree=k)` (base-class `eval_vectorized`) -/
def polynomialFn (k : Nat) (c : List Rat) : Fn := Fn.generic (fun p => [evalPolynomial k c p]) 1

/-- `FunctionMultilinear(c)` (base-class `eval_vectorized`) -/
def multilinearFn (c : List Rat) : Fn := Fn.generic (fun p => [evalMultilinear c p]) 1

/-- `Polynomial1d(cs)`: `eval` reads `coordinates[0]` (a 0-dimensional point raises; it has no value here) -/
def poly1dFn (cs : List Rat) : Fn :=
  Fn.generic (fun p => match p with | x :: _ => [evalPoly1d cs x] | [] => []) 1

/-- any other subclass: `eval` given by a finite table of (point, value) pairs supplied from outside (a point
without entry has no value), declared output length `n`, with the base-class `eval_vectorized` or with an override
that computes `eval` row by row -/
def tableFn (tbl : Dict) (n : Nat) (overridden : Bool) : Fn :=
  let ev : Pt → Val := fun p => (dget tbl p).getD []
  if overridden then Fn.override ev ev n else Fn.generic ev n

end

end SparseSpace.FuncCache
