/-!
# Model of the binary trees of `sparseSpACE/Extrapolation.py` (property C11)

* `GridBinaryTree` (lines 189-515): `init_tree`, `force_full_tree_invariant`, `get_grid`, `get_grid_levels`,
  `increment_level_in_each_subtree`.  The Python tree is a mutable pointer structure with parent links; here it is
  the pointer-free inductive `BTree`.  A node's `level` is its depth (root = 1) because `Node.__init__` /
  `set_*_child` always set `level = parent.level + 1`; it is therefore not stored.
* the interval tree (`GridNode`) built by `BalancedExtrapolationGrid.init_tree_rec` (lines 3068-3099): `ITree`.

Both Python builders work on an index window `[start, stop]` of the level array and split it at
`start + levels[start:stop+1].index(min(...))`, the FIRST minimal level.  The model works on the sub-list itself
(`splitMin`), which is the same computation without index arithmetic.  Import-free.
-/
namespace SparseSpace

/-- a grid point together with its refinement level -/
abbrev PL := Rat × Nat

/-- `l.index(min(l))` as a split: everything before the first minimal level, that element, the rest -/
def splitMin : List PL → Option (List PL × PL × List PL)
  | [] => none
  | x :: xs =>
    match splitMin xs with
    | none => some ([], x, [])
    | some (pre, y, post) => if x.2 ≤ y.2 then some ([], x, xs) else some (x :: pre, y, post)

/-- `GridBinaryTree.Node` without parent pointers and without the derived field `level` -/
inductive BTree where
  | nil : BTree
  | node (l : BTree) (p : Rat) (r : BTree) : BTree
  deriving Repr, DecidableEq

namespace BTree

/-- `__init_tree_rec` on the window of inner points (fuel ≥ length suffices, see `Lemmas/RombergTree`) -/
def build : Nat → List PL → BTree
  | 0, _ => nil
  | fuel + 1, l =>
    match splitMin l with
    | none => nil
    | some (pre, x, post) => node (build fuel pre) x.1 (build fuel post)

/-- `Node.get_grid` (in-order points of the subtree) -/
def inorder : BTree → List Rat
  | nil => []
  | node l p r => inorder l ++ p :: inorder r

/-- `Node.get_grid_levels`: the depths, the root of the subtree having level `lvl` -/
def levels : BTree → Nat → List Nat
  | nil, _ => []
  | node l _ r, lvl => levels l (lvl + 1) ++ lvl :: levels r (lvl + 1)

/-- point stored in the root of a subtree (only used on non-empty subtrees) -/
def rootPoint : BTree → Rat
  | nil => 0
  | node _ p _ => p

/-- `force_full_tree_invariant`: every node with exactly one child gets the mirrored point as the other child.
    The Python loop runs over the node list taken BEFORE the modification, so new nodes stay leaves. -/
def forceFull : BTree → BTree
  | nil => nil
  | node nil p nil => node nil p nil
  | node (node ll lp lr) p nil =>
      node (forceFull (node ll lp lr)) p (node nil (p + (p - lp)) nil)
  | node nil p (node rl rp rr) =>
      node (node nil (p - (rp - p)) nil) p (forceFull (node rl rp rr))
  | node (node ll lp lr) p (node rl rp rr) =>
      node (forceFull (node ll lp lr)) p (forceFull (node rl rp rr))

/-- `rpow2 n = 2 ** n` -/
def rpow2 : Nat → Rat
  | 0 => 1
  | n + 1 => rpow2 n * 2

/-- `increment_level_in_each_subtree`: every LEAF (nodes with one child are skipped) of level `lvl` gets the two
    children `point ∓ H / 2 ** (level + 1)` -/
def incrLeaves (H : Rat) : BTree → Nat → BTree
  | nil, _ => nil
  | node l p r, lvl =>
      match l, r with
      | nil, nil => node (node nil (p - H / rpow2 (lvl + 1)) nil) p (node nil (p + H / rpow2 (lvl + 1)) nil)
      | _, _ => node (incrLeaves H l (lvl + 1)) p (incrLeaves H r (lvl + 1))

/-- every node has zero or two children (`has_both_children() or is_leaf()`) -/
def isFull : BTree → Bool
  | nil => true
  | node nil _ nil => true
  | node nil _ (node _ _ _) => false
  | node (node _ _ _) _ nil => false
  | node (node ll lp lr) _ (node rl rp rr) => isFull (node ll lp lr) && isFull (node rl rp rr)

end BTree

/-- state of the `GridBinaryTree` singleton after `init_tree` -/
structure GBT where
  a : Rat
  b : Rat
  root : BTree
  deriving Repr

namespace GBT

/-- `init_tree(grid, grid_levels)`; `none` = AssertionError (boundary levels not 0, or no inner point so that
    `root_node` stays `None`).  Lists shorter than 2 or of different length are outside the modelled domain
    (`none` as well; Python raises IndexError or builds from the shorter window). -/
def initTree (grid : List Rat) (lv : List Nat) : Option GBT :=
  if grid.length ≠ lv.length then none else
  match grid.zip lv with
  | [] => none
  | [_] => none
  | first :: rest =>
    match rest.reverse with
    | [] => none
    | last :: innerRev =>
      let inner := innerRev.reverse
      if first.2 ≠ 0 ∨ last.2 ≠ 0 then none else
      match BTree.build (inner.length + 1) inner with
      | .nil => none
      | t => some ⟨first.1, last.1, t⟩

/-- `get_grid()` -/
def grid (t : GBT) : List Rat := t.a :: (t.root.inorder ++ [t.b])

/-- `get_grid_levels()` -/
def gridLevels (t : GBT) : List Nat := 0 :: (t.root.levels 1 ++ [0])

/-- `force_full_tree_invariant()` -/
def forceFull (t : GBT) : GBT := { t with root := t.root.forceFull }

/-- `increment_level_in_each_subtree()` -/
def incr (t : GBT) : GBT := { t with root := t.root.incrLeaves (t.b - t.a) 1 }

end GBT

/-- `GridNode` of the balanced extrapolation grid: an interval `[bl, br]`; `grid_point` is its midpoint -/
inductive ITree where
  | nil : ITree
  | node (l : ITree) (bl br : Rat) (r : ITree) : ITree
  deriving Repr

namespace ITree

/-- `BalancedExtrapolationGrid.init_tree_rec`: the node of a window carries the grid points just outside the
    window as boundaries; the children's windows are the parts left and right of the first minimal level -/
def build : Nat → Rat → List PL → Rat → ITree
  | 0, _, _, _ => nil
  | fuel + 1, L, l, R =>
    match splitMin l with
    | none => nil
    | some (pre, x, post) => node (build fuel L pre x.1) L R (build fuel x.1 post R)

def isNil : ITree → Bool
  | nil => true
  | node _ _ _ _ => false

/-- `node.has_both_children() or node.is_leaf()` for every node -/
def isFull : ITree → Bool
  | nil => true
  | node l _ _ r => (l.isNil == r.isNil) && isFull l && isFull r

/-- `GridNode.get_midpoint` -/
def mid (bl br : Rat) : Rat := (bl + br) / 2

/-- `get_leafs_or_max_level_nodes(max_level = i)` as (grid_point, step width) pairs; `lvl` = level of the root -/
def leafsOrMax : ITree → Nat → Nat → List (Rat × Rat)
  | nil, _, _ => []
  | node l bl br r, lvl, i =>
      if lvl > i then [] else
      if lvl = i ∨ (l.isNil ∧ r.isNil) then [(mid bl br, br - bl)] else
      leafsOrMax l (lvl + 1) i ++ leafsOrMax r (lvl + 1) i

/-- in-order `grid_point`s -/
def inorder : ITree → List Rat
  | nil => []
  | node l bl br r => inorder l ++ mid bl br :: inorder r

/-- in-order levels -/
def levels : ITree → Nat → List Nat
  | nil, _ => []
  | node l _ _ r, lvl => levels l (lvl + 1) ++ lvl :: levels r (lvl + 1)

end ITree

end SparseSpace
