import SparseSpace.Model.RefTree
import SparseSpace.Model.Combi
/-!
# Model of `SpatiallyAdaptiveSingleDimensions2` (dimension-wise spatially adaptive strategy)

The state after `performSpatiallyAdaptiv` started: per-dimension refinement containers, `lmax` per dimension,
the adaptive combination scheme.  One `refine()` call (`SpatiallyAdaptivBase.refine` +
`SpatiallyAdaptiveSingleDimensions2.refinement_postprocessing`) is `DW.step`.  The component grids
(`get_point_coord_for_each_dim`, `get_subtraction_value`, `modify_according_to_levelvec`, `get_max_level`)
for the versions 2, 3, 6, 7, 8 are `dimPoints`.  Import-free, executable.
-/
namespace SparseSpace

/-- `lmin[0]` (all entries equal), `lmax` per dimension, the `MetaRefinementContainer`, the `CombiScheme` -/
structure DW where
  dim : Nat
  lmin : Int
  lmax : List Int
  m : Meta
  cs : CS
deriving Repr

/-- `init_adaptive_combi` + `initialize_refinement` (`dim_adaptive = True`); the code asserts `lmax > 1` and
`lmax ≥ lmin ≥ 0` (hypotheses of the theorems, checked by the driver) -/
def DW.init (lmin lmax : Nat) (a b : List Rat) : DW :=
  let dim := a.length
  { dim := dim, lmin := lmin, lmax := List.replicate dim (lmax : Int),
    m := { conts := (List.zipWith (fun x y => ({ objs := initObjs lmax x y } : Cont)) a b) },
    cs := CS.init dim lmax lmin }

/-- `max(self.lmax)` (0 for the empty list, which the code never has) -/
def maxList (l : List Int) : Int :=
  match l with
  | [] => 0
  | x :: xs => xs.foldl max x

/-- the test inside `raise_lmax`:
`max(lmax) + lmin[0]*(dim-1) > sum(index) and all(lmax[d] > index[d] for d in range(dim))` -/
def raiseCond (lmax : List Int) (lmin : Int) (dim : Nat) (idx : LV) : Bool :=
  decide (maxList lmax + lmin * ((dim : Int) - 1) > idx.foldl (· + ·) 0) &&
  (List.range dim).all fun d =>
    match lmax[d]?, idx[d]? with
    | some u, some v => decide (u > v)
    | _, _ => false

/-- one pass of the `while True` loop of `raise_lmax` over a snapshot of the active set; returns the number
of `update_adaptive_combi` calls -/
def raisePass (lmax : List Int) (lmin : Int) (cs : CS) : CS × Nat :=
  cs.active.foldl (fun (acc : CS × Nat) idx =>
    if raiseCond lmax lmin cs.dim idx then ((acc.1.update idx).1, acc.2 + 1) else acc) (cs, 0)

/-- the `while True` loop of `raise_lmax`; the flag says that it ended by `refinements == 0` -/
def raiseLoop (lmax : List Int) (lmin : Int) : Nat → CS → CS × Bool
  | 0, cs => (cs, false)
  | f+1, cs =>
    let r := raisePass lmax lmin cs
    if r.2 == 0 then (r.1, true) else raiseLoop lmax lmin f r.1

/-- enough passes: every pass that does not end the loop moves an index of the box `[lmin, max lmax)^dim`
from the active to the old set -/
def raiseFuel (lmax : List Int) (lmin : Int) (dim : Nat) : Nat :=
  ((maxList lmax - lmin).toNat + 1) ^ dim + 1

/-- per dimension `d` of the last loop of `refinement_postprocessing`: `update_coarsening_values`, and if an
object exceeds the maximum level: `raise_lmax(d, update_d)` and `update_values(update_d)`.
The flag is `false` iff the fuel of `raiseLoop` ran out (never observed; reported by the driver). -/
def DW.postDim (st : DW) (d : Nat) : DW × Bool :=
  match st.m.conts[d]?, st.lmax[d]? with
  | some c, some lm =>
    let objs := setCoarsening lm c.objs
    let upd := updateDim objs
    if upd > 0 then
      let lmax' := st.lmax.set d (lm + upd)
      let r := raiseLoop lmax' st.lmin (raiseFuel lmax' st.lmin st.dim) st.cs
      ({ st with lmax := lmax', cs := r.1,
                 m := { st.m with conts := st.m.conts.set d { c with objs := addCoarsening upd objs } } }, r.2)
    else
      ({ st with m := { st.m with conts := st.m.conts.set d { c with objs := objs } } }, true)
  | _, _ => (st, true)

def DW.postDims (st : DW) : List Nat → DW × Bool
  | [] => (st, true)
  | d :: ds =>
    let r := st.postDim d
    let r' := DW.postDims r.1 ds
    (r'.1, r.2 && r'.2)

/-- `for d in range(dim): self.rebalance(d)`; returns the containers and the comparisons per dimension -/
def rebalanceAll (dec : Nat → Nat → Nat → Bool) : List Cont → Option (List Cont × List (List Cmp))
  | [] => some ([], [])
  | c :: cs =>
    match rebalance dec c.objs, rebalanceAll dec cs with
    | some (o, t), some (cs', ts) => some ({ c with objs := o } :: cs', t :: ts)
    | _, _ => none

/-- result of one `refine()` call -/
structure StepOut where
  st : DW
  refined : List (Nat × Nat)
  cmps : List (List Cmp)
  raiseDone : Bool

/-- one `refine()`: selection loop with the tolerance `benefit_max * margin`, splits, `apply_remove(sort)`,
cursor resets, rebalancing (if switched on), coarsening update and `raise_lmax` per dimension.
`bens[d][i]` is the `benefit` of object `i` of dimension `d`.  `none` = an exception / failed assert. -/
def DW.step (st : DW) (bens : List (List Rat)) (margin : Rat) (rebalancing : Bool)
    (dec : Nat → Nat → Nat → Bool) : Option StepOut :=
  match st.m.refineStep bens margin with
  | none => none
  | some (m1, ps) =>
    let rb : Option (List Cont × List (List Cmp)) :=
      if rebalancing then rebalanceAll dec m1.conts else some (m1.conts, [])
    match rb with
    | none => none
    | some (conts, cmps) =>
      let r := DW.postDims { st with m := { m1 with conts := conts } } (List.range st.dim)
      some { st := r.1, refined := ps, cmps := cmps, raiseDone := r.2 }

/-- the effect of `evaluate_operation()` on the refinement structures: it ends with
`self.refinement.clear_new_objects()` (repository commit 48b37d3), i.e. `startNewObjects = len(objects)` in every
container; nothing else of the modelled state changes -/
def DW.evaluate (st : DW) : DW := { st with m := st.m.clearNew }

/-- the inputs of one `refine()` call: the benefit table, the margin, the rebalancing switch and the outcomes of
the rebalancing comparisons -/
structure StepIn where
  bens : List (List Rat)
  margin : Rat
  rebalancing : Bool
  dec : Nat → Nat → Nat → Bool

/-- a whole refinement history: `none` iff some `refine()` call fails -/
def DW.run (st : DW) : List StepIn → Option DW
  | [] => some st
  | i :: is =>
    match st.step i.bens i.margin i.rebalancing i.dec with
    | none => none
    | some o => DW.run o.st is

/-! ## component grids (`get_point_coord_for_each_dim`) -/

/-- the left `while` loop of `get_max_level` over the objects `i, i-1, …, 1` (`levels[0]`), resp. the right
one over `i+1, …` (`levels[1]`): running maximum, stop at the first level `≤ own` -/
def maxLevelScan (own : Nat) : List Nat → Nat → Nat
  | [], ml => ml
  | t :: ts, ml => if t ≤ own then max ml t else maxLevelScan own ts (max ml t)

/-- `get_max_level(refine_container, refine_obj, i, d)` (the `max_level_dict` cache is emptied by every
`refinement_postprocessing`, i.e. whenever the objects change) -/
def maxLevel (objs : List Ival) (i : Nat) : Nat :=
  match objs[i]? with
  | none => 0
  | some x =>
    let left := (((objs.take (i + 1)).drop 1).reverse).map (·.l0)
    let right := (objs.drop (i + 1)).map (·.l1)
    maxLevelScan x.l1 right (maxLevelScan x.l1 left x.l1)

/-- `sum([1 for i in range(bound) if max_coarsenings[i] >= thr])` -/
def cntGe (bound : Nat) (mcs : List Int) (thr : Int) : Int :=
  (((mcs.take bound).filter (fun c => decide (c ≥ thr))).length : Int)

/-- the `while True` loop of version 6; the flag is `true` iff the loop ended by `break` -/
def subLoop6 (dim d : Nat) (mcs : List Int) (sv : Int) : Nat → Int → Int → Int × Bool
  | 0, m, _ => (m, false)
  | f+1, m, ps =>
    let ps := if m > 0 then ps + cntGe dim mcs (sv - (m - 1)) else ps
    let pst := cntGe (d + 1) mcs (sv - m)
    let m' := if ps + pst ≤ sv then m + 1 else m
    if ps + pst ≥ sv then (m', true) else subLoop6 dim d mcs sv f m' ps

/-- version 7 -/
def subLoop7 (dim : Nat) (mcs : List Int) (sv : Int) : Nat → Int → Int → Int × Bool
  | 0, m, _ => (m, false)
  | f+1, m, ps =>
    let ps := ps + cntGe dim mcs (sv - m)
    let m' := if ps ≤ sv then m + 1 else m
    if ps ≥ sv then (m', true) else subLoop7 dim mcs sv f m' ps

/-- version 8 (`min(max_level - 1, …)`) -/
def subLoop8 (dim d : Nat) (mcs : List Int) (sv : Int) (ml : Int) : Nat → Int → Int → Int × Bool
  | 0, m, _ => (m, false)
  | f+1, m, ps =>
    let ps := if m > 0 then ps + min (ml - 1) (cntGe dim mcs (sv - (m - 1))) else ps
    let pst := min (ml - 1) (cntGe (d + 1) mcs (sv - m))
    let m' := if ps + pst ≤ sv then m + 1 else m
    if ps + pst ≥ sv then (m', true) else subLoop8 dim d mcs sv ml f m' ps

/-- version 3: `x = sv / dim; ceil(x) if x - int(x) > d / dim else int(x)` in exact arithmetic
(`int` truncates towards zero) -/
def v3Exact (sv : Int) (dim d : Nat) : Int :=
  if Int.tmod sv dim > d then Int.tdiv sv dim + 1 else Int.tdiv sv dim

/-- `modify_according_to_levelvec(subtraction_value, d, max_level, levelvec)` -/
def modifyLv (m l lmin lmaxd ml : Int) : Int :=
  let m1 := if l - m ≥ ml ∧ l < lmaxd then l - ml + 1 else m
  min m1 (l - lmin)

def subFuel (sv : Int) : Nat := (2 * sv + 3).toNat

/-- `get_subtraction_value(…)` for the versions 2, 3, 6, 7, 8 (any other number: the model returns the
flag `false`).  `l = levelvec[d]`, `ml = max_level`, `mcs = max_coarsenings`.  `v3r` is the rounding of
version 3 (the code does it in floats; `v3Exact` is its exact reading); version 3 clips the result at
`levelvec[d] - lmin[d]` (fix commit 891031b of the repository under test). -/
def subValue (version dim d : Nat) (v3r : Int → Nat → Nat → Int) (lmin lmaxd : Int) (mcs : List Int)
    (ml : Nat) (l : Int) : Int × Bool :=
  let sv := lmaxd - ml
  match version with
  | 2 => (sv, true)
  | 3 => (min (if ml > 2 then v3r sv dim d else sv) (l - lmin), true)
  | 6 => let r := subLoop6 dim d mcs sv (subFuel sv) 0 0; (modifyLv r.1 l lmin lmaxd ml, r.2)
  | 7 => let r := subLoop7 dim mcs sv (subFuel sv) 0 0; (modifyLv r.1 l lmin lmaxd ml, r.2)
  | 8 => let r := subLoop8 dim d mcs sv ml (subFuel sv) 0 0; (modifyLv r.1 l lmin lmaxd ml, r.2)
  | _ => (0, false)

/-- the test `refineObj.levels[1] <= max(levelvec[d] - subtraction_value, 1)` -/
def keepEnd (l1 : Nat) (l sub : Int) : Bool := decide ((l1 : Int) ≤ max (l - sub) 1)

/-- configuration of the component-grid construction -/
structure PtCfg where
  version : Nat
  v3r : Int → Nat → Nat → Int := v3Exact

/-- `max_coarsenings` of `get_point_coord_for_each_dim` -/
def DW.maxCoarsenings (st : DW) : List Int := st.m.conts.map fun c => maxCoarsening c.objs

/-- is the end point of object `i` of dimension `d` a point of the component level `l`? (second component:
loop flag) -/
def DW.keepAt (st : DW) (cfg : PtCfg) (d : Nat) (objs : List Ival) (i : Nat) (x : Ival) (l : Int) : Bool × Bool :=
  let r := subValue cfg.version st.dim d cfg.v3r st.lmin (st.lmax.getD d 0) st.maxCoarsenings (maxLevel objs i) l
  (keepEnd x.l1 l r.1, r.2)

/-- the objects of dimension `d` -/
def DW.objsOf (st : DW) (d : Nat) : List Ival := (st.m.conts.getD d { objs := [] }).objs

/-- `(points_dim, points_level_dim)` of `get_point_coord_for_each_dim(levelvec)` for dimension `d`; it depends
on the level vector through `l = levelvec[d]` only -/
def DW.dimPoints (st : DW) (cfg : PtCfg) (d : Nat) (l : Int) : List (Rat × Nat) :=
  let objs := st.objsOf d
  match objs with
  | [] => []
  | x0 :: _ =>
    (x0.s, x0.l0) :: objs.zipIdx.filterMap fun (p : Ival × Nat) =>
      if (st.keepAt cfg d objs p.2 p.1 l).1 then some (p.1.e, p.1.l1) else none

/-- did every `while True` loop behind `dimPoints` end by `break`? -/
def DW.dimPointsDone (st : DW) (cfg : PtCfg) (d : Nat) (l : Int) : Bool :=
  let objs := st.objsOf d
  objs.zipIdx.all fun (p : Ival × Nat) => (st.keepAt cfg d objs p.2 p.1 l).2

/-- the coordinates only -/
def DW.dimCoords (st : DW) (cfg : PtCfg) (d : Nat) (l : Int) : List Rat := (st.dimPoints cfg d l).map (·.1)

/-- the 1-D grids of the dimensions `d, d+1, …` for the levels `lv` -/
def DW.gridsFrom (st : DW) (cfg : PtCfg) : Nat → LV → List (List Rat)
  | _, [] => []
  | d, l :: ls => st.dimCoords cfg d l :: DW.gridsFrom st cfg (d + 1) ls

/-- the 1-D grids of the component grid `lv` -/
def DW.grids (st : DW) (cfg : PtCfg) (lv : LV) : List (List Rat) := st.gridsFrom cfg 0 lv

/-! ## interpolation on a component grid and the combined interpolant -/

/-- piecewise-linear interpolation of `g` on the ascending node list, evaluated at `x` (0 right of the last
node; left of the first node the first piece is extended) -/
def interp1 : List Rat → (Rat → Rat) → Rat → Rat
  | [], _, _ => 0
  | [p], g, x => if x = p then g p else 0
  | p :: q :: rest, g, x =>
    if x ≤ q then g p + (g q - g p) * (x - p) / (q - p) else interp1 (q :: rest) g x

/-- multilinear interpolation on the tensor grid, axis by axis (= `scipy.interpolate.interpn(method='linear')`
on the grid values) -/
def interpT : List (List Rat) → (List Rat → Rat) → List Rat → Rat
  | [], f, _ => f []
  | g :: gs, f, x :: xs => interp1 g (fun y => interpT gs (fun r => f (y :: r)) xs) x
  | _ :: _, _, [] => 0

/-- `boundary = False`: the grid values on the boundary points of the domain are zero -/
def zeroBoundary (a b : List Rat) (f : List Rat → Rat) (p : List Rat) : Rat :=
  if (List.zipWith (fun x y => decide (x = y)) p a).any id || (List.zipWith (fun x y => decide (x = y)) p b).any id
  then 0 else f p

/-- the scheme with the 1-D grids of every component: `(coefficient, grids)` -/
def DW.schemeGrids (st : DW) (cfg : PtCfg) : List (Int × List (List Rat)) :=
  st.cs.coeffs.map fun p => (p.2, st.grids cfg p.1)

def combiInterpG (gs : List (Int × List (List Rat))) (f : List Rat → Rat) (x : List Rat) : Rat :=
  (gs.map fun p => (p.1 : Rat) * interpT p.2 f x).sum

/-- `__call__`: `Σ coefficient · interpolate_points(x, component_grid)` over the scheme -/
def DW.combiInterp (st : DW) (cfg : PtCfg) (f : List Rat → Rat) (x : List Rat) : Rat :=
  combiInterpG (st.schemeGrids cfg) f x

/-- is `x` a point of the tensor grid? -/
def inGrid : List (List Rat) → List Rat → Bool
  | [], [] => true
  | g :: gs, y :: ys => g.contains y && inGrid gs ys
  | _, _ => false

def pointCoeffSumG (gs : List (Int × List (List Rat))) (x : List Rat) : Int :=
  ((gs.filter fun p => inGrid p.2 x).map (·.1)).sum

/-- the sum of the coefficients of the component grids that contain the point `x` -/
def DW.pointCoeffSum (st : DW) (cfg : PtCfg) (x : List Rat) : Int :=
  pointCoeffSumG (st.schemeGrids cfg) x

end SparseSpace
