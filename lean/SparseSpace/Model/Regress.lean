/-!
# Model of the regression operation (`sparseSpACE/GridOperation.py`, class `Regression`, and the data
scaling of `DEMachineLearning.DataSet.scale_range`)

Import-free, executable, exact rational arithmetic.  Vectors are `List Rat`, matrices are lists of rows.
Every definition mirrors what the Python code DOES, including

* `build_C_matrix`: the mass factors of dimension `m ≠ k` are formed with `levelvec[k]` (not `levelvec[m]`);
* `build_C_matrix_dimension_wise`: supports that merely touch count as overlapping (strict `<` in the
  non-overlap test), the `else` branch (`n ≠ d`) reads the coordinates of dimension `d` (not `n`), treats
  every pair of different points as neighbours and multiplies their mass integral onto `temp_res` twice;
* only the upper triangle is computed, the lower one is mirrored.

Everything lives in `SparseSpace.Regress` (the mass matrices of C16 are somebody else's model).
-/
namespace SparseSpace.Regress

abbrev Vec := List Rat
abbrev Mat := List (List Rat)

/-- `abs` on floats -/
def absR (x : Rat) : Rat := if x < 0 then -x else x

/-- `2 ** l` -/
def pow2 (l : Nat) : Rat := (2 : Rat) ^ l

/-- `itertools.product(*lists)` (`Utils.get_cross_product_list`): last factor runs fastest -/
def cross {α : Type} : List (List α) → List (List α)
  | [] => [[]]
  | l :: ls => l.flatMap fun x => (cross ls).map (x :: ·)

/-- product of the entries of a list (`np.prod(..., axis)`) -/
def lprod (l : List Rat) : Rat := l.foldr (· * ·) 1

/-! ## Data scaling at construction (`Regression.scale_data` → `DataSet.scale_range` → `MinMaxScaler`) -/

def lmin : Rat → List Rat → Rat
  | a, [] => a
  | a, x :: xs => lmin (if x < a then x else a) xs

def lmax : Rat → List Rat → Rat
  | a, [] => a
  | a, x :: xs => lmax (if a < x then x else a) xs

/-- one feature column through `MinMaxScaler(feature_range=(lo, hi))`: `scale_ = (hi-lo)/range` with
`range` replaced by 1 when it is 0 (`_handle_zeros_in_scale`), `min_ = lo - data_min*scale_`, `X*scale_ + min_` -/
def scaleCol (lo hi : Rat) : List Rat → List Rat
  | [] => []
  | x :: xs =>
    let mn := lmin x xs
    let mx := lmax x xs
    let rg := mx - mn
    let sc := (hi - lo) / (if rg = 0 then 1 else rg)
    (x :: xs).map fun v => v * sc + (lo - mn * sc)

/-! ## Uniform component grids without boundary (`train` → `evaluate_levelvec`) -/

/-- `np.array(get_cross_product_range_list(self.grid.numPoints)) + 1` with `numPoints = 2**l - 1` -/
def indexList (lv : List Nat) : List (List Int) :=
  cross (lv.map fun l => (List.range (2 ^ l - 1)).map fun (k : Nat) => (k : Int) + 1)

/-- one factor of `hat_function_in_support_completely_vectorized`: `max(1 - abs(2**l * x - i), 0)` -/
def hatU (l : Nat) (i : Int) (x : Rat) : Rat :=
  let v := 1 - absR (pow2 l * x - (i : Rat))
  if v < 0 then 0 else v

/-- tensor hat of multi-index `iv` on level vector `lv` at sample `x` (`np.prod(max_filter, axis=2)`) -/
def hatUd : List Nat → List Int → List Rat → Rat
  | l :: lv, i :: iv, x :: xs => hatU l i x * hatUd lv iv xs
  | _, _, _ => 1

/-- `build_A_matrix(levelvec)`: one row per training sample, one column per grid point -/
def designU (lv : List Nat) (X : List (List Rat)) : Mat :=
  X.map fun x => (indexList lv).map fun iv => hatUd lv iv x

/-- the factor multiplied onto `temp_res` in `build_C_matrix` for the dimension pair `(k, m)`; `lk = levelvec[k]`
in BOTH branches, as in the code -/
def facU (lk : Nat) (isK : Bool) (im jm : Int) : Rat :=
  if isK then
    if im = jm then pow2 (lk + 1)
    else if (jm - im).natAbs > 1 then 0
    else -(pow2 lk)
  else
    if im = jm then 1 / (pow2 lk / 2 * 3)
    else if (jm - im).natAbs > 1 then 0
    else 1 / (pow2 lk / 2 * 12)

/-- `temp_res` after the inner loop over `m` (a `break` with `temp_res = 0` is a zero factor) -/
def termU (lv : List Nat) (k : Nat) (iv jv : List Int) : Rat :=
  lprod ((List.range lv.length).map fun m => facU (lv.getD k 0) (m == k) (iv.getD m 0) (jv.getD m 0))

/-- `res` of `build_C_matrix` for the grid points `iv`, `jv` -/
def resU (lv : List Nat) (iv jv : List Int) : Rat :=
  ((List.range lv.length).map fun k => termU lv k iv jv).sum

/-- fill a square matrix as the code does: `res(i, j)` for `i ≤ j`, mirrored below the diagonal -/
def mirrored {α : Type} (idx : List α) (res : α → α → Rat) : Mat :=
  (List.range idx.length).map fun i => (List.range idx.length).map fun j =>
    match idx[i]?, idx[j]? with
    | some a, some b => if i ≤ j then res a b else res b a
    | _, _ => 0

/-- `build_C_matrix(levelvec)` -/
def cMatrixU (lv : List Nat) : Mat := mirrored (indexList lv) (resU lv)

/-! ## Non-uniform (dimension-wise) grids, given as 1-D coordinate lists including the ends 0 and 1 -/

/-- consecutive triples `(previous, point, next)` of a coordinate list -/
def triplesAux : List Rat → List (Rat × Rat × Rat)
  | a :: b :: c :: rest => (a, b, c) :: triplesAux (b :: c :: rest)
  | _ => []

/-- `get_hat_domain_for_every_grid_point_vectorized` for one dimension, `boundary = False`:
`(lower, point, upper)` for every interior point; a list of 3 coordinates gets the support `[0, 1]` -/
def triples (s : List Rat) : List (Rat × Rat × Rat) :=
  match s with
  | [_, b, _] => [(0, b, 1)]
  | _ => triplesAux s

/-- `value1_temp[value1_temp > 1] = 0; value1_temp[value1_temp < 0] = 0` -/
def clipUp (v : Rat) : Rat := if v > 1 then 0 else if v < 0 then 0 else v

/-- `value2_temp[value2_temp >= 1] = 0; value2_temp[value2_temp < 0] = 0` -/
def clipLo (v : Rat) : Rat := if v ≥ 1 then 0 else if v < 0 then 0 else v

/-- one factor of `hat_function_non_symmetric_completely_vectorized`: `value1 + value2`
(`filter_upper`/`filter_lower` drop a side whose support end equals the point) -/
def hatNU (t : Rat × Rat × Rat) (x : Rat) : Rat :=
  (if t.2.2 = t.2.1 then 0 else clipUp (1 - (x - t.2.1) / (t.2.2 - t.2.1))) +
  (if t.1 = t.2.1 then 0 else clipLo (1 - (t.2.1 - x) / (t.2.1 - t.1)))

def hatNUd : List (Rat × Rat × Rat) → List Rat → Rat
  | t :: ts, x :: xs => hatNU t x * hatNUd ts xs
  | _, _ => 1

/-- grid points of a dimension-wise grid with their supports, in the order of `get_cross_product` -/
def pointsNU (stripes : List (List Rat)) : List (List (Rat × Rat × Rat)) := cross (stripes.map triples)

/-- `build_A_matrix_dimension_wise` -/
def designNU (stripes : List (List Rat)) (X : List (List Rat)) : Mat :=
  X.map fun x => (pointsNU stripes).map fun tv => hatNUd tv x

/-- `-(m * m * b)` -/
def negMMB (m b : Rat) : Rat := -(m * m * b)

/-- the `n == d` branch of `build_C_matrix_dimension_wise` -/
def stiffNU (same : Bool) (ti tj : Rat × Rat × Rat) : Rat :=
  let li := ti.1; let p := ti.2.1; let ui := ti.2.2
  let lj := tj.1; let q := tj.2.1; let uj := tj.2.2
  if ui < lj || uj < li then 0
  else if same || p = q then
    let b1 := p - li; let m1 := 1 / b1
    let b2 := ui - p; let m2 := 1 / b2
    b1 * m1 ^ 2 + b2 * m2 ^ 2
  else if p < q then negMMB (1 / (q - p)) (q - p)
  else negMMB (1 / (p - q)) (p - q)

/-- the lambda `integral_calc` -/
def integralCalc (x m p q : Rat) : Rat :=
  (1 / 2) * m ^ 2 * x ^ 2 * (p + q) - (1 / 3) * m ^ 2 * x ^ 3 - x * (m * p + 1) * (m * q - 1)

/-- the lambda `integral_1` -/
def integral1 (x m p : Rat) : Rat := -((m * (p - x) - 1) ^ 3 / (3 * m))

/-- the lambda `integral_2` -/
def integral2 (x m p : Rat) : Rat := -((m * (p - x) + 1) ^ 3 / (3 * m))

/-- the `else` branch (`n ≠ d`) of `build_C_matrix_dimension_wise`; the code evaluates it with the
coordinates of dimension `d`, so the arguments are the supports in dimension `d`.  For different points the
code executes `temp_res *= integral` twice (once inside the `if`, once after it): the factor is squared. -/
def massNU (ti tj : Rat × Rat × Rat) : Rat :=
  let li := ti.1; let p := ti.2.1; let ui := ti.2.2
  let q := tj.2.1; let uj := tj.2.2
  if p ≠ q then
    let m := 1 / absR (p - q)
    let a := if p < q then p else q
    let b := if p < q then q else p
    let integral := integralCalc b m a b - integralCalc a m a b
    integral * integral
  else
    let m1 := if p ≠ li then 1 / absR (p - li) else 0
    let m2 := if p ≠ uj then 1 / absR (uj - q) else 0
    let i1 : Rat → Rat := fun x => if p ≠ li then integral1 x m1 p else 0
    let i2 : Rat → Rat := fun x => if p ≠ uj then integral2 x m2 p else 0
    (i1 p - i1 li) + (i2 ui - i2 p)

/-- `same_domain` -/
def sameDomain : List (Rat × Rat × Rat) → List (Rat × Rat × Rat) → Bool
  | ti :: is, tj :: js => (ti.1 == tj.1 && ti.2.2 == tj.2.2) && sameDomain is js
  | _, _ => true

/-- `temp_res` after the inner loop over `n` for fixed `d` -/
def termNU (ti tj : List (Rat × Rat × Rat)) (d : Nat) : Rat :=
  let a := ti.getD d (0, 0, 0)
  let b := tj.getD d (0, 0, 0)
  lprod ((List.range ti.length).map fun n => if n == d then stiffNU (sameDomain ti tj) a b else massNU a b)

/-- `res` of `build_C_matrix_dimension_wise` for two grid points -/
def resNU (ti tj : List (Rat × Rat × Rat)) : Rat :=
  ((List.range ti.length).map fun d => termNU ti tj d).sum

/-- `build_C_matrix_dimension_wise(gridPointCoordsAsStripes, _)` -/
def cMatrixNU (stripes : List (List Rat)) : Mat := mirrored (pointsNU stripes) resNU

/-! ## The linear systems -/

def dot (u v : Vec) : Rat := (List.zipWith (· * ·) u v).sum
def vadd (u v : Vec) : Vec := List.zipWith (· + ·) u v
def vsub (u v : Vec) : Vec := List.zipWith (· - ·) u v
def vsmul (c : Rat) (u : Vec) : Vec := u.map (c * ·)
def mulVec (M : Mat) (v : Vec) : Vec := M.map (dot · v)
def madd (X Y : Mat) : Mat := List.zipWith vadd X Y
def msmul (c : Rat) (X : Mat) : Mat := X.map (vsmul c)
def zeroVec (n : Nat) : Vec := List.replicate n 0
def zeroMat (n : Nat) : Mat := List.replicate n (zeroVec n)
def outer (u v : Vec) : Mat := u.map fun a => vsmul a v
/-- `np.identity(n)` -/
def idMat : Nat → Mat
  | 0 => []
  | n + 1 => (1 :: zeroVec n) :: (idMat n).map (0 :: ·)

/-- `np.dot(A.T, A)` for `A` with `n` columns (sum of the outer products of the rows) -/
def AtA (n : Nat) (A : Mat) : Mat := A.foldr (fun row acc => madd (outer row row) acc) (zeroMat n)

/-- `A.T.dot(r)` (linear combination of the rows of `A`) -/
def Atv (n : Nat) : Mat → Vec → Vec
  | row :: A, r :: rs => vadd (vsmul r row) (Atv n A rs)
  | _, _ => zeroVec n

/-- `build_left_matrix` / the left side in `solve_regression_dimension_wise_smooth`:
`(1/m) AᵀA + λ M` with `m = len(training_target_values)` -/
def lhs (n : Nat) (A : Mat) (y : Vec) (lam : Rat) (M : Mat) : Mat :=
  madd (msmul (1 / (y.length : Rat)) (AtA n A)) (msmul lam M)

/-- `build_right_vector`: `(1/m) Aᵀ y` -/
def rhs (n : Nat) (A : Mat) (y : Vec) : Vec := vsmul (1 / (y.length : Rat)) (Atv n A y)

/-- residual of the system the code hands to `numpy.linalg.lstsq` at `α`:
`regularization == 0` → `lstsq(A, y)` (normal equations `AᵀA α = Aᵀ y`), else `lstsq(lhs, rhs)` -/
def residual (n : Nat) (A : Mat) (y : Vec) (lam : Rat) (M : Mat) (α : Vec) : Vec :=
  if lam = 0 then vsub (mulVec (AtA n A) α) (Atv n A y)
  else vsub (mulVec (lhs n A y lam M) α) (rhs n A y)

/-- the functional that is minimised: `(1/m) Σ (A α − y)_i² + λ αᵀ M α` -/
def objective (A : Mat) (y : Vec) (lam : Rat) (M : Mat) (β : Vec) : Rat :=
  (1 / (y.length : Rat)) * dot (vsub (mulVec A β) y) (vsub (mulVec A β) y) + lam * dot β (mulVec M β)

/-! ## Coefficient optimisation ("Opticom"): all three variants end with a division by the sum -/

/-- `coefs / np.sum(coefs)`; `none` when the sum is 0 (the code then produces `nan`/`inf`) -/
def normalize? (c : Vec) : Option Vec :=
  if c.sum = 0 then none else some (c.map (· / c.sum))

/-- option 3 before the normalisation: `coefficients[i] / error_vec[i]`; `none` when an error is 0 -/
def errWeights? (coefs errs : Vec) : Option Vec :=
  if errs.any (· == 0) then none else some (List.zipWith (· / ·) coefs errs)

/-- `optimize_coefficients_error_per_grid` -/
def opticom3 (coefs errs : Vec) : Option Vec := (errWeights? coefs errs).bind normalize?

/-- options 1 and 2: `sol` is what `numpy.linalg.lstsq` returned -/
def opticom12 (sol : Vec) : Option Vec := normalize? sol

end SparseSpace.Regress

