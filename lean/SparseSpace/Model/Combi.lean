/-!
# Model of `sparseSpACE/combiScheme.py` (class `CombiScheme`)

Import-free, executable.  Python `set`s are duplicate-free lists, in-place mutation is a returned state.
Level-vector entries are `Int` because the code forms `l - 1` below `lmin` before testing it.
-/
namespace SparseSpace

abbrev LV := List Int

structure CS where
  dim : Nat
  lmin : Int
  lmax : Int
  lmaxAd : Int
  active : List LV
  old : List LV
deriving Repr

/-- `CombiScheme.getGrids(dim_left, values_left)` (structural on `dim_left`; `dim_left = 0` does not
terminate in the code and is excluded by every caller). -/
def getGrids : Nat → Int → List LV
  | 0, _ => []
  | 1, v => [[v]]
  | (n+2), v =>
      (List.range v.toNat).flatMap fun (idx : Nat) =>
        (getGrids (n+1) (v - (idx : Int))).map fun g => ((idx : Int) + 1) :: g

def shiftGrids (lmin : Int) (gs : List LV) : List LV := gs.map (·.map (· + (lmin - 1)))

/-- `set(list)`: keep first occurrences. -/
def dedup (l : List LV) : List LV :=
  l.foldl (fun acc x => if acc.contains x then acc else acc ++ [x]) []

/-- `init_active_index_set` -/
def initActive (lmax lmin : Int) (dim : Nat) : List LV :=
  dedup (shiftGrids lmin (getGrids dim (lmax - lmin + 1)))

/-- `init_old_index_set` -/
def initOld (lmax lmin : Int) (dim : Nat) : List LV :=
  dedup ((List.range (lmax - lmin).toNat).flatMap fun (q' : Nat) =>
    shiftGrids lmin (getGrids dim (lmax - lmin + 1 - ((q' : Int) + 1))))

/-- `init_adaptive_combi_scheme(lmax, lmin)` (its asserts `lmax ≥ lmin ≥ 0` are hypotheses of the theorems) -/
def CS.init (dim : Nat) (lmax lmin : Int) : CS :=
  { dim, lmin, lmax, lmaxAd := lmax, active := initActive lmax lmin dim, old := initOld lmax lmin dim }

/-- `levelvec[d] += δ` -/
def bump (l : LV) (d : Nat) (δ : Int) : LV := l.modify d (· + δ)

/-- the test inside `__refine_scheme`: every backward neighbour of `lv'` is old or below `lmin` -/
def CS.admissible (s : CS) (lv' : LV) : Bool :=
  (List.range s.dim).all fun k =>
    let c := bump lv' k (-1)
    !( !(s.old.contains c) && !(c.getD k 0 < s.lmin) )

/-- `__refine_scheme(d, levelvec)` -/
def CS.refineScheme (s : CS) (d : Nat) (lv : LV) : CS × Bool :=
  let lv' := bump lv d 1
  if s.admissible lv' then
    ({ s with active := if s.active.contains lv' then s.active else s.active ++ [lv'],
              lmaxAd := max s.lmaxAd (lv'.getD d 0) }, true)
  else (s, false)

/-- the loop `for d in range(dim): if __refine_scheme(d, levelvec): refined_dims.append(d)` -/
def CS.refineDims (s : CS) (lv : LV) (ds : List Nat) : CS × List Nat :=
  ds.foldl (fun (acc : CS × List Nat) d =>
      let r := acc.1.refineScheme d lv
      (r.1, if r.2 then acc.2 ++ [d] else acc.2)) (s, [])

/-- `update_adaptive_combi(levelvec)`; `none` is Python's `None` (not refinable: state unchanged) -/
def CS.update (s : CS) (lv : LV) : CS × Option (List Nat) :=
  if !(s.active.contains lv) then (s, none) else
  let s1 := { s with active := s.active.erase lv,
                     old := if s.old.contains lv then s.old else s.old ++ [lv] }
  let r := s1.refineDims lv (List.range s.dim)
  (r.1, some r.2)

/-- `get_cross_product` of the per-dimension stencils `[0]` (at `lmin`) / `[0,-1]` -/
def stencils (lmin : Int) : LV → List LV
  | [] => [[]]
  | g :: gs => (if g ≤ lmin then [0] else [0, -1]).flatMap fun s => (stencils lmin gs).map (s :: ·)

/-- `grid_dict[k] += v` / `grid_dict[k] = v` -/
def addTo (m : List (LV × Int)) (k : LV) (v : Int) : List (LV × Int) :=
  if m.any (·.1 == k) then m.map (fun p => if p.1 == k then (p.1, p.2 + v) else p) else m ++ [(k, v)]

/-- `-(abs(sum(s)) % 2) + (abs(sum(s) - 1) % 2)` -/
def updCoeff (st : LV) : Int :=
  -(((st.foldl (· + ·) 0).natAbs % 2 : Nat) : Int) + ((((st.foldl (· + ·) 0) - 1).natAbs % 2 : Nat) : Int)

/-- all `(levelvec, update_coefficient)` pairs the double loop of `get_coefficients_to_index_set` produces -/
def stencilEntries (lmin : Int) (idx : List LV) : List (LV × Int) :=
  idx.flatMap fun g => (stencils lmin g).map fun st => (List.zipWith (· + ·) g st, updCoeff st)

/-- `self.active_index_set | self.old_index_set` -/
def CS.indexSet (s : CS) : List LV := s.old ++ s.active.filter (fun a => !s.old.contains a)

/-- `get_coefficients_to_index_set(index_set)`: dictionary accumulation, zero entries dropped -/
def coeffsOf (lmin : Int) (idx : List LV) : List (LV × Int) :=
  ((stencilEntries lmin idx).foldl (fun m e => addTo m e.1 e.2) []).filter (·.2 != 0)

/-- adaptive `getCombiScheme` -/
def CS.coeffs (s : CS) : List (LV × Int) := coeffsOf s.lmin s.indexSet

/-- `a ≤ b` componentwise (same length) -/
def leAll : LV → LV → Bool
  | [], [] => true
  | x :: xs, y :: ys => decide (x ≤ y) && leAll xs ys
  | _, _ => false

/-- sum of the coefficients of the returned grids that dominate `t` -/
def domSum (c : List (LV × Int)) (t : LV) : Int :=
  ((c.filter (fun p => leAll t p.1)).map (·.2)).sum

def fact : Nat → Nat
  | 0 => 1
  | n+1 => (n+1) * fact n

/-- non-adaptive `getCombiScheme(lmin, lmax)`: the closed form `(-1)^q * C(dim-1, q)`;
Python computes it in floats (`/`), the quotient is an exact integer. -/
def stdScheme (dim : Nat) (lmin lmax : Int) : List (LV × Int) :=
  (List.range (min (dim : Int) (lmax - lmin + 1)).toNat).flatMap fun (q : Nat) =>
    let coeff : Int := (if q % 2 == 0 then 1 else -1) * ((fact (dim - 1) / (fact q * fact (dim - 1 - q)) : Nat) : Int)
    (shiftGrids lmin (getGrids dim (lmax - lmin + 1 - (q : Int)))).map fun g => (g, coeff)

def runOps (s : CS) (ops : List LV) : CS := ops.foldl (fun s lv => (s.update lv).1) s

end SparseSpace
