/-!
# Model of the hierarchical-basis machinery (C10)

Mirrors, over `Rat` (exact; floating-point rounding is not modelled):

* `sparseSpACE/BasisFunctions.py`: `LagrangeBasis` (`__init__` factor, `__call__`, `get_first_derivative` =
  `derivative_for_index(x,[index])`, `get_integral`), `LagrangeBasisRestricted` (`point_in_support`,
  `get_boundaries`, the three restricted evaluations, `get_integral` clipped to `[a,b]`), `BSpline` (`recursive_eval`, `chi`,
  `get_first_derivative_recursive`, `get_integral`), `HierarchicalNotAKnotBSpline` (dispatch only);
* `sparseSpACE/Grid.py`: knot selection of `GlobalLagrangeGrid.compute_1D_quad_weights` / `LagrangeGrid1D`
  (`get_parent`, the `p+1` window), `BasisGrid.interpolate` / `GlobalBasisGrid.interpolate`;
* `sparseSpACE/Hierarchization.py`: `HierarchizationLSG.__call__`, `hierarchize_poles_for_dim`.

Import-free and executable; `Drive/C10.lean` runs exactly these definitions.
`numpy.linalg.solve` / `qr`+`solve_triangular` are modelled as ONE exact linear solve (`gaussSolve`); a singular
matrix is `none`.  Index errors of the Python code are `none`/`0` branches guarded by explicit hypotheses in the theorems.
-/
namespace SparseSpace.Hier

abbrev Vec := List Rat
abbrev Mat := List (List Rat)

/-! ## Lagrange basis on a knot list -/

/-- `Π_k f k` over a list (the running product `result *= …`) -/
def prodAll (f : Rat → Rat) : List Rat → Rat
  | [] => 1
  | k :: ks => f k * prodAll f ks

/-- `for i, knot in enumerate(knots): if index != i: result *= f(knots[i])` -/
def prodExcept (f : Rat → Rat) : List Rat → Nat → Rat
  | [], _ => 1
  | _ :: ks, 0 => prodAll f ks
  | k :: ks, i + 1 => f k * prodExcept f ks i

/-- `LagrangeBasis.__init__`: `factor = Π_{i≠index} 1/(knots[index] - knots[i])` -/
def lagFactor (knots : List Rat) (i : Nat) : Rat :=
  match knots[i]? with
  | some xi => prodExcept (fun k => 1 / (xi - k)) knots i
  | none => 0

/-- `LagrangeBasis.__call__`: `Π_{i≠index} (x - knots[i]) * factor` -/
def lagrange (knots : List Rat) (i : Nat) (x : Rat) : Rat :=
  prodExcept (fun k => x - k) knots i * lagFactor knots i

/-- outer loop of `derivative_for_index(x, [index])` over the knots other than `index` (list `all`), position `a`
onwards: `Σ_a (Π_{b≠a} g b) * h a` with the inner product recomputed for every `a` as in the code -/
def derivLoop (g h : Rat → Rat) (all : List Rat) : List Rat → Nat → Rat
  | [], _ => 0
  | k :: ks, a => prodExcept g all a * h k + derivLoop g h all ks (a + 1)

/-- `LagrangeBasis.get_first_derivative(x)` = `derivative_for_index(x, [index])`:
`Σ_{i≠index} [Π_{j≠index, j≠i} (x - x_j)/(x_index - x_j)] * 1/(x_index - x_i)` -/
def lagDeriv (knots : List Rat) (i : Nat) (x : Rat) : Rat :=
  match knots[i]? with
  | some xi =>
    let o := knots.eraseIdx i
    derivLoop (fun k => (x - k) / (xi - k)) (fun k => 1 / (xi - k)) o o 0
  | none => 0

/-- `LagrangeBasisRestricted.get_boundaries`: `knots[max(0,index-1)], knots[min(index+1, len-1)]` -/
def support (knots : List Rat) (i : Nat) : Option (Rat × Rat) :=
  match knots[i - 1]?, knots[min (i + 1) (knots.length - 1)]? with
  | some a, some b => some (a, b)
  | _, _ => none

/-- `point_in_support` -/
def inSupport (knots : List Rat) (i : Nat) (x : Rat) : Bool :=
  match support knots i with
  | some (a, b) => decide (a ≤ x) && decide (x ≤ b)
  | none => false

/-- `LagrangeBasisRestricted.__call__` -/
def lagrangeR (knots : List Rat) (i : Nat) (x : Rat) : Rat :=
  if inSupport knots i x then lagrange knots i x else 0

/-- `LagrangeBasisRestricted.get_first_derivative` -/
def lagDerivR (knots : List Rat) (i : Nat) (x : Rat) : Rat :=
  if inSupport knots i x then lagDeriv knots i x else 0

/-- the Gauss–Legendre transport used by every `get_integral`:
`Σ_k w_k (r-l)/2 * f(l + (c_k+1)(r-l)/2)` for nodes `c`, weights `w` given on `[-1,1]` -/
def glRule (f : Rat → Rat) (l r : Rat) (c w : List Rat) : Rat :=
  (List.zipWith (fun ck wk => f ((ck + 1) * ((r - l) / 2) + l) * (wk * (r - l) / 2)) c w).sum

/-- `LagrangeBasis.get_integral(a,b,coords,weights)` -/
def lagIntegral (knots : List Rat) (i : Nat) (a b : Rat) (c w : List Rat) : Rat :=
  glRule (lagrange knots i) a b c w

/-- `LagrangeBasisRestricted.get_integral(a,b,coords,weights)`: the rule is applied on the part of the support
inside `[a,b]` (`max(left,a)`, `min(right,b)`; empty intersection: `0.0`) -/
def lagIntegralR (knots : List Rat) (i : Nat) (a b : Rat) (c w : List Rat) : Rat :=
  match support knots i with
  | some (l, r) =>
    let l' := max l a
    let r' := min r b
    if r' ≤ l' then 0 else glRule (lagrangeR knots i) l' r' c w
  | none => 0

/-! ## B-splines (Cox–de Boor as coded) -/

/-- `BSpline.recursive_eval(x,p,k)` with `chi` half-open at the right -/
def bspline (knots : List Rat) (x : Rat) : Nat → Nat → Rat
  | 0, k =>
    if x < knots.getD k 0 || x > knots.getD (k + 1) 0 then 0
    else if knots.getD k 0 ≤ x && x < knots.getD (k + 1) 0 then 1 else 0
  | p + 1, k =>
    if x < knots.getD k 0 || x > knots.getD (k + p + 2) 0 then 0
    else
      (x - knots.getD k 0) / (knots.getD (k + p + 1) 0 - knots.getD k 0) * bspline knots x p k
      + (knots.getD (k + p + 2) 0 - x) / (knots.getD (k + p + 2) 0 - knots.getD (k + 1) 0) * bspline knots x p (k + 1)

/-- `BSpline.get_first_derivative_recursive(x,p,k)` -/
def bsplineDeriv (knots : List Rat) (x : Rat) : Nat → Nat → Rat
  | 0, _ => 0
  | p + 1, k =>
    let dh1 := 1 / (knots.getD (k + p + 1) 0 - knots.getD k 0)
    let dh2 := 1 / (knots.getD (k + p + 2) 0 - knots.getD (k + 1) 0)
    dh1 * bspline knots x p k - dh2 * bspline knots x p (k + 1)
    + (x - knots.getD k 0) / (knots.getD (k + p + 1) 0 - knots.getD k 0) * bsplineDeriv knots x p k
    + (knots.getD (k + p + 2) 0 - x) / (knots.getD (k + p + 2) 0 - knots.getD (k + 1) 0) * bsplineDeriv knots x p (k + 1)

/-- `BSpline.get_integral` / `HierarchicalNotAKnotBSpline.get_integral`: the rule on every knot span
`startIndex ≤ i < endIndex` clipped to `[a,b]` -/
def spanIntegral (f : Rat → Rat) (knots : List Rat) (startIdx endIdx : Nat) (a b : Rat) (c w : List Rat) : Rat :=
  ((List.range (endIdx - startIdx)).map fun (j : Nat) =>
    let i := startIdx + j
    let kl := knots.getD i 0
    let kr := knots.getD (i + 1) 0
    if kr ≥ a && kl ≤ b then glRule f (max kl a) (min kr b) c w else 0).sum

/-! ## Basis descriptors -/

/-- the basis objects the grids create -/
inductive Basis where
  | lag (knots : List Rat) (i : Nat)            -- `LagrangeBasis`
  | lagR (knots : List Rat) (i : Nat)           -- `LagrangeBasisRestricted`
  | bsp (p : Nat) (knots : List Rat) (k : Nat)  -- `BSpline`
deriving Repr

def Basis.eval : Basis → Rat → Rat
  | .lag kn i, x => lagrange kn i x
  | .lagR kn i, x => lagrangeR kn i x
  | .bsp p kn k, x => bspline kn x p k

def Basis.deriv : Basis → Rat → Rat
  | .lag kn i, x => lagDeriv kn i x
  | .lagR kn i, x => lagDerivR kn i x
  | .bsp p kn k, x => bsplineDeriv kn x p k

/-- `get_integral(a,b,c,w)` of the object (`startIdx`,`endIdx` of a `HierarchicalNotAKnotBSpline` whose spline is a
`LagrangeBasis` are `0, len-1`) -/
def Basis.integral : Basis → Rat → Rat → List Rat → List Rat → Rat
  | .lag kn i, a, b, c, w => lagIntegral kn i a b c w
  | .lagR kn i, a, b, c, w => lagIntegralR kn i a b c w
  | .bsp p kn k, a, b, c, w => spanIntegral (fun x => bspline kn x p k) kn k (k + p + 1) a b c w

/-! ## Knot selection of the hierarchical Lagrange grids -/

/-- `get_parent(point, grid_1D, grid_levels)`: nearest point of level `level-1`, first to the left (stopping at a
lower level), then to the right; `none` is the code's `assert False` -/
def scanParent (lev : Nat) : List (Rat × Nat) → Option Rat
  | [] => none
  | (x, l) :: rest => if l + 1 == lev then some x else if l + 1 < lev then none else scanParent lev rest

def getParent (grid : List (Rat × Nat)) (idx : Nat) : Option Rat :=
  match grid[idx]? with
  | none => none
  | some (_, lev) =>
    match scanParent lev (grid.take idx).reverse with
    | some x => some x
    | none => scanParent lev (grid.drop (idx + 1))

/-- insertion into a sorted list (`sorted(parents + [x])`) -/
def insertSorted (x : Rat) : List Rat → List Rat
  | [] => [x]
  | y :: ys => if x ≤ y then x :: y :: ys else y :: insertSorted x ys

/-- position of `x` (`list.index`) -/
def indexOf (x : Rat) : List Rat → Nat
  | [] => 0
  | y :: ys => if x == y then 0 else indexOf x ys + 1

/-- the `p+1`-knot window around `x` -/
def window (p : Nat) (knots : List Rat) (x : Rat) : List Rat :=
  if knots.length > p + 1 then
    let ix := indexOf x knots
    let right := knots.length - ix - 1
    if ix < (p + 1) / 2 then knots.take (p + 1)
    else if right < p / 2 then knots.drop (knots.length - (p + 1))
    else (knots.drop (ix - (p + 1) / 2)).take (p + 1)
  else knots

/-- lookup in the `parents` dictionary -/
def lookup (x : Rat) : List (Rat × List Rat) → Option (List Rat)
  | [] => none
  | (y, v) :: rest => if x == y then some v else lookup x rest

/-- the loop `for l in range(starting_level, max_level+1): for x_basis in level_coordinate_array[l]` of
`GlobalLagrangeGrid.compute_1D_quad_weights` (and of `LagrangeGrid1D`, which always takes the `boundary` branch at
level 1).  Returns for every processed point `(x, windowed knots, index of x in them)`; `none` = `assert False`. -/
def knotLoop (p : Nat) (boundary : Bool) (grid : List (Rat × Nat)) (lvl0 lvl1 : List Rat) :
    List (Nat × Nat) → List (Rat × List Rat) → List (Rat × List Rat × Nat) → Option (List (Rat × List Rat × Nat))
  | [], _, acc => some acc.reverse
  | (l, idx) :: rest, parents, acc =>
    match grid[idx]? with
    | none => none
    | some (x, _) =>
      let full : Option (List Rat) :=
        if l == 0 then some lvl0
        else if l == 1 then (if boundary then some ((lvl0 ++ lvl1).mergeSort (· ≤ ·)) else some (lvl1.mergeSort (· ≤ ·)))
        else match getParent grid idx with
          | none => none
          | some par => match lookup par parents with
            | none => none
            | some pk => some (insertSorted x pk)
      match full with
      | none => none
      | some kn =>
        let wk := window p kn x
        knotLoop p boundary grid lvl0 lvl1 rest ((x, kn) :: parents) ((x, wk, indexOf x wk) :: acc)

/-- processing order: by level, inside a level by position -/
def levelOrder (grid : List (Rat × Nat)) (start maxl : Nat) : List (Nat × Nat) :=
  (List.range (maxl + 1 - start)).flatMap fun (j : Nat) =>
    let l := start + j
    (List.range grid.length).filterMap fun (idx : Nat) =>
      match grid[idx]? with
      | some (_, l') => if l' == l then some (l, idx) else none
      | none => none

/-- knots and index of the `LagrangeBasisRestricted` of every grid point that gets one -/
def hierKnots (p : Nat) (boundary : Bool) (grid : List (Rat × Nat)) : Option (List (Rat × List Rat × Nat)) :=
  let maxl := grid.foldl (fun m q => max m q.2) 0
  let lvl0 := (grid.filter (·.2 == 0)).map (·.1)
  let lvl1 := (grid.filter (·.2 == 1)).map (·.1)
  knotLoop p boundary grid lvl0 lvl1 (levelOrder grid (if boundary then 0 else 1) maxl) [] []

/-! ## Hierarchisation (`HierarchizationLSG`) and interpolation -/

def dot (a b : Vec) : Rat := (List.zipWith (· * ·) a b).sum

def mulVec (B : Mat) (v : Vec) : Vec := B.map (dot · v)

/-- one dimension of a grid: its 1-D basis functions and its 1-D coordinates (`get_basis(d,j)`,
`get_coordinates_dim(d)`) -/
structure Dim1 where
  basis : List (Rat → Rat)
  xs : List Rat

def Dim1.n (D : Dim1) : Nat := D.xs.length

/-- `matrix[i,j] = get_basis(d,j)(get_coordinates_dim(d)[i])` -/
def colloc (D : Dim1) : Mat := D.xs.map fun x => D.basis.map fun φ => φ x

/-- `np.prod(numPoints[d+1:])` -/
def size : List Dim1 → Nat
  | [] => 1
  | D :: rest => D.n * size rest

/-- split a flat row-major array into `k` consecutive chunks of length `m` -/
def splitChunks (m : Nat) : Nat → Vec → List Vec
  | 0, _ => []
  | k + 1, T => T.take m :: splitChunks m k (T.drop m)

/-- transposition by index access: `cnt` lists, the `q`-th collecting the `q`-th entries -/
def tr (cnt : Nat) (L : List Vec) : List Vec :=
  (List.range cnt).map fun (q : Nat) => L.map fun v => v.getD q 0

/-- `Option`-valued map that fails as soon as one element fails -/
def mapOpt {α β : Type} (f : α → Option β) : List α → Option (List β)
  | [] => some []
  | a :: as =>
    match f a, mapOpt f as with
    | some b, some bs => some (b :: bs)
    | _, _ => none

/-- the solve of one pole: `numPoints[d] == 1` asserts `basis(x_0) = 1` and leaves the value; otherwise the linear
system with the collocation matrix is solved (dense below 15 points, QR from 15 points on: the same exact solve) -/
def poleSolve (solver : Mat → Vec → Option Vec) (D : Dim1) (v : Vec) : Option Vec :=
  if D.n == 1 then (if colloc D == [[1]] then some v else none)
  else solver (colloc D) v

/-- `HierarchizationLSG.__call__` on ONE component of the table (flat, row-major, dimension 0 slowest):
dimension `d = 0` first — every pole is a column of the chunk matrix —, then the remaining dimensions, which act
inside each chunk (unidirectional principle: later dimensions see the surpluses of the earlier ones). -/
def hier (solver : Mat → Vec → Option Vec) : List Dim1 → Vec → Option Vec
  | [], T => some T
  | D :: rest, T =>
    let m := size rest
    match mapOpt (poleSolve solver D) (tr m (splitChunks m D.n T)) with
    | none => none
    | some cols =>
      match mapOpt (hier solver rest) (tr D.n cols) with
      | none => none
      | some chunks => some chunks.flatten

/-- all components (`for n in range(value_length)`) -/
def hierTable (solver : Mat → Vec → Option Vec) (dims : List Dim1) (tab : List Vec) : Option (List Vec) :=
  mapOpt (hier solver dims) tab

/-- `Σ_index surplus[index] * Π_d evaluations[d][index_d]` for ONE evaluation point, `rows[d]` = the values of all
basis functions of dimension `d` at the point's `d`-th coordinate; the row-major sum is nested by dimension -/
def interpPoint : List Vec → Vec → Rat
  | [], S => match S with
    | [s] => s
    | _ => 0
  | r :: rs, S =>
    dot r ((splitChunks ((rs.map List.length).foldr (· * ·) 1) r.length S).map (interpPoint rs))

/-- `evaluations1D[j,:]` for coordinate `y` -/
def evalRow (D : Dim1) (y : Rat) : Vec := D.basis.map fun φ => φ y

/-- `BasisGrid.interpolate` / `GlobalBasisGrid.interpolate` at one point `y`, one component -/
def interp (dims : List Dim1) (y : List Rat) (S : Vec) : Rat :=
  interpPoint (List.zipWith evalRow dims y) S

/-- row-major position of a multi-index (`get_1D_coordinate` with `offsets`) -/
def flatIdx : List Dim1 → List Nat → Nat
  | _ :: rest, i :: is => i * size rest + flatIdx rest is
  | _, _ => 0

/-- coordinates of the grid node with multi-index `p` -/
def nodeCoords : List Dim1 → List Nat → List Rat
  | D :: rest, i :: is => D.xs.getD i 0 :: nodeCoords rest is
  | _, _ => []

/-- `p` is a valid multi-index of the grid -/
def validIdx : List Dim1 → List Nat → Prop
  | [], [] => True
  | D :: rest, i :: is => i < D.n ∧ validIdx rest is
  | _, _ => False

/-! ## exact linear solve (model of `numpy.linalg.solve`) -/

/-- remove the first element satisfying `pr`, returning it and the rest -/
def pickFirst {α : Type} (pr : α → Bool) : List α → Option (α × List α)
  | [] => none
  | a :: as => if pr a then some (a, as) else
    match pickFirst pr as with
    | some (b, bs) => some (b, a :: bs)
    | none => none

/-- Gaussian elimination on augmented rows `[a_0,…,a_{n-1} | b]` for `n` unknowns (any order of the equations):
pick an equation with non-zero leading coefficient, eliminate the first unknown from the others, solve the
smaller system, back-substitute.  `none` = singular (`LinAlgError`). -/
def gauss : Nat → List (List Rat) → Option Vec
  | 0, _ => some []
  | n + 1, rows =>
    match pickFirst (fun r => r.headD 0 != 0) rows with
    | none => none
    | some (piv, others) =>
      let a := piv.headD 0
      let pt := piv.tail
      let reduced := others.map fun r =>
        let c := r.headD 0 / a
        List.zipWith (fun rj pj => rj - c * pj) r.tail pt
      match gauss n reduced with
      | none => none
      | some xs =>
        let coeffs := pt.take n
        let rhs := pt.getD n 0
        some ((rhs - dot coeffs xs) / a :: xs)

def gaussSolve (B : Mat) (v : Vec) : Option Vec :=
  if B.length == v.length && B.all (·.length == v.length) then
    gauss v.length (List.zipWith (fun r b => r ++ [b]) B v)
  else none

/-! ## refinement trees (inductive characterisation of the valid 1-D point sets of the hierarchical Lagrange grids) -/

/-- dyadic refinement tree below an interval: a `node` splits the interval at its midpoint; the midpoint gets the
level of the interval + 1 -/
inductive RTree where
  | leaf : RTree
  | node (l r : RTree) : RTree

/-- one grid point: coordinate, level, windowed knots, index of the point in them -/
structure HNode where
  x : Rat
  lev : Nat
  knots : List Rat
  idx : Nat

/-- the basis function of the point: `LagrangeBasisRestricted(p, idx, knots)` -/
def HNode.phi (e : HNode) : Rat → Rat := lagrangeR e.knots e.idx

/-- in-order traversal of the points strictly inside `(lo,hi)`; `F` = the full (un-windowed) knot list inherited from
the parent (`parents[parent]`: the end points and all ancestors), to which the point itself is added; `p+1` window -/
def RTree.nodes (p : Nat) : RTree → Rat → Rat → Nat → List Rat → List HNode
  | .leaf, _, _, _, _ => []
  | .node l r, lo, hi, lv, F =>
    let m := (lo + hi) / 2
    let F' := insertSorted m F
    let W := window p F' m
    l.nodes p lo m (lv + 1) F' ++ { x := m, lev := lv + 1, knots := W, idx := indexOf m W } :: r.nodes p m hi (lv + 1) F'

/-- the whole 1-D grid on `[a,b]` (boundary points of level 0 with the knots `[a,b]`) -/
def RTree.grid (p : Nat) (t : RTree) (a b : Rat) : List HNode :=
  { x := a, lev := 0, knots := window p [a, b] a, idx := indexOf a (window p [a, b] a) }
    :: t.nodes p a b 0 [a, b]
    ++ [{ x := b, lev := 0, knots := window p [a, b] b, idx := indexOf b (window p [a, b] b) }]

/-- the dimension of a hierarchical Lagrange grid of order `p` on the tree -/
def RTree.dim1 (p : Nat) (t : RTree) (a b : Rat) : Dim1 :=
  { basis := (t.grid p a b).map HNode.phi, xs := (t.grid p a b).map HNode.x }

/-- the tree of a sorted point list with levels, if it is one: the midpoint of `(lo,hi)` must carry level `lv+1`
(fuel = number of points) -/
def RTree.ofPoints : Nat → List (Rat × Nat) → Rat → Rat → Nat → Option RTree
  | 0, pts, _, _, _ => if pts.isEmpty then some .leaf else none
  | fuel + 1, pts, lo, hi, lv =>
    if pts.isEmpty then some .leaf else
    let m := (lo + hi) / 2
    let left := pts.filter fun q => decide (q.1 < m)
    let right := pts.filter fun q => decide (m < q.1)
    if pts.any (fun q => q.1 == m && q.2 == lv + 1) && left.length + right.length + 1 == pts.length
        && pts.all (fun q => decide (lo < q.1) && decide (q.1 < hi)) then
      match RTree.ofPoints fuel left lo m (lv + 1), RTree.ofPoints fuel right m hi (lv + 1) with
      | some l, some r => some (.node l r)
      | _, _ => none
    else none

end SparseSpace.Hier
