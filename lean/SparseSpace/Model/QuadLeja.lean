import SparseSpace.Model.Quad
/-!
# Model of `LejaGrid1D.compute_1D_quad_weights` / `get_1d_points_and_weights` (sparseSpACE/Grid.py)

The code takes the reference points `t_0 < … < t_{n-1}` on `[0,1]` (found with `fmin`: NOT modelled, the points are an
arbitrary input here; with `boundary=False` they are the points kept after slicing with `lowerBorder:upperBorder`), builds
`V[i,j] = eval_sh_legendre(j, t_i)·sqrt(2j+1)` and returns the first row of `numpy.linalg.inv(V)`, i.e. the `w` with
`Σ_i w_i φ_j(t_i) = δ_{j0}` for `j < n`; then `weights = w·length`, `coords = t·length + start`.

Import-free and executable over `Rat`: the irrational column factors `sqrt(2j+1)` do not change the first row of the
inverse (`sqrt(1) = 1`), so `codeSystemOk` states the code's own system with the unnormalised shifted Legendre polynomials.
The weights themselves are computed by exact Gauss–Jordan elimination on the equivalent moment system
`Σ_i w_i t_i^j = 1/(j+1)` and are returned only if they satisfy it (`momentsOk`) — a certified computation: the theorems
speak about every output of `lejaRefWeights`, the solver itself needs no correctness proof.
-/
namespace SparseSpace.Quad

/-- the augmented moment system `Σ_i w_i t_i^j = ∫_0^1 t^j dt = 1/(j+1)`, `j < n` (one row per `j`) -/
def momentSystem (ts : List Rat) : List (List Rat) :=
  (List.range ts.length).map fun (j : Nat) => ts.map (fun t => t ^ j) ++ [1 / ((j : Rat) + 1)]

/-- first row with a non-zero entry in column `col`, and the other rows -/
def findPivot (col : Nat) : List (List Rat) → Option (List Rat × List (List Rat))
  | [] => none
  | r :: rs =>
    if r.getD col 0 != 0 then some (r, rs)
    else match findPivot col rs with
      | some (p, rest) => some (p, r :: rest)
      | none => none

/-- Gauss–Jordan elimination on augmented rows; `done` = rows already normalised (pivot columns `< col`, in order) -/
def gaussJordan : Nat → Nat → List (List Rat) → List (List Rat) → Option (List (List Rat))
  | 0, _, done, todo => if todo.isEmpty then some done else none
  | fuel + 1, col, done, todo =>
    match findPivot col todo with
    | none => none
    | some (r, rest) =>
      let p := r.getD col 0
      let r' := r.map (· / p)
      let elim := fun (row : List Rat) => List.zipWith (fun a b => a - row.getD col 0 * b) row r'
      gaussJordan fuel (col + 1) (done.map elim ++ [r']) (rest.map elim)

/-- the certificate: `w` has one weight per point and satisfies all `n` moment equations exactly -/
def momentsOk (ts w : List Rat) : Bool :=
  w.length == ts.length &&
    (List.range ts.length).all fun (j : Nat) => decide (quad ts w (fun t => t ^ j) = 1 / ((j : Rat) + 1))

/-- reference weights on `[0,1]` = exact solution of the linear system, returned only with its certificate -/
def lejaRefWeights (ts : List Rat) : Option (List Rat) :=
  match gaussJordan ts.length 0 [] (momentSystem ts) with
  | none => none
  | some rows =>
    let w := rows.map fun r => r.getD ts.length 0
    if momentsOk ts w then some w else none

/-- `(P_k(x), P_{k+1}(x))` of the Legendre three-term recurrence `(k+1) P_{k+1} = (2k+1) x P_k − k P_{k−1}` -/
def legendrePair : Nat → Rat → Rat × Rat
  | 0, x => (1, x)
  | k + 1, x =>
    let (pk, pk1) := legendrePair k x
    (pk1, (((2 * (k : Rat) + 3) * x * pk1 - ((k : Rat) + 1) * pk) / ((k : Rat) + 2)))

/-- `scipy.special.eval_sh_legendre(j, t)` = `P_j(2t − 1)` -/
def shLegendre (j : Nat) (t : Rat) : Rat := (legendrePair j (2 * t - 1)).1

/-- the code's own system: `w` is the first row of the inverse of `V[i,j] = P*_j(t_i)` -/
def codeSystemOk (ts w : List Rat) : Bool :=
  (List.range ts.length).all fun (j : Nat) => decide (quad ts w (shLegendre j) = if j = 0 then 1 else 0)

/-- `coordsD *= length; coordsD += start` -/
def lejaPoints (ts : List Rat) (start length : Rat) : List Rat := ts.map fun t => t * length + start

/-- `weightsD = compute_1D_quad_weights(coordsD) * length` -/
def lejaWeights (w : List Rat) (length : Rat) : List Rat := w.map fun v => v * length

end SparseSpace.Quad
