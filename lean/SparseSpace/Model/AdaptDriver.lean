/-!
# Model of the adaptive driver (`sparseSpACE/spatiallyAdaptiveBase.py`, `continue_adaptive_refinement`)

Import-free, executable.  The refinement strategy is ABSTRACT: a state type `S`, `eval : S → S × Obs`
(= `evaluate_operation()` + `initialize_grid()` + `get_total_num_points()`), `refine : S → S` (= `refine()`).
The `while True` loop becomes fuelled recursion; `none` = "did not stop within the fuel" (the real loop need not
terminate: `tol = -1`, `max_evaluations = None`).  In-place mutation is a returned state.
Also here: the error formula of `Integration.get_global_error_estimate`, `RefinementContainer.set_benefit`,
the `f_dict` cache as a duplicate-free list, persistence as a pair `save/restore`, and two small concrete machines
that mirror the two accumulation disciplines of the strategies (incremental = extend–split, from scratch =
dimension-wise).
-/
namespace SparseSpace.Adapt

/-! ## the loop -/

/-- what one pass of the loop body observes before the stopping tests:
`error`, `num_evaluations = get_total_num_points()`, `surplus_error` -/
structure Obs where
  err : Rat
  pts : Nat
  sur : Rat
deriving DecidableEq, Repr

/-- `tol`, `min_evaluations`, `max_evaluations` (`None` = unbounded).  `max_time` is outside the model. -/
structure Limits where
  tol : Rat
  minE : Int
  maxE : Option Int
deriving DecidableEq, Repr

/-- the stopping tests of `continue_adaptive_refinement`, in the order and with the strictness coded:
`if error <= tol and num_evaluations >= min_evaluations: break`
`if max_evaluations is not None and num_evaluations > max_evaluations: break` -/
def stopNow (L : Limits) (o : Obs) : Bool :=
  (decide (o.err ≤ L.tol) && decide (L.minE ≤ (o.pts : Int))) ||
  (match L.maxE with
   | some m => decide (m < (o.pts : Int))
   | none => false)

/-- `error_array`, `num_point_array`, `surplus_error_array` (three separate appends in the code) -/
structure Hist where
  errs : List Rat
  pts : List Nat
  surs : List Rat
deriving DecidableEq, Repr

def Hist.empty : Hist := ⟨[], [], []⟩

/-- `self.error_array.append(error); self.surplus_error_array.append(surplus_error);
self.num_point_array.append(self.get_total_num_points(distinct_function_evals=True))` -/
def Hist.push (h : Hist) (o : Obs) : Hist := ⟨h.errs ++ [o.err], h.pts ++ [o.pts], h.surs ++ [o.sur]⟩

def Hist.pushAll (h : Hist) (os : List Obs) : Hist := os.foldl Hist.push h

structure Machine (S : Type) where
  /-- `evaluate_operation()`; `initialize_grid()`; `get_total_num_points()` -/
  eval : S → S × Obs
  /-- `refine()` -/
  refine : S → S

/-- what `continue_adaptive_refinement` leaves behind / returns -/
structure Result (S : Type) where
  /-- the instance after the last evaluation (NOT refined afterwards) -/
  state : S
  /-- `error`, point count and surplus error of the last evaluation -/
  last : Obs
  hist : Hist
  /-- number of `evaluate_operation` calls of this call of the loop -/
  evals : Nat
  /-- number of `refine` calls of this call of the loop -/
  refines : Nat

/-- `continue_adaptive_refinement`: evaluate, append, test, refine, repeat.  `k` counts finished iterations. -/
def loop {S : Type} (M : Machine S) (L : Limits) : Nat → S → Hist → Nat → Option (Result S)
  | 0, _, _, _ => none
  | fuel + 1, s, h, k =>
    let r := M.eval s
    let h' := h.push r.2
    if stopNow L r.2 then some ⟨r.1, r.2, h', k + 1, k⟩
    else loop M L fuel (M.refine r.1) h' (k + 1)

/-- `performSpatiallyAdaptiv`: empty arrays, then the loop -/
def run {S : Type} (M : Machine S) (L : Limits) (fuel : Nat) (s : S) : Option (Result S) :=
  loop M L fuel s Hist.empty 0

/-- specification vocabulary: the state BEFORE the `i`-th evaluation of an uninterrupted run -/
def iter {S : Type} (M : Machine S) : S → Nat → S
  | s, 0 => s
  | s, i + 1 => iter M (M.refine (M.eval s).1) i

/-- the observation of the `i`-th evaluation -/
def obsAt {S : Type} (M : Machine S) (s : S) (i : Nat) : Obs := (M.eval (iter M s i)).2

/-- the state after the `i`-th evaluation (before any further refinement) -/
def stateAt {S : Type} (M : Machine S) (s : S) (i : Nat) : S := (M.eval (iter M s i)).1

/-- the first `n` observations -/
def obsList {S : Type} (M : Machine S) : S → Nat → List Obs
  | _, 0 => []
  | s, n + 1 => (M.eval s).2 :: obsList M (M.refine (M.eval s).1) n

/-- the machine that replays a recorded observation stream (used by the driver with `fuel = length`):
state = the observations not yet consumed; beyond the end it repeats `dflt`, which is never looked at
when `fuel ≤ length` (theorem `stream_obsAt`). -/
def streamMachine (dflt : Obs) : Machine (List Obs) where
  eval := fun l => (l, l.headD dflt)
  refine := fun l => l.tail

/-! ## stop, save, restore, continue -/

/-- `instance.save_to_file(f); instance = restore_from_file(f)` between the two calls -/
def resumeVia {S B : Type} (save : S → B) (restore : B → S) (M : Machine S) (L1 L2 : Limits) (f1 f2 : Nat) (s : S) :
    Option (Result S) :=
  match run M L1 f1 s with
  | none => none
  | some r1 => loop M L2 f2 (restore (save r1.state)) r1.hist 0

/-- `performSpatiallyAdaptiv(limits L1)` then `continue_adaptive_refinement(limits L2)` on the same instance:
the arrays are not reset, the loop re-evaluates before it tests -/
def resume {S : Type} (M : Machine S) (L1 L2 : Limits) (f1 f2 : Nat) (s : S) : Option (Result S) :=
  match run M L1 f1 s with
  | none => none
  | some r1 => loop M L2 f2 r1.state r1.hist 0

/-- "limits only grow": the second set of limits stops no earlier than the first -/
def Limits.grow (L1 L2 : Limits) : Prop :=
  L2.tol ≤ L1.tol ∧ L1.minE ≤ L2.minE ∧
  (match L1.maxE, L2.maxE with
   | _, none => True
   | none, some _ => False
   | some m1, some m2 => m1 ≤ m2)

/-! ## reported error (`Integration.get_global_error_estimate`, `evaluate_operation`) -/

inductive Norm where
  | inf | one | two
deriving DecidableEq, Repr

def absR (x : Rat) : Rat := if x < 0 then -x else x

def maxR (a b : Rat) : Rat := if a ≤ b then b else a

/-- `LA.norm(abs(v), norm) / len(v) ** (1 / norm)`.  `norm = np.inf`: the maximum (`len ** 0 = 1`);
`norm = 1`: the mean of the absolute values; `norm = 2`: root mean square, of which the model returns the SQUARE
(the mean of the squares) to stay rational. -/
def normVal : Norm → List Rat → Rat
  | .inf, v => v.foldl (fun m x => maxR m (absR x)) 0
  | .one, v => (v.map absR).sum / (v.length : Rat)
  | .two, v => (v.map fun x => x * x).sum / (v.length : Rat)

/-- component-wise `(reference - integral) / reference` -/
def relDev : List Rat → List Rat → List Rat
  | r :: rs, x :: xs => (r - x) / r :: relDev rs xs
  | _, _ => []

/-- `get_global_error_estimate` with a reference solution:
`LA.norm(reference) == 0.0` → absolute; otherwise component-wise relative.  A non-zero reference with a zero
component makes numpy divide by zero (`inf`/`nan`): no rational value, `none`. -/
def globalError (p : Norm) (ref res : List Rat) : Option Rat :=
  if ref.all (· == 0) then some (normVal p res)
  else if ref.any (· == 0) then none
  else some (normVal p (relDev ref res))

/-- `evaluate_operation`: the global estimate if there is a reference, else the total surplus error -/
def reportedError (p : Norm) (ref : Option (List Rat)) (res : List Rat) (totalSurplus : Rat) : Option Rat :=
  match ref with
  | none => some totalSurplus
  | some ref => globalError p ref res

/-- `RefinementContainer.set_benefit` -/
def benefit (error evaluations : Rat) : Rat := if evaluations ≠ 0 then error / evaluations else error

/-- `RefinementContainer.get_total_error` -/
def totalError (errors : List Rat) : Rat := errors.foldl (· + ·) 0

/-- `RefinementContainer.get_max_benefit` -/
def maxBenefit (benefits : List Rat) : Rat := benefits.foldl (fun m b => if b > m then b else m) 0

/-! ## the point cache (`Function.f_dict` between two `reset_dictionary()`) -/

/-- one call `f(points)`: every point not yet a key is added -/
def cacheCall {P : Type} [DecidableEq P] (c : List P) (batch : List P) : List P :=
  batch.foldl (fun c p => if p ∈ c then c else c ++ [p]) c

/-- a sequence of calls -/
def cacheRun {P : Type} [DecidableEq P] (c : List P) (batches : List (List P)) : List P :=
  batches.foldl cacheCall c

/-! ## two concrete accumulation disciplines

`areas` = the combined value of each area in container order; `startNew` = `RefinementContainer.startNewObjects`;
`acc` = `operation.integral`; `vols` = accumulated per-area error indicators (`add_volume` / `area.error`);
`script` = what the next refinements will do (position of the area that is split, values of its children);
`ref` = the reference solution (`none`: the loop works on the total surplus error). -/
structure AccState where
  acc : Rat
  areas : List Rat
  startNew : Nat
  vols : List Rat
  script : List (Nat × List Rat)
  ref : Option Rat
deriving DecidableEq, Repr

def sumR (l : List Rat) : Rat := l.foldl (· + ·) 0

/-- `evaluate_operation`'s return value + `get_total_num_points()` (stand-in: number of areas) -/
def AccState.obs (s : AccState) : Obs :=
  let sur := sumR (s.vols.map absR)
  ⟨(match s.ref with | some r => absR (r - s.acc) | none => sur), s.areas.length, sur⟩

/-- scripted `refine()`: `clear_new_objects()`, split one area, `apply_remove` (+ `process_removed_objects`:
`integral -= removed.value`), children appended and marked new; per-iteration indicators reset
(`reinit_new_objects` in the dimension-wise `refinement_postprocessing`) -/
def accRefine (subtractRemoved : Bool) (s : AccState) : AccState :=
  match s.script with
  | [] => { s with startNew := s.areas.length, vols := s.areas.map fun _ => 0 }
  | (pos, children) :: rest =>
    let removed := s.areas.getD pos 0
    let kept := s.areas.eraseIdx pos
    { s with
      acc := if subtractRemoved then s.acc - removed else s.acc
      areas := kept ++ children
      startNew := kept.length
      vols := (kept ++ children).map fun _ => 0
      script := rest }

/-- extend–split discipline (`SpatiallyAdaptivBase.evaluate_operation` + `Integration.evaluate_area`): only
`get_new_areas()` are computed and ADDED to the running `integral`; since repo commit 48b37d3 the evaluation ends with
`refinement.clear_new_objects()` (`startNewObjects = len(objects)`): nothing is new any more, a second evaluation without
a refinement in between adds nothing.  The indicators are recomputed (assigned), not accumulated. -/
def incEval (s : AccState) : AccState × Obs :=
  let s' := { s with acc := s.acc + sumR (s.areas.drop s.startNew), vols := s.areas, startNew := s.areas.length }
  (s', s'.obs)

/-- dimension-wise discipline (`initialize_evaluation_dimension_wise` resets `integral`, every component grid is
recomputed); the per-interval volumes are accumulated by `add_volume` WITHIN one evaluation only:
`init_evaluation_operation` starts every evaluation from `volume = None` -/
def scrEval (s : AccState) : AccState × Obs :=
  let s' := { s with acc := sumR s.areas, vols := s.areas }
  (s', s'.obs)

def incMachine : Machine AccState := ⟨incEval, accRefine true⟩

def scrMachine : Machine AccState := ⟨scrEval, accRefine false⟩

end SparseSpace.Adapt
