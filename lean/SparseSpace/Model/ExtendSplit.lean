import SparseSpace.Model.Combi
/-!
# Model of the extend–split refinement strategy

Mirrors `sparseSpACE/spatiallyAdaptiveExtendSplit.py` (`SpatiallyAdaptiveExtendScheme`: `initialize_refinement`,
`do_refinement`, `coarsen_grid` versions 0–2, `get_points_in_areas_recursive`), `RefinementObject.py`
(`RefinementObjectExtendSplit`: `refine`, `split_area_arbitrary_dim`, `split_area_single_dim`, `update`, `add_level`,
`is_already_calculated`, `contains`) and the container bookkeeping of `RefinementContainer.py` (`refine`,
`update_values`, `prepare_remove`, `apply_remove`, `add`).

Import-free apart from `Model/Combi` (core Lean only).  Boxes are lists of `(start_d, end_d)` pairs over `Rat`.
The `children` lists of the objects form a first-child/next-sibling forest; every object carries an identity
(creation stamp) and the container is the list of the identities of its objects.
The decisions that the code takes from floating-point error estimates (extend or split when
`automatic_extend_split`, the list `get_split_dims()` when `split_single_dim`) are inputs of `EState.refine`.
-/
namespace SparseSpace

abbrev Box := List (Rat × Rat)
abbrev EPt := List Rat

/-- `RefinementObjectExtendSplit.contains(point)`: closed on both sides in every dimension -/
def boxContains : Box → EPt → Bool
  | [], [] => true
  | iv :: b, x :: xs => !(decide (x < iv.1) || decide (iv.2 < x)) && boxContains b xs
  | _, _ => false

/-- open box (used by the theorems only) -/
def boxInterior : Box → EPt → Bool
  | [], [] => true
  | iv :: b, x :: xs => (decide (iv.1 < x) && decide (x < iv.2)) && boxInterior b xs
  | _, _ => false

/-- product of the side lengths -/
def boxVol : Box → Rat
  | [] => 1
  | iv :: b => (iv.2 - iv.1) * boxVol b

/-- `Grid1d.get_mid_point(a, b) = (a + b) / 2.0` -/
def midPt (lo hi : Rat) : Rat := (lo + hi) / 2

/-- boxes of `split_area_arbitrary_dim` in the order of the code's index arithmetic
(`i = Σ bit_d 2^d`, bit `d` set ⇔ upper half in dimension `d`; dimension 0 varies fastest) -/
def splitAll : Box → List Box
  | [] => [[]]
  | iv :: b => (splitAll b).flatMap fun r => [(iv.1, midPt iv.1 iv.2) :: r, (midPt iv.1 iv.2, iv.2) :: r]

/-- boxes of `split_area_single_dim(d)`: lower and upper half in dimension `d` -/
def splitDim : Box → Nat → Box × Box
  | [], _ => ([], [])
  | iv :: b, 0 => ((iv.1, midPt iv.1 iv.2) :: b, (midPt iv.1 iv.2, iv.2) :: b)
  | iv :: b, d + 1 => (iv :: (splitDim b d).1, iv :: (splitDim b d).2)

/-- the fields of a `RefinementObjectExtendSplit` the property talks about; `id` is the object identity
(a creation stamp, unique per object), `dict` is `levelvec_dict` (coarsened level vector ↦ uncoarsened one) -/
structure ESArea where
  id : Nat
  box : Box
  coarsening : Int
  needExtend : Int
  dict : List (LV × LV)
deriving Repr

/-- refinement tree below `root_cell` (the `children` lists of the objects) in first-child / next-sibling form:
`cons a children siblings` -/
inductive Forest where
  | nil : Forest
  | cons (a : ESArea) (children : Forest) (siblings : Forest) : Forest
deriving Repr

def Forest.isNil : Forest → Bool
  | .nil => true
  | .cons .. => false

def Forest.ofList : List ESArea → Forest
  | [] => .nil
  | a :: as => .cons a .nil (Forest.ofList as)

/-- areas without children, in tree order -/
def Forest.leaves : Forest → List ESArea
  | .nil => []
  | .cons a ch sib => (if ch.isNil then [a] else ch.leaves) ++ sib.leaves

/-- the sibling list at the top of the forest -/
def Forest.tops : Forest → List ESArea
  | .nil => []
  | .cons a _ sib => a :: sib.tops

/-- every area of the forest (inner nodes too), in preorder -/
def Forest.nodes : Forest → List ESArea
  | .nil => []
  | .cons a ch sib => a :: (ch.nodes ++ sib.nodes)

/-- `get_points_in_areas_recursive` for a single point: the first child (in list order) that contains the
point takes it; the point is then removed from the set offered to the later siblings -/
def Forest.assign (x : EPt) : Forest → Option ESArea
  | .nil => none
  | .cons a ch sib =>
      if boxContains a.box x then (if ch.isNil then some a else ch.assign x) else sib.assign x

/-- `get_points_in_areas_recursive(area, points)` literally, for a list of points: list of (leaf, its points) -/
def Forest.assignAll : Forest → List EPt → List (ESArea × List EPt)
  | .nil, _ => []
  | .cons a ch sib, pts =>
      (if ch.isNil then [(a, pts.filter (boxContains a.box))] else ch.assignAll (pts.filter (boxContains a.box)))
        ++ sib.assignAll (pts.filter fun p => !boxContains a.box p)

/-- the object with identity `i` and its children -/
def Forest.find? (i : Nat) : Forest → Option (ESArea × Forest)
  | .nil => none
  | .cons a ch sib =>
      if a.id == i then some (a, ch) else
      match ch.find? i with
      | some r => some r
      | none => sib.find? i

/-- apply `h` to every object -/
def Forest.mapAreas (h : ESArea → ESArea) : Forest → Forest
  | .nil => .nil
  | .cons a ch sib => .cons (h a) (ch.mapAreas h) (sib.mapAreas h)

/-- give the childless object with identity `i` the children `mk` builds from it -/
def Forest.attach : Forest → Nat → (ESArea → Forest) → Forest
  | .nil, _, _ => .nil
  | .cons a ch sib, i, mk => .cons a (if a.id == i && ch.isNil then mk a else ch.attach i mk) (sib.attach i mk)

/-- `RefinementObjectExtendSplit.update(1)`: `coarseningValue += 1; levelvec_dict = {}` -/
def ESArea.bump (a : ESArea) : ESArea := { a with coarsening := a.coarsening + 1, dict := [] }

/-- `RefinementContainer.update_values(1)`: `for r in self.refinementObjects: r.update(1)` -/
def bumpObjs (f : Forest) (ids : List Nat) : Forest :=
  ids.foldl (fun f i => f.mapAreas fun a => if a.id == i then a.bump else a) f

/-- a child created by a split: same coarsening, `needExtendScheme + 1`, empty dictionary -/
def mkChild (a : ESArea) (i : Nat) (b : Box) : ESArea :=
  { id := i, box := b, coarsening := a.coarsening, needExtend := a.needExtend + 1, dict := [] }

def mkChildren (a : ESArea) (next : Nat) : List Box → List ESArea
  | [] => []
  | b :: bs => mkChild a next b :: mkChildren a (next + 1) bs

/-- children of `split_area_arbitrary_dim`, identities `next, next+1, …` -/
def splitAllForest (a : ESArea) (next : Nat) : Forest := Forest.ofList (mkChildren a next (splitAll a.box))

/-- the loop `for d in dims: for area in newRefinementObjects: area.split_area_single_dim(d)` of `refine`:
nested binary subtrees, first dimension of `dims` outermost; returns the children forest and the next free identity -/
def splitDimsForest : List Nat → ESArea → Nat → Forest × Nat
  | [], _, next => (.nil, next)
  | d :: ds, a, next =>
      let lo := mkChild a next (splitDim a.box d).1
      let rl := splitDimsForest ds lo (next + 1)
      let hi := mkChild a rl.2 (splitDim a.box d).2
      let rh := splitDimsForest ds hi (rl.2 + 1)
      (.cons lo rl.1 (.cons hi rh.1 .nil), rh.2)

/-- the child created by an extend: same box, coarsening decremented unless it is 0 -/
def extendChild (a : ESArea) (i : Nat) : ESArea :=
  { id := i, box := a.box, coarsening := if a.coarsening == 0 then 0 else a.coarsening - 1,
    needExtend := a.needExtend, dict := [] }

/-- `get_split_dims()` returns a non-empty strictly increasing list of dimensions `< dim` -/
def validDims (dim : Nat) : List Nat → Bool
  | [] => false
  | [d] => decide (d < dim)
  | d :: e :: ds => decide (d < e) && validDims dim (e :: ds)

/-- state of `SpatiallyAdaptiveExtendScheme` + its `RefinementContainer` -/
structure EState where
  dim : Nat
  lmin : Int
  lmax : Int
  /-- ghost: the `lmax` passed to `performSpatiallyAdaptiv` -/
  lmax0 : Int
  /-- `numberOfRefinementsBeforeExtend` of every area (constructor argument `+ 1`, resp. `+ dim`) -/
  nrbe : Int
  version : Nat
  auto : Bool
  single : Bool
  root : Box
  /-- the `children` lists below `root_cell` -/
  forest : Forest
  /-- `refinement.refinementObjects` (identities, in container order) -/
  objs : List Nat
  /-- `refinement.popArray` (positions) -/
  pop : List Nat
  /-- ghost: next free identity -/
  next : Nat
deriving Repr

def rootArea (b : Box) : ESArea := { id := 0, box := b, coarsening := 0, needExtend := 0, dict := [] }

/-- `initialize_refinement` (`noInitialSplitting = False`): the root is split in all dimensions; with
`split_single_dim` by `dim` successive single-dimension splits whose 2^dim results become the (flat)
list of initial objects -/
def EState.init (dim : Nat) (lmin lmax nrbe : Int) (version : Nat) (auto single : Bool) (root : Box) : EState :=
  let r : Forest × Nat :=
    if single then
      let r := splitDimsForest (List.range dim) (rootArea root) 1
      (Forest.ofList r.1.leaves, r.2)
    else (splitAllForest (rootArea root) 1, 1 + 2 ^ dim)
  { dim, lmin, lmax, lmax0 := lmax, nrbe := nrbe + (if single then (dim : Int) else 1), version, auto, single,
    root, forest := r.1, objs := r.1.leaves.map (·.id), pop := [], next := r.2 }

/-- the children a refinement of `a` creates: `none` = nothing happens (see `EState.refine`) -/
def EState.newChildren (s : EState) (a : ESArea) (extIn : Bool) (dims : List Nat) : Option (Forest × Nat × Bool) :=
  let ext := if s.auto then extIn else decide (a.needExtend ≥ s.nrbe)
  if ext then some (.cons (extendChild a s.next) .nil .nil, s.next + 1, decide (a.coarsening = 0))
  else if s.auto || decide (a.needExtend ≥ 0) then
    if s.single then
      if validDims s.dim dims then
        some ((splitDimsForest dims a s.next).1, (splitDimsForest dims a s.next).2, false)
      else none
    else some (splitAllForest a s.next, s.next + 2 ^ s.dim, false)
  else none

/-- `do_refinement(area, position)` → `RefinementContainer.refine(position)` →
`RefinementObjectExtendSplit.refine()`.  `extIn` is the outcome of `benefit_extend < benefit_split`
(read only if `automatic_extend_split`), `dims` that of `get_split_dims()` (read only for a
single-dimension split).  Positions outside the container, objects that already have children and
invalid `dims` leave the state unchanged.  The new objects are created from the values before
`update_values` and join the container after it (so they are not updated); an extend of an area of
coarsening 0 raises `lmax` and updates every object of the container. -/
def EState.refine (s : EState) (pos : Nat) (extIn : Bool) (dims : List Nat) : EState :=
  match s.objs[pos]? with
  | none => s
  | some i =>
    match s.forest.find? i with
    | none => s
    | some (a, ch) =>
      if !ch.isNil then s else
      match s.newChildren a extIn dims with
      | none => s
      | some (K, next', raise) =>
        let mk := fun a' => match s.newChildren a' extIn dims with
                            | some r => r.1
                            | none => Forest.nil
        { s with lmax := if raise then s.lmax + 1 else s.lmax,
                 forest := if raise then bumpObjs (s.forest.attach i mk) s.objs else s.forest.attach i mk,
                 objs := s.objs ++ K.leaves.map (·.id), pop := s.pop ++ [pos], next := next' }

def eraseIdxs (l : List Nat) (idxs : List Nat) : List Nat :=
  (l.zipIdx.filter fun q => !idxs.contains q.2).map (·.1)

/-- `apply_remove()` at the end of a refinement round -/
def EState.endRound (s : EState) : EState := { s with objs := eraseIdxs s.objs s.pop, pop := [] }

inductive ESOp where
  | refine (pos : Nat) (ext : Bool) (dims : List Nat)
  | endRound
deriving Repr

def EState.step (s : EState) : ESOp → EState
  | .refine pos ext dims => s.refine pos ext dims
  | .endRound => s.endRound

def EState.run (s : EState) (ops : List ESOp) : EState := ops.foldl EState.step s

/-- the container's objects -/
def EState.objects (s : EState) : List ESArea := s.objs.filterMap fun i => (s.forest.find? i).map (·.1)

/-- first-child-wins assignment over a list of objects given by identity (an object that already has children
passes the point on to them) -/
def assignObjs (f : Forest) (x : EPt) : List Nat → Option ESArea
  | [] => none
  | i :: is =>
      match f.find? i with
      | none => assignObjs f x is
      | some (a, ch) =>
          if boxContains a.box x then (if ch.isNil then some a else ch.assign x) else assignObjs f x is

/-- `get_points_assignement_to_areas` for one point, i.e. `get_points_in_areas_recursive(root_cell, ·)`.
With `split_single_dim`, `initialize_refinement` hands THE SAME Python list to `root_cell.children` and to the
`RefinementContainer`, so the root's child list is the container list (mutated by `add` / `apply_remove`); without
it the root keeps the list built by `split_area_arbitrary_dim`, i.e. the top of the refinement tree. -/
def EState.assign (s : EState) (x : EPt) : Option ESArea :=
  if s.single then assignObjs s.forest x s.objs else s.forest.assign x

/-- the leaves reachable from `root_cell` in traversal order (see `EState.assign`) -/
def EState.rootLeaves (s : EState) : List ESArea :=
  if s.single then
    s.objs.flatMap fun i =>
      match s.forest.find? i with
      | none => []
      | some (a, ch) => if ch.isNil then [a] else ch.leaves
  else s.forest.leaves

/-! ## `coarsen_grid` -/

/-- `max(temp)` -/
def lvMax : LV → Int
  | [] => 0
  | x :: xs => xs.foldl max x

/-- `temp2 = list(reversed(sorted(temp))); temp2[1]` (second largest with multiplicity) -/
def lvSecond (l : LV) : Int := lvMax (l.erase (lvMax l))

/-- `for d in range(dim): if temp[d] == maxLevel: temp[d] -= δ; break` -/
def decFirst (m δ : Int) : LV → LV
  | [] => []
  | x :: xs => if x == m then (x - δ) :: xs else x :: decFirst m δ xs

/-- `for d in range(dim): if temp[d] == maxLevel: temp[d] -= 1` -/
def decAll (m : Int) (l : LV) : LV := l.map fun x => if x == m then x - 1 else x

def countEq (m : Int) (l : LV) : Nat := (l.filter (· == m)).length

/-- the `while coarsening > 0` loop of version 0 (one unit of coarsening per round: fuel = coarsening) -/
def v0Loop (lmin : Int) : Nat → LV → LV
  | 0, t => t
  | n + 1, t => if lvMax t == lmin then t else v0Loop lmin n (decFirst (lvMax t) 1 t)

/-- the `while coarsening > 0` loop of versions 1 and 2; every round lowers `coarsening` by the number of
maxima (≥ 1), so `coarsening` rounds of fuel suffice -/
def v12Loop (version : Nat) (dim : Nat) (lmin lmax cSave : Int) (topDiag : Bool) : Nat → Int → LV → LV
  | 0, _, t => t
  | f + 1, c, t =>
      if c > 0 then
        let m := lvMax t
        if m == lmin then t else
        let occ : Int := (countEq m t : Nat)
        let bound := lmax + (dim : Int) - 1 - m - ((dim : Int) - 2) - m
        let doCoarsen :=
          if version == 1 then decide (cSave ≥ bound + 1) && decide (c ≥ occ - (if topDiag then 1 else 0))
          else decide (cSave ≥ bound + 2) && decide (c ≥ occ)
        if doCoarsen then v12Loop version dim lmin lmax cSave topDiag f (c - occ) (decAll m t) else t
      else t

/-- `is_already_calculated(levelvec_coarsened, levelvec)` -/
def alreadyCalculated (dict : List (LV × LV)) (coarse lv : LV) : Bool :=
  match dict.find? (·.1 == coarse) with
  | none => false
  | some e => e.2 != lv

/-- `add_level`: `levelvec_dict[levelvec_coarsened] = levelvec` -/
def dictAddLevel (dict : List (LV × LV)) (coarse lv : LV) : List (LV × LV) :=
  if dict.any (·.1 == coarse) then dict.map (fun e => if e.1 == coarse then (e.1, lv) else e) else dict ++ [(coarse, lv)]

/-- `coarsen_grid(levelvector, area)` for versions 0, 1, 2: `(level_coarse, not area_is_null, levelvec_dict')`;
`none` = the code's `assert num_sub_diagonal < dim` fails (or unsupported version / dimension < 2, where the
code raises) -/
def coarsenGrid (version dim : Nat) (lmin lmax : Int) (lv : LV) (coarsening : Int) (dict : List (LV × LV)) :
    Option (LV × Bool × List (LV × LV)) :=
  if dim < 2 || lv.length != dim then none else
  if version == 0 then
    if lvMax lv - lvSecond lv < coarsening then
      some ((v0Loop lmin coarsening.toNat lv).map (· - lmin), false, dict)
    else
      let temp := decFirst (lvMax lv) coarsening lv
      if alreadyCalculated dict temp lv then some (temp.map (· - lmin), false, dict)
      else some (temp.map (· - lmin), true, dictAddLevel dict temp lv)
  else if version == 1 || version == 2 then
    let nsd := lmax + (dim : Int) - 1 - lv.sum
    if nsd < (dim : Int) then
      some ((v12Loop version dim lmin lmax coarsening (nsd == 0) coarsening.toNat coarsening lv).map (· - lmin), true, dict)
    else none
  else none

/-- one pass `for component_grid in scheme: coarsen_grid(component_grid.levelvector, area)` starting from the
dictionary `dict`: the list of `(coarsened level vector (absolute, i.e. + lmin), coefficient)` of the grids that are
actually computed (`do_compute`) -/
def computedFrom (version dim : Nat) (lmin lmax c : Int) :
    List (LV × Int) → List (LV × LV) → List (LV × Int)
  | [], _ => []
  | (lv, coeff) :: rest, dict =>
      match coarsenGrid version dim lmin lmax lv c dict with
      | none => computedFrom version dim lmin lmax c rest dict
      | some (coarse, doCompute, dict') =>
          (if doCompute then [(coarse.map (· + lmin), coeff)] else [])
            ++ computedFrom version dim lmin lmax c rest dict'

/-- the component grids computed in a fresh area of coarsening `c` under the global scheme `(lmin, lmax)` -/
def computed (version dim : Nat) (lmin lmax c : Int) : List (LV × Int) :=
  computedFrom version dim lmin lmax c (stdScheme dim lmin lmax) []

/-! ## executable validity check of a local combination -/

/-- all level vectors `t` with `lmin ≤ t ≤ v` componentwise -/
def belowList (lmin : Int) : LV → List LV
  | [] => [[]]
  | v :: vs => (List.range (v - lmin + 1).toNat).flatMap fun (i : Nat) => (belowList lmin vs).map fun r => (lmin + (i : Int)) :: r

/-- membership in the downward closure of the support: some computed grid dominates `t` -/
def inDown (c : List (LV × Int)) (t : LV) : Bool := c.any fun p => leAll t p.1

/-- `true` iff at every grid point of the area (a point of level `t` lies exactly in the grids `≥ t`; the area's
points are those of the downward closure of the support) the coefficients of the grids containing it sum to 1 -/
def localValid (dim : Nat) (lmin : Int) (c : List (LV × Int)) : Bool :=
  !c.isEmpty &&
  c.all (fun p => decide (p.1.length = dim) && p.1.all (fun x => decide (lmin ≤ x))) &&
  c.all (fun p => (belowList lmin p.1).all fun t => domSum c t == 1)

/-! ## the flexible evaluation used by the error estimates -/

/-- `evaluate_operation_area_complete_flexibel(area, coarsening, …)`: while the estimate is evaluated the area carries
`coarseningValue = max(coarsening, 0)` (restored afterwards) and the component grids come from the scheme of level
`lmax` if `coarsening ≥ 0`, else from `getCombiScheme(lmin, lmax + abs(coarsening))` ("beyond lmax").  The requested
`coarsening` is any integer: `get_parent_split_operation` counts it down from the area's own value until the point
numbers fit.  Result: `(coarseningValue read by coarsen_grid, lmax of the scheme used)`. -/
def flexEval (lmax coarsening : Int) : Int × Int :=
  (max coarsening 0, if coarsening ≥ 0 then lmax else lmax + (coarsening.natAbs : Int))

end SparseSpace
