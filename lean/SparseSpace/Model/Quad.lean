/-!
# Model of the LOCAL 1-D quadrature rules of `sparseSpACE/Grid.py` and their tensor product

Import-free, executable, over `Rat`.  Mirrors `Grid1d.set_current_area`, `TrapezoidalGrid1D`,
`SimpsonGrid1D` and `Grid.setCurrentArea / getPoints / get_weights / levelToNumPoints` AS THEY ARE, including

* the border-index logic (`lowerBorder`, `upperBorder`) of `set_current_area`,
* the special case `not boundary and num_points == 1` (mid point with weight `spacing`),
* the modified-basis weights of `TrapezoidalGrid1D.get_1d_weight`,
* `SimpsonGrid1D.get_1D_level_weights` with its level-0 fallback and the slice `weights[lowerBorder:upperBorder]`.

`isclose(start, a)` / `end == b` are modelled as equality of rationals (the correspondence feeds dyadic inputs).
-/
namespace SparseSpace.Quad

/-- one `Grid1d` object after `set_current_area(start, end, level)`; `a`,`b` = global domain of this dimension -/
structure G1 where
  a : Rat
  b : Rat
  start : Rat
  stop : Rat
  level : Nat
  boundary : Bool
  modified : Bool
deriving Repr

/-- `num_points_with_boundary` = `level_to_num_points_1d(level)` evaluated with `boundary = True` -/
def G1.nwb (g : G1) : Nat := 2 ^ g.level + 1

/-- `isclose(self.start, self.a)` -/
def G1.touchLo (g : G1) : Bool := decide (g.start = g.a)

/-- `self.end == self.b` -/
def G1.touchHi (g : G1) : Bool := decide (g.stop = g.b)

/-- `TrapezoidalGrid1D.level_to_num_points_1d(level)` (also inherited by `SimpsonGrid1D`) -/
def G1.numPoints (g : G1) : Nat :=
  2 ^ g.level + 1 - (if g.boundary then 0 else ((if g.touchLo then 1 else 0) + (if g.touchHi then 1 else 0)))

/-- `self.lowerBorder` as set by `Grid1d.set_current_area` -/
def G1.lowerBorder (g : G1) : Nat :=
  if !g.boundary && decide (g.numPoints < g.nwb) then (if g.touchLo then 1 else 0) else 0

/-- `self.upperBorder` as set by `Grid1d.set_current_area` -/
def G1.upperBorder (g : G1) : Nat :=
  if !g.boundary && decide (g.numPoints < g.nwb) then (if g.touchHi then g.nwb - 1 else g.nwb) else g.numPoints

/-- `self.spacing = (end - start) / (num_points_with_boundary - 1)` (`nwb ≥ 2`, so never `None`) -/
def G1.spacing (g : G1) : Rat := (g.stop - g.start) / ((g.nwb : Rat) - 1)

/-- `np.linspace(s, e, n)` -/
def linspace (s e : Rat) (n : Nat) : List Rat :=
  (List.range n).map fun (i : Nat) => s + (i : Rat) * ((e - s) / ((n : Rat) - 1))

/-- python slice `l[lo:up]` for `0 ≤ lo`, `0 ≤ up` -/
def slice {α : Type} (lo up : Nat) (l : List α) : List α := (l.drop lo).take (up - lo)

/-- `TrapezoidalGrid1D.get_1D_level_points` -/
def points1d (g : G1) : List Rat :=
  if !g.boundary && g.numPoints == 1 then [(g.stop + g.start) / 2]
  else slice g.lowerBorder g.upperBorder (linspace g.start g.stop g.nwb)

/-- `TrapezoidalGrid1D.weight_composite_trapezoidal(index)` -/
def weightComposite (g : G1) (index : Nat) : Rat :=
  if !g.boundary && g.numPoints == 1 then g.spacing
  else g.spacing * (if index + g.lowerBorder == 0 || index + g.lowerBorder == g.nwb - 1 then 1 / 2 else 1)

/-- `TrapezoidalGrid1D.get_1d_weight(index)` -/
def trapWeight (g : G1) (index : Nat) : Rat :=
  if g.modified then
    if g.numPoints == 1 then g.stop - g.start
    else if g.numPoints == 2 then
      if g.lowerBorder == 1 then (if index == 0 then g.stop - g.start else 0)
      else if g.upperBorder == g.nwb - 1 then (if index == 1 then g.stop - g.start else 0)
      else weightComposite g index
    else
      if index == 0 && g.lowerBorder == 1 then 2 * g.spacing
      else if index == 1 && g.lowerBorder == 1 then
        (if g.numPoints == 3 && g.upperBorder == g.nwb - 1 then 0 else weightComposite g index * (1 / 2))
      else if index == g.numPoints - 1 && g.upperBorder == g.nwb - 1 then 2 * g.spacing
      else if index == g.numPoints - 2 && g.upperBorder == g.nwb - 1 then weightComposite g index * (1 / 2)
      else weightComposite g index
  else weightComposite g index

/-- `Grid1d.get_1D_level_weights` for the trapezoidal family -/
def trapWeights (g : G1) : List Rat := (List.range g.numPoints).map (trapWeight g)

/-- the array `ones(n) * spacing/3; w[1:-1:2] *= 4; w[2:-1:2] *= 2` of `SimpsonGrid1D.get_1D_level_weights` -/
def simpsonFull (h : Rat) (n : Nat) : List Rat :=
  (List.range n).map fun (i : Nat) =>
    h * (1 / 3) * (if 1 ≤ i ∧ i < n - 1 ∧ i % 2 = 1 then 4 else 1) * (if 2 ≤ i ∧ i < n - 1 ∧ i % 2 = 0 then 2 else 1)

/-- `SimpsonGrid1D.get_1D_level_weights` (the class is always built with `modified_basis = False`) -/
def simpsonWeights (g : G1) : List Rat :=
  if g.nwb < 3 then (List.range g.numPoints).map (weightComposite g)
  else slice g.lowerBorder g.upperBorder (simpsonFull g.spacing g.nwb)

/-- the two modelled families -/
inductive Family where
  | trap
  | simpson
deriving Repr, DecidableEq

/-- `Grid1d.coords` after `set_current_area` -/
def coords (_f : Family) (g : G1) : List Rat := points1d g

/-- `Grid1d.weights` after `set_current_area` -/
def weights (f : Family) (g : G1) : List Rat :=
  match f with
  | .trap => trapWeights g
  | .simpson => simpsonWeights g

/-- `itertools.product(*arrays)` (`get_cross_product_list`): the first array varies slowest -/
def cross {α : Type} : List (List α) → List (List α)
  | [] => [[]]
  | l :: ls => l.flatMap fun x => (cross ls).map fun t => x :: t

/-- `Grid.levelToNumPoints(levelvec)` -/
def levelToNumPoints (gs : List G1) : List Nat := gs.map G1.numPoints

/-- `Grid.getPoints()` -/
def tensorPoints (f : Family) (gs : List G1) : List (List Rat) := cross (gs.map (coords f))

/-- `Grid.get_weights()` -/
def tensorWeights (f : Family) (gs : List G1) : List Rat := (cross (gs.map (weights f))).map List.prod

/-- 1-D quadrature sum `Σ w_i f(x_i)` (`np.inner(f_values, weights)`; lists are paired position-wise) -/
def quad (pts ws : List Rat) (f : Rat → Rat) : Rat := (List.zipWith (fun x w => w * f x) pts ws).sum

/-- tensor quadrature sum of `IntegratorArbitraryGridScalarProduct` -/
def quadT (pts : List (List Rat)) (ws : List Rat) (F : List Rat → Rat) : Rat :=
  (List.zipWith (fun p w => w * F p) pts ws).sum

/-- `GaussLegendreGrid1D.get_1d_points_and_weights`, points: `coordsD += 1; coordsD *= length/2; coordsD += start`, with
the nodes `ξ` of `leggauss(n)` on `[-1,1]` as a parameter (`leggauss` itself is not modelled) -/
def glPoints (ξ : List Rat) (start length : Rat) : List Rat := ξ.map fun t => (t + 1) * (length / 2) + start

/-- … weights: `weightsD * length / 2` (`normalize = False`) -/
def glWeights (ω : List Rat) (length : Rat) : List Rat := ω.map fun w => w * length / 2

/-- the monomial `Π_d x_d ^ k_d` -/
def monomial : List Nat → List Rat → Rat
  | k :: ks, x :: xs => x ^ k * monomial ks xs
  | _, _ => 1

end SparseSpace.Quad
