import SparseSpace.Model.Gram
/-!
# Model of the cross-iteration caches of `DensityEstimation` (property C17): `old_R`, `old_B`/`new_B`,
`old_grid_coord`/`new_grid_coord`, `sorted_data`, and the size threshold (200 points) that switches implementations.
Import-free.  Python dictionaries are association lists in insertion order.
-/
namespace SparseSpace.DCache
open SparseSpace.Gram

/-! ## a memo table (any of the code's `dict` caches: `old_R`, `data_bins`, `hat_support_cache`, `index_cache`) -/

def lookup {K V : Type} [DecidableEq K] : List (K × V) → K → Option V
  | [], _ => none
  | (k, v) :: t, q => if k = q then some v else lookup t q

/-- `if key in cache: res = cache[key] else: res = f(a); cache[key] = res` -/
def memoStep {α K V : Type} [DecidableEq K] (key : α → K) (f : α → V) (c : List (K × V)) (a : α) : V × List (K × V) :=
  match lookup c (key a) with
  | some v => (v, c)
  | none => (f a, c ++ [(key a, f a)])

/-- a sequence of requests served through the table -/
def memoMap {α K V : Type} [DecidableEq K] (key : α → K) (f : α → V) : List (K × V) → List α → List V × List (K × V)
  | c, [] => ([], c)
  | c, a :: as =>
    let r := memoStep key f c a
    let rest := memoMap key f r.2 as
    (r.1 :: rest.1, rest.2)

/-! ## the matrix-entry cache `old_R` -/

def insertRat (a : Rat) : List Rat → List Rat
  | [] => [a]
  | b :: t => if a ≤ b then a :: b :: t else b :: insertRat a t

/-- ascending sort (`list.sort()`), as insertion sort -/
def sortRat (l : List Rat) : List Rat := l.foldr insertRat []

/-- the cache key `str(get_domain_overlap_width(...))`: for adjacent hats the sorted overlap widths and the sorted
    centre distances (sorted INDEPENDENTLY of each other); otherwise lists of integer zeros, whose string differs from
    every float list — the flag keeps that distinction -/
abbrev Key := Bool × List Rat × List Rat

def overlapKey (I J : List Hat1) : Key :=
  if adjacent I J then
    (true,
     sortRat (List.zipWith (fun i j => rabs (rmin i.hi j.hi - rmax i.lo j.lo)) I J),
     sortRat (List.zipWith (fun i j => rabs (i.p - j.p)) I J))
  else (false, List.replicate I.length 0, List.replicate I.length 0)

/-- the pairs visited by `for i in range(n): for j in range(i, n)`, in that order -/
def upperPairs {α : Type} : List α → List (α × α)
  | [] => []
  | h :: t => ((h :: t).map fun J => (h, J)) ++ upperPairs t

/-- put the values computed in `upperPairs` order into the symmetric matrix (`R[i][j] = R[j][i] = res`, `+= lambd`) -/
def assemble (lam : Rat) : Nat → List Rat → List (List Rat)
  | 0, _ => []
  | n + 1, vals =>
    match vals.take (n + 1) with
    | [] => []
    | d :: r => ((d + lam) :: r) :: List.zipWith (fun v row => v :: row) r (assemble lam n (vals.drop (n + 1)))

/-- `build_R_matrix_dimension_wise` with `reuse_old_values == True` (no mass lumping, analytic entries):
    every entry goes through `old_R`; returns the matrix and the updated cache -/
def buildRDWreuse (c : List (Key × Rat)) (stripes : List (List Rat)) (lam : Rat) : List (List Rat) × List (Key × Rat) :=
  let hs := hatsND stripes
  let r := memoMap (fun (p : List Hat1 × List Hat1) => overlapKey p.1 p.2) (fun p => rValue p.1 p.2) c (upperPairs hs)
  (assemble lam hs.length r.1, r.2)

/-- the value a key stands for: `Π widths · 3^{-#zero distances} · 6^{-#non-zero distances}` (0 for the non-adjacent key) -/
def keyValue (k : Key) : Rat :=
  if k.1 then lprod k.2.1 * lprod (k.2.2.map fun d => if d = 0 then (1 / 3 : Rat) else 1 / 6) else 0

/-! ## right-hand side: data bins and the reuse path -/

/-- the internal size threshold of `calculate_B(_dimension_wise)` and `interpolate_points_component_grid` -/
def threshold : Nat := 200

/-- first position `i` with `c_i >= lo` (`len` if none), scanning the sorted coordinates -/
def firstGe (lo : Rat) : List Rat → Nat
  | [] => 0
  | c :: cs => if c ≥ lo then 0 else firstGe lo cs + 1

/-- the scan `upper = 0; for i: if c_i <= hi and i > upper: upper = i` from position `i` on, with the current `upper` -/
def lastLeAux (hi : Rat) : Nat → List Rat → Nat → Nat
  | _, [], acc => acc
  | i, c :: cs, acc => lastLeAux hi (i + 1) cs (if c ≤ hi ∧ i > acc then i else acc)

/-- last position with `c_i <= hi`; 0 if none -/
def lastLe (hi : Rat) (cs : List Rat) : Nat := lastLeAux hi 0 cs 0

/-- `data_ranges[d]` of `find_data_in_domain`: `[max(lower - 1, 0), min(upper + 1, M)]`, used as the Python slice
    `sorted_data[d][a:b]` (upper end exclusive): positions `lower-1 .. upper` -/
def dataRange (sortedCoords : List Rat) (lo hi : Rat) : Nat × Nat :=
  let M := sortedCoords.length
  let lower := firstGe lo sortedCoords
  let upper := lastLe hi sortedCoords
  (lower - 1, min (upper + 1) M)

/-- `find_data_in_domain(domain)`: sample indices lying in the slice of every dimension (`np.intersect1d`, ascending).
    `sortedIdx[d]` is `np.argsort(data[:, d])` -/
def findDataInDomain (data : List (List Rat)) (sortedIdx : List (List Nat)) (dom : List Hat1) : List Nat :=
  let slices := (List.zipWith (fun (dd : Nat × List Nat) (h : Hat1) =>
      let coords := dd.2.map fun i => (data.getD i []).getD dd.1 0
      let r := dataRange coords h.lo h.hi
      (dd.2.drop r.1).take (r.2 - r.1)) (enum sortedIdx) dom)
  (List.range data.length).filter fun x => slices.all fun s => s.contains x

/-- the recomputation of one entry in the reuse path:
    `for x in find_data_in_domain(domain): b[i] += hat_function_non_symmetric(hat, domain, data[x]) * sign; b[i] *= 1/M` -/
def bRecompute (data : List (List Rat)) (sg : List Rat) (sortedIdx : List (List Nat)) (h : List Hat1) : Rat :=
  (((findDataInDomain data sortedIdx h).map fun x => hatNS h (data.getD x []) * sg.getD x 0).sum) * (1 / (data.length : Rat))

/-- the sample mean the entry stands for (specification) -/
def bSpec (data : List (List Rat)) (sg : List Rat) (h : List Hat1) : Rat :=
  ((List.zipWith (fun x s => hatNS h x * s) data sg).sum) * (1 / (data.length : Rat))

/-- one remembered right-hand side: key `str(max_levels)`, the stripes, the vector -/
structure BEntry where
  key : List Int
  coords : List (List Rat)
  b : List Rat
deriving Repr

/-- `new_B[key] = b; new_grid_coord[key] = coords` (an existing key keeps its position) -/
def putB (l : List BEntry) (e : BEntry) : List BEntry :=
  if l.any (fun x => x.key == e.key) then l.map (fun x => if x.key == e.key then e else x) else l ++ [e]

/-- number of coordinates of the new stripes that the old stripes do not contain (`differences`) -/
def newCoordCount (stripes old : List (List Rat)) : Nat :=
  ((List.zipWith (fun s o => (s.filter fun c => !(o.contains c)).length) stripes old)).sum

/-- `find_closest_old_B`: the first entry with the fewest new coordinates -/
def findClosest (stripes : List (List Rat)) : List BEntry → Option BEntry
  | [] => none
  | e :: rest =>
    match findClosest stripes rest with
    | none => some e
    | some best => if newCoordCount stripes e.coords ≤ newCoordCount stripes best.coords then some e else some best

/-- points of a stripes list without any coordinate 0 or 1 (`old_point_list`) -/
def innerPoints (coords : List (List Rat)) : List (List Rat) :=
  (cross coords).filter fun x => !(x.contains 0) && !(x.contains 1)

def sameDomain (a b : List Hat1) : Bool :=
  (List.zipWith (fun (x y : Hat1) => decide (x.lo = y.lo) && decide (x.hi = y.hi)) a b).all id && a.length == b.length

/-- index of the first element satisfying `p` (`a.index(True)`) -/
def firstIdx {α : Type} (p : α → Bool) : List α → Option Nat
  | [] => none
  | a :: t => if p a then some 0 else (firstIdx p t).map (· + 1)

/-- the reuse branch of `calculate_B_dimension_wise`: copy the entries of points that existed with the same support,
    then recompute every entry that is (still) exactly 0 -/
def bReuseDW (old : BEntry) (stripes : List (List Rat)) (data : List (List Rat)) (sg : List Rat)
    (sortedIdx : List (List Nat)) : List Rat :=
  let hs := hatsNDsearch stripes
  let oldPts := innerPoints old.coords
  let oldHs := oldPts.map fun pt => List.zipWith getHatDomain1 old.coords pt
  hs.map fun h =>
    let pt := h.map (·.p)
    let copied : Rat :=
      match firstIdx (fun oh => sameDomain h oh) oldHs with
      | some k => if oldPts.contains pt && !pt.isEmpty then old.b.getD k 0 else 0
      | none => 0
    if copied = 0 then bRecompute data sg sortedIdx h else copied

/-- `calculate_B_dimension_wise` (value and the entry stored in `new_B`) -/
def calcBDW (reuse : Bool) (oldB : List BEntry) (stripes : List (List Rat)) (data : List (List Rat)) (sg : List Rat)
    (sortedIdx : List (List Nat)) : List Rat :=
  let N := (hatsND stripes).length
  let closest := if reuse && decide (N ≥ threshold) then findClosest stripes oldB else none
  match closest with
  | some old => bReuseDW old stripes data sg sortedIdx
  | none => if N < threshold then bSmallDW stripes data sg else bLargeDW stripes data sg

/-- the state carried from one evaluation to the next -/
structure Cache where
  oldR : List (Key × Rat) := []
  oldB : List BEntry := []
  newB : List BEntry := []

/-- one component-grid evaluation (`build_R_matrix_dimension_wise` + `calculate_B_dimension_wise`), no mass lumping -/
def evalGrid (reuse : Bool) (c : Cache) (stripes : List (List Rat)) (maxLevels : List Int) (lam : Rat)
    (data : List (List Rat)) (sg : List Rat) (sortedIdx : List (List Nat)) : (List (List Rat) × List Rat) × Cache :=
  let rr := if reuse then buildRDWreuse c.oldR stripes lam else (buildRDW stripes lam, c.oldR)
  let b := calcBDW reuse c.oldB stripes data sg sortedIdx
  ((rr.1, b), { oldR := rr.2, oldB := c.oldB, newB := putB c.newB ⟨maxLevels, stripes, b⟩ })

/-- `post_processing`: with reuse on, `old_B := new_B; new_B := {}` -/
def postProcessing (reuse : Bool) (c : Cache) : Cache :=
  if reuse then { c with oldB := c.newB, newB := [] } else c

/-! ## interpolation: small-grid and large-grid implementations -/

/-- `N < 200`: all hats, completely vectorised -/
def interpSmallDW (stripes : List (List Rat)) (alpha : List Rat) (x : List Rat) : Rat :=
  (List.zipWith (fun h a => hatCV h x * a) (hatsND stripes) alpha).sum

/-- `take_closest(..., skip_equal_point=True)` of a node that lies in the stripe = its two neighbours;
    the large path evaluates `hat_function_non_symmetric_vectorized` only on the hats around the point -/
def interpLargeDW (stripes : List (List Rat)) (alpha : List Rat) (x : List Rat) : Rat :=
  (List.zipWith (fun h a => if (h.map (·.p)) ∈ neighbours stripes x then hatV h x * a else 0) (hatsNDsearch stripes) alpha).sum

end SparseSpace.DCache
