/-!
# Model of the weighted UQ quadrature (C15)

Mirrors, import-free and executable over `Rat`,

* `sparseSpACE/Grid.py` — `GlobalTrapezoidalGridWeighted.compute_weights` (modified_basis = False),
  `GlobalTrapezoidalGridWeighted.get_middle_weighted`, `GlobalTrapezoidalGrid.compute_weights`
  (modified_basis = False), `Grid.get_weights` (tensor product), `StandardCombi.get_points_and_weights`
  (combination of the component rules);
* `sparseSpACE/GridOperation.py` — `UncertaintyQuantification._prepare_distributions` (which dimension
  uses which distribution object), `moments_to_expectation_variance`, `calculate_expectation_and_variance`,
  `calculate_moment`;
* `sparseSpACE/Function.py` — `FunctionPower`, `FunctionConcatenate` (the integrand `[f, f²]`).

The distribution enters only through parameters: per interval `[x1,x2]` the numbers
`m0 = distribution.get_zeroth_moment(x1,x2)` and `m1 = distribution.get_first_moment(x1,x2)`, and for the
midpoint the functions `cdf`, `ppf`.  Grid coordinates are extended rationals (Python floats incl. `±inf`).
Floating-point rounding is not modelled.
-/
namespace SparseSpace.UQ

/-- a grid coordinate: a Python float that is not nan -/
inductive Ext where
  | ninf
  | fin (q : Rat)
  | pinf
deriving DecidableEq, Repr

namespace Ext

/-- `math.isinf` -/
def isInf : Ext → Bool
  | fin _ => false
  | _ => true

/-- Python `<` on floats -/
def lt : Ext → Ext → Bool
  | ninf, ninf => false
  | ninf, _ => true
  | fin _, ninf => false
  | fin a, fin b => decide (a < b)
  | fin _, pinf => true
  | pinf, _ => false

/-- `x + r` for a finite float `r` -/
def addRat : Ext → Rat → Ext
  | fin a, r => fin (a + r)
  | x, _ => x

/-- `0.5 * (a + b)`; `none` is nan (`-inf + inf`) -/
def half : Ext → Ext → Option Ext
  | fin a, fin b => some (fin ((a + b) / 2))
  | ninf, pinf => none
  | pinf, ninf => none
  | ninf, _ => some ninf
  | _, ninf => some ninf
  | pinf, _ => some pinf
  | _, pinf => some pinf

end Ext

/-- the Python chained comparison `a < m < b` -/
def inside (a m b : Ext) : Bool := a.lt m && m.lt b

/-- `a < m < b` where `m` may be nan (every comparison with nan is False) -/
def insideO (a : Ext) (m : Option Ext) (b : Ext) : Bool :=
  match m with
  | some m => inside a m b
  | none => false

/-- `10 ** -14` -/
def eps14 : Rat := 1 / 100000000000000

/-- `cdf_mid = 0.5 * (cdf(a) + cdf(b))` -/
def cdfMid (cdf : Ext → Rat) (a b : Ext) : Rat := (cdf a + cdf b) / 2

/-- `GlobalTrapezoidalGridWeighted.get_middle_weighted(a, b, cdf, ppf)`; `none` is nan -/
def middleWeighted (cdf : Ext → Rat) (ppf : Rat → Ext) (a b : Ext) : Option Ext :=
  let mid := ppf (cdfMid cdf a b)
  if inside a mid b then some mid else
  let mid2 := Ext.half a b
  if insideO a mid2 b then mid2
  else if a.isInf then some (b.addRat (-eps14))
  else if b.isInf then some (a.addRat eps14)
  else mid2

/-! ## weights -/

/-- one interval `[x1, x]` (x1 = the previous point) with the distribution's moments on it -/
structure Seg where
  x : Ext
  m0 : Rat
  m1 : Rat
deriving Repr

/-- the right weight `w2` of one interval (method of undetermined coefficients and its `isinf` branches) -/
def w2 (x1 x2 : Ext) (m0 m1 : Rat) : Rat :=
  match x1, x2 with
  | .fin a, .fin b => (m1 - m0 * a) / (b - a)
  | .fin _, _ => 0
  | _, _ => m0

/-- the loop `for i in range(num_points-1): … weights[i] += w1; weights[i+1] += w2`;
`carry` is what the previous interval has already added to the weight of `x1` -/
def accW (carry : Rat) (x1 : Ext) : List Seg → List Rat
  | [] => [carry]
  | s :: ss =>
      let b := w2 x1 s.x s.m0 s.m1
      (carry + (s.m0 - b)) :: accW b s.x ss

/-- the weights before clipping -/
def rawWeights (x0 : Ext) (segs : List Seg) : List Rat := accW 0 x0 segs

inductive WErr where
  | shape      -- `assert boundary or num_points > 3`
  | negWeight  -- `assert -weights[i] < 10 ** -5, "calculated negative weight"`
  | zeroDiv    -- `1.0 / sum(weights[1:-1])` with a zero sum (numpy: inf/nan and a RuntimeWarning)
deriving DecidableEq, Repr

/-- the clipping loop body -/
def clip (w : Rat) : Except WErr Rat :=
  if w ≥ 0 then .ok w
  else if -w < 1 / 100000 then .ok 0
  else .error .negWeight

def clipAll : List Rat → Except WErr (List Rat)
  | [] => .ok []
  | w :: ws =>
    match clip w with
    | .error e => .error e
    | .ok c =>
      match clipAll ws with
      | .error e => .error e
      | .ok cs => .ok (c :: cs)

/-- `weights[1:-1]` -/
def interior (w : List Rat) : List Rat := (w.drop 1).dropLast

/-- the branch `if not boundary:` – boundary weights removed, the rest normalised -/
def renorm (w : List Rat) : Except WErr (List Rat) :=
  let s := (interior w).sum
  if s = 0 then .error .zeroDiv
  else .ok (0 :: (interior w).map (fun v => (1 / s) * v) ++ [0])

/-- `GlobalTrapezoidalGridWeighted.compute_weights(grid_1D, a, b, distribution, boundary, False)`;
the grid is `x0 :: segs.map (·.x)` -/
def computeWeights (boundary : Bool) (x0 : Ext) (segs : List Seg) : Except WErr (List Rat) :=
  let n := segs.length + 1
  if n = 1 then .ok [1]
  else if !boundary && n = 3 then .ok [0, 1, 0]
  else if !(boundary || n > 3) then .error .shape
  else
    match clipAll (rawWeights x0 segs) with
    | .error e => .error e
    | .ok w => if boundary then .ok w else renorm w

/-! ## the unweighted trapezoidal rule and the uniform distribution -/

/-- `GlobalTrapezoidalGrid.compute_weights(grid_1D, a, b, False)` on the grid `x1 :: xs` -/
def trapAcc (carry : Rat) (x1 : Rat) : List Rat → List Rat
  | [] => [carry]
  | x2 :: xs => (carry + (x2 - x1) / 2) :: trapAcc ((x2 - x1) / 2) x2 xs

def trapWeights (x0 : Rat) (xs : List Rat) : List Rat := trapAcc 0 x0 xs

/-- clamp to the support `[a,b]` -/
def clamp (a b x : Rat) : Rat := max a (min x b)

/-- zeroth moment of `Uniform(a,b)` on `[x1,x2]` (`cdf(x2) - cdf(x1)`) -/
def uniM0 (a b x1 x2 : Rat) : Rat := (clamp a b x2 - clamp a b x1) / (b - a)

/-- first moment of `Uniform(a,b)` on `[x1,x2]` (`∫ x·pdf`) -/
def uniM1 (a b x1 x2 : Rat) : Rat :=
  (clamp a b x2 * clamp a b x2 - clamp a b x1 * clamp a b x1) / (2 * (b - a))

/-- the intervals of the finite grid `x1 :: xs` with the moments of `Uniform(a,b)` -/
def uniSegs (a b : Rat) (x1 : Rat) : List Rat → List Seg
  | [] => []
  | x2 :: xs => { x := .fin x2, m0 := uniM0 a b x1 x2, m1 := uniM1 a b x1 x2 } :: uniSegs a b x2 xs

/-! ## `_prepare_distributions`: which distribution object a dimension uses -/

/-- the user's `distr_info` tuple (the dictionary key of `known_distributions`) -/
inductive Spec where
  | uniform
  | triangle (mid : Rat)
  | normal (mu sigma : Rat)
deriving DecidableEq, Repr

/-- index of the first occurrence -/
def firstIdx {α : Type} [DecidableEq α] (s : α) : List α → Nat
  | [] => 0
  | t :: ts => if t = s then 0 else firstIdx s ts + 1

/-- for every dimension `d` the dimension `d_prev` whose `UQDistribution` object it (re)uses:
`known_distributions` is keyed by `distr_info` only -/
def reuseIdx (specs : List Spec) : List Nat := specs.map (fun s => firstIdx s specs)

/-- the domain `(a[d'], b[d'])` the distribution object of dimension `d` was built with, `d' = reuseIdx[d]` -/
def effDomains (specs : List Spec) (doms : List (Rat × Rat)) : List (Option (Rat × Rat)) :=
  (reuseIdx specs).map (fun i => doms[i]?)

/-- the key of the REPAIRED `_prepare_distributions` (proposed fix): the domain is part of the key for the
families that are built from `a[d], b[d]` -/
def keyOf (s : Spec) (dom : Rat × Rat) : Spec × Option (Rat × Rat) :=
  match s with
  | .normal _ _ => (s, none)
  | _ => (s, some dom)

/-- reuse indices of the repaired code; `dims[d] = (spec, domain)` (the domain entry of a Normal is ignored) -/
def reuseIdxKeyed (dims : List (Spec × (Rat × Rat))) : List Nat :=
  let keys := dims.map (fun p => keyOf p.1 p.2)
  keys.map (fun k => firstIdx k keys)

/-! ## moments -/

/-- a finite quadrature rule applied to a scalar model: pairs (weight, model value at the node) -/
abbrev Rule := List (Rat × Rat)

def wsum (r : Rule) : Rat := (r.map (·.1)).sum

/-- `calculate_moment(k=1)`: `Σ W_i f_i` -/
def E (r : Rule) : Rat := (r.map fun p => p.1 * p.2).sum

/-- `calculate_moment(k=2)`, resp. the integral of `FunctionPower(f, 2)`: `Σ W_i f_i²` -/
def E2 (r : Rule) : Rat := (r.map fun p => p.1 * (p.2 * p.2)).sum

/-- `if v < 0.0: variance[i] = -v` -/
def flipNeg (v : Rat) : Rat := if v < 0 then -v else v

/-- variance as reported for one component -/
def Var (r : Rule) : Rat := flipNeg (E2 r - E r * E r)

/-- `moments_to_expectation_variance(mom1, mom2)` (Python raises IndexError if `mom2` is shorter; it never
is after the split in `calcExpVar`) -/
def momentsToExpVar (mom1 mom2 : List Rat) : List Rat × List Rat :=
  (mom1, List.zipWith (fun ex m2 => flipNeg (m2 - ex * ex)) mom1 mom2)

/-- the combi integral of `FunctionConcatenate([f, FunctionPower(f,2)])` for the rule with weights `W`;
`cols[j]` are the values of component `j` at the nodes -/
def integralVec (W : List Rat) (cols : List (List Rat)) : List Rat :=
  cols.map (fun c => E (W.zip c)) ++ cols.map (fun c => E2 (W.zip c))

/-- `calculate_expectation_and_variance` applied to the integral vector -/
def calcExpVar (integral : List Rat) : List Rat × List Rat :=
  let od := integral.length / 2
  momentsToExpVar (integral.take od) (integral.drop od)

/-- the model `c·f + e` evaluated at the same nodes -/
def affine (c e : Rat) (r : Rule) : Rule := r.map fun p => (p.1, c * p.2 + e)

/-- the constant model `k` at the same nodes -/
def constRule (k : Rat) (r : Rule) : Rule := r.map fun p => (p.1, k)

/-! ## product and combination of rules -/

/-- `np.prod(get_cross_product_list(self.weights), axis=1)` -/
def tensorW : List (List Rat) → List Rat
  | [] => [1]
  | w :: ws => w.flatMap fun x => (tensorW ws).map (x * ·)

/-- `StandardCombi.get_points_and_weights`: weights of all component grids times their coefficient -/
def combineW (comps : List (Rat × List Rat)) : List Rat :=
  comps.flatMap fun p => p.2.map (p.1 * ·)

end SparseSpace.UQ
