import SparseSpace.Model.BinTree
/-!
# Model of the Romberg extrapolation grids of `sparseSpACE/Extrapolation.py` (property C11)

Exact rational arithmetic (`Rat`) instead of floats.  Mirrors, as coded:

* `ExtrapolationCoefficients.get_romberg_coefficient` (product formula; exponent 1 = `ROMBERG_LINEAR`,
  2 = `ROMBERG_DEFAULT`, 3 = `ROMBERG_SIMPSON`), `RombergTrapezoidalWeights`, `RombergSimpsonWeights`;
* `ExtrapolationGrid.set_grid` / `__init_grid_slices` / `compute_support_sequence` / grouping of slices into
  containers / `adjust_containers` / `get_weights` / `integrate` for slice versions `ROMBERG_DEFAULT`, `TRAPEZOID`
  and container versions `ROMBERG_DEFAULT`, `SIMPSON_ROMBERG` (the Lagrange containers and the
  constant-subtraction slices are outside property C11);
* `BalancedExtrapolationGrid.set_grid` / `get_weights`.

Modelling decisions (each compared with the implementation on every run by `harness/c11.py`):
* Python computes the support sequence of each slice by a separate recursion over index windows; `slicesRec`
  produces all slices with their support sequences in one recursion over the level list using the same
  first-minimum rule (`splitMin`).
* Python collects weights in a dictionary keyed by the (float) grid point and returns them sorted by key.  `set_grid`
  only succeeds on strictly increasing grids (slice constructor: `interval[0] < interval[1]`), and every grid point
  is a key (the last support pair of a slice is the slice itself), so "sorted by key" = "in grid order":
  `finalWeights` returns, for every grid point in order, the sum of the contributions with that key.
* slices are grouped into maximal runs of equal width by a right fold (`groupRuns`); Python does the same by a left
  to right scan comparing with the previous width.
-/
namespace SparseSpace.Romberg
open SparseSpace

/-- `x ** n` -/
def rpow (x : Rat) : Nat → Rat
  | 0 => 1
  | n + 1 => rpow x n * x

/-- `Σ_{j = lo}^{lo+n-1} f j`  (Python `for j in range(lo, lo + n)`) -/
def sumRange (lo : Nat) : Nat → (Nat → Rat) → Rat
  | 0, _ => 0
  | n + 1, f => sumRange lo n f + f (lo + n)

/-- `ExtrapolationCoefficients.get_step_width(j) = (b - a) / 2 ** j` -/
def stepWidth (a b : Rat) (j : Nat) : Rat := (b - a) / rpow 2 j

/-- the loop of `get_romberg_coefficient` over `i in range(n)` -/
def coeffAux (a b : Rat) (e j : Nat) : Nat → Rat
  | 0 => 1
  | n + 1 =>
    coeffAux a b e j n *
      (if n = j then 1
       else rpow (stepWidth a b n) e / (rpow (stepWidth a b n) e - rpow (stepWidth a b j) e))

/-- `get_romberg_coefficient(m, j, exponent)` -/
def coeff (a b : Rat) (e m j : Nat) : Rat := coeffAux a b e j (m + 1)

/-- `RombergTrapezoidalWeights.get_boundary_point_weight(max_level)` (coefficients of exponent `e`) -/
def trapBoundary (a b : Rat) (e m : Nat) : Rat :=
  sumRange 0 (m + 1) (fun j => coeff a b e m j * stepWidth a b j / 2)

/-- `RombergTrapezoidalWeights.get_inner_point_weight(level, max_level)` (the assert `1 ≤ level ≤ max_level` is
    checked by the caller) -/
def trapInner (a b : Rat) (e l m : Nat) : Rat :=
  sumRange l (m + 1 - l) (fun j => coeff a b e m j * stepWidth a b j)

/-- `RombergSimpsonWeights.get_boundary_point_weight(max_level)`: level 0 is a single interval and contributes the
    trapezoidal row (`/ 2`), the Simpson rows of the levels `j ≥ 1` contribute `/ 3` -/
def simpBoundary (a b : Rat) (m : Nat) : Rat :=
  sumRange 0 (m + 1) (fun j => coeff a b 3 m j * stepWidth a b j / (if j = 0 then 2 else 3))

/-- `RombergSimpsonWeights.get_inner_point_weight(level, max_level)` -/
def simpInner (a b : Rat) (l m : Nat) : Rat :=
  coeff a b 3 m l * 4 / 3 * stepWidth a b l
    + sumRange (l + 1) (m - l) (fun j => coeff a b 3 m j * stepWidth a b j * 2 / 3)

/-! ## slices -/

inductive Grouping where
  | unit | grouped | optimized
  deriving DecidableEq, Repr

inductive SliceVer where
  | romberg | trapezoid
  deriving DecidableEq, Repr

inductive ContVer where
  | default | simpson
  deriving DecidableEq, Repr

structure Cfg where
  grouping : Grouping
  sliceVer : SliceVer
  contVer : ContVer
  forceBalanced : Bool
  deriving Repr

/-- `ExtrapolationGridSlice`: interval, levels of its end points, support sequence -/
structure Slice where
  xl : Rat
  xr : Rat
  ll : Nat
  lr : Nat
  seq : List (Rat × Rat)
  deriving Repr

def Slice.maxLevel (s : Slice) : Nat := max s.ll s.lr
def Slice.width (s : Slice) : Rat := s.xr - s.xl

/-- all slices between the grid points `L` and `R` (inner points `inner`) with their support sequences;
    `pre` = support pairs collected so far, ending with `(L, R)` (`compute_support_sequence`) -/
def slicesRec : Nat → PL → List PL → PL → List (Rat × Rat) → List Slice
  | 0, _, _, _, _ => []
  | fuel + 1, L, inner, R, pre =>
    match splitMin inner with
    | none => [⟨L.1, R.1, L.2, R.2, pre⟩]
    | some (lp, x, rp) =>
      slicesRec fuel L lp x (pre ++ [(L.1, x.1)]) ++ slicesRec fuel x rp R (pre ++ [(x.1, R.1)])

/-- first, inner and last element of a list with at least two elements -/
def ends {α : Type} : List α → Option (α × List α × α)
  | [] => none
  | first :: rest =>
    match rest.reverse with
    | [] => none
    | last :: innerRev => some (first, innerRev.reverse, last)

/-- the slices of a grid (with levels), in grid order -/
def slicesOf (g : List PL) : Option (Rat × Rat × List Slice) :=
  match ends g with
  | none => none
  | some (first, inner, last) =>
    some (first.1, last.1, slicesRec (inner.length + 1) first inner last [(first.1, last.1)])

/-- the three assertions on a slice in `__init_grid_slices` / `ExtrapolationGridSlice.__init__` -/
def sliceOk (a b : Rat) (s : Slice) : Bool :=
  decide (s.xr - s.xl = stepWidth a b s.maxLevel) && decide (s.xl < s.xr)
    && decide (s.maxLevel + 1 = s.seq.length)

/-- `RombergGridSlice.get_weight_for_left_and_right_support_point` (expression as coded) -/
def supportWeights (s : Slice) (L R : Rat) : Rat × Rat :=
  let spr := L / (L - R)
  let ssr := (1 / 2) * ((s.xr + s.xl) / (L - R))
  (s.width * (1 - spr + ssr), s.width * (spr - ssr))

/-- loop of `RombergGridSlice.get_final_weights` over the support sequence, `k` = current level;
    `none` = assertion of `get_weight_for_left_and_right_support_point` fails -/
def rombergContribs (s : Slice) (a b : Rat) : List (Rat × Rat) → Nat → Option (List (Rat × Rat))
  | [], _ => some []
  | (L, R) :: rest, k =>
    if L ≤ s.xl ∧ R ≥ s.xr ∧ L ≠ R then
      match rombergContribs s a b rest (k + 1) with
      | none => none
      | some t =>
        let c := coeff a b 2 s.maxLevel k
        let w := supportWeights s L R
        some ((L, c * w.1) :: (R, c * w.2) :: t)
    else none

/-- `get_final_weights` of a single slice: list of (grid point, weight) contributions -/
def sliceContribs (v : SliceVer) (s : Slice) : Option (List (Rat × Rat)) :=
  match v with
  | .trapezoid => some [(s.xl, s.width / 2), (s.xr, s.width / 2)]
  | .romberg =>
    match s.seq with
    | [] => none
    | (a, b) :: _ => rombergContribs s a b s.seq 0

/-! ## containers -/

/-- maximal runs of slices of equal width (`__initialize_default_containers`); with `UNIT` grouping every slice is
    its own container -/
def groupRuns (unit : Bool) : List Slice → List (List Slice)
  | [] => []
  | s :: rest =>
    match groupRuns unit rest with
    | [] => [[s]]
    | [] :: cs => [s] :: cs
    | (t :: c) :: cs => if !unit && decide (s.width = t.width) then (s :: t :: c) :: cs else [s] :: (t :: c) :: cs

/-- `math.log(n, 2).is_integer()` for `n ≥ 1` -/
def isPow2 : Nat → Nat → Bool
  | 0, n => n == 1
  | fuel + 1, n => n == 1 || (n % 2 == 0 && n ≥ 2 && isPow2 fuel (n / 2))

/-- `find_closest_power_below(n)`: the largest power of two `≤ n` (`1` for `n ≤ 1`) -/
def powBelow : Nat → Nat → Nat
  | 0, _ => 1
  | fuel + 1, n => if n < 2 then 1 else 2 * powBelow fuel (n / 2)

/-- `split_into_containers_with_power_two_sizes` -/
def splitPow2 : Nat → List Slice → List (List Slice)
  | 0, _ => []
  | fuel + 1, c =>
    if c.isEmpty then [] else
    let k := powBelow c.length c.length
    c.take k :: splitPow2 fuel (c.drop k)

/-- `adjust_containers` -/
def adjust (g : Grouping) (cs : List (List Slice)) : List (List Slice) :=
  cs.flatMap fun c =>
    if isPow2 c.length c.length then [c]
    else if g = .optimized then splitPow2 c.length c
    else c.map fun s => [s]

/-- `__get_normalized_grid_levels(start, stop, level)`; `start ≥ 1` in every call -/
def normLevels : Nat → Nat → Nat → Nat → List Nat
  | 0, _, _, _ => []
  | fuel + 1, start, stop, level =>
    let middle := (start + stop) / 2
    if start > stop then [] else
    if start = stop then [level] else
    (if middle ≤ start then [] else normLevels fuel start (middle - 1) (level + 1))
      ++ level :: normLevels fuel (middle + 1) stop (level + 1)

def listMax : List Nat → Nat
  | [] => 0
  | x :: xs => max x (listMax xs)

/-- points of a container: `get_grid()` -/
def contPoints : List Slice → List Rat
  | [] => []
  | [s] => [s.xl, s.xr]
  | s :: rest => s.xl :: contPoints rest

def lastXr : List Slice → Rat → Rat
  | [], d => d
  | [s], _ => s.xr
  | _ :: rest, d => lastXr rest d

/-- weights of the inner points of a container with ≥ 2 slices; `none` = `assert 1 <= level <= max_level` -/
def innerWeights (cv : ContVer) (a b : Rat) (k : Nat) : List Nat → Option (List Rat)
  | [] => some []
  | l :: ls =>
    if 1 ≤ l ∧ l ≤ k then
      match innerWeights cv a b k ls with
      | none => none
      | some t => some ((match cv with | .default => trapInner a b 2 l k | .simpson => simpInner a b l k) :: t)
    else none

/-- `RombergGridSliceContainer.get_final_weights` / `SimpsonRombergGridSliceContainer.get_final_weights` -/
def containerContribs (sv : SliceVer) (cv : ContVer) (c : List Slice) : Option (List (Rat × Rat)) :=
  match c with
  | [] => none
  | [s] => sliceContribs sv s
  | s :: _ =>
    let a := s.xl
    let b := lastXr c s.xr
    let pts := contPoints c
    let nl := normLevels pts.length 1 (pts.length - 2) 1
    let k := listMax nl
    let bw := match cv with | .default => trapBoundary a b 2 k | .simpson => simpBoundary a b k
    match innerWeights cv a b k nl with
    | none => none
    | some iw => some (pts.zip (bw :: (iw ++ [bw])))

def allContribs (sv : SliceVer) (cv : ContVer) : List (List Slice) → Option (List (Rat × Rat))
  | [] => some []
  | c :: cs =>
    match containerContribs sv cv c, allContribs sv cv cs with
    | some x, some y => some (x ++ y)
    | _, _ => none

def rsum : List Rat → Rat
  | [] => 0
  | x :: xs => x + rsum xs

/-- weight of a grid point: sum of the contributions stored under that key -/
def weightAt (contribs : List (Rat × Rat)) (g : Rat) : Rat :=
  rsum ((contribs.filter (fun e => decide (e.1 = g))).map (·.2))

def finalWeights (grid : List Rat) (contribs : List (Rat × Rat)) : List Rat :=
  grid.map (weightAt contribs)

inductive Res (α : Type) where
  | ok (x : α)
  | assertSetGrid       -- AssertionError raised by `set_grid`
  | assertWeights       -- AssertionError raised by `get_weights`
  deriving Repr, DecidableEq

/-- the grid and levels `set_grid` works with (`force_balanced_refinement_tree and len(grid) > 2`) -/
def effectiveGrid (cfg : Cfg) (grid : List Rat) (lv : List Nat) : Option (List Rat × List Nat) :=
  if grid.length ≠ lv.length ∨ grid.length < 2 then none else
  if cfg.forceBalanced && decide (grid.length > 2) then
    match GBT.initTree grid lv with
    | none => none
    | some t => some (t.forceFull.grid, t.forceFull.gridLevels)
  else some (grid, lv)

/-- state after a successful `set_grid`: effective grid and levels, end points and the containers -/
structure EG where
  grid : List Rat
  lv : List Nat
  a : Rat
  b : Rat
  slices : List Slice
  containers : List (List Slice)

/-- `ExtrapolationGrid.set_grid`; `none` = AssertionError -/
def setGrid (cfg : Cfg) (grid : List Rat) (lv : List Nat) : Option EG :=
  match effectiveGrid cfg grid lv with
  | none => none
  | some (g, l) =>
    match slicesOf (g.zip l) with
    | none => none
    | some (a, b, ss) =>
      if ss.all (sliceOk a b) then
        some ⟨g, l, a, b, ss, adjust cfg.grouping (groupRuns (cfg.grouping = .unit) ss)⟩
      else none

/-- `ExtrapolationGrid.get_weights` after `set_grid` -/
def EG.weights (cfg : Cfg) (st : EG) : Option (List Rat) :=
  match allContribs cfg.sliceVer cfg.contVer st.containers with
  | none => none
  | some cs => some (finalWeights st.grid cs)

/-- `set_grid` followed by `get_weights` -/
def weights (cfg : Cfg) (grid : List Rat) (lv : List Nat) : Res (List Rat) :=
  match setGrid cfg grid lv with
  | none => .assertSetGrid
  | some st =>
    match st.weights cfg with
    | none => .assertWeights
    | some w => .ok w

/-- the scalar product of `ExtrapolationGrid.integrate` -/
def dot (ws : List Rat) (fx : List Rat) : Rat :=
  match ws, fx with
  | w :: ws, y :: fx => w * y + dot ws fx
  | _, _ => 0

/-! ## balanced extrapolation grid -/

abbrev Dict := List (Rat × Rat)

/-- `d[k]` of a `defaultdict(float)` -/
def dictGet : Dict → Rat → Rat
  | [], _ => 0
  | e :: d, k => if e.1 = k then e.2 else dictGet d k

def dictHas : Dict → Rat → Bool
  | [], _ => false
  | e :: d, k => decide (e.1 = k) || dictHas d k

/-- `d[k] = v` (insertion order kept, existing key overwritten) -/
def dictSet : Dict → Rat → Rat → Dict
  | [], k, v => [(k, v)]
  | e :: d, k, v => if e.1 = k then (k, v) :: d else e :: dictSet d k v

/-- weight dictionary of level `i`: composite midpoint rule on the leaves of the tree truncated at level `i` -/
def rowDict (t : ITree) (i : Nat) : Dict :=
  (t.leafsOrMax 1 i).foldl (fun d e => dictSet d e.1 e.2) []

/-- `extrapolate_dicts_one_step(left, top_left, k)` -/
def extrapStep (left top : Dict) (k : Nat) : Dict :=
  let c : Rat := (-1) / (rpow 4 k - 1)
  left.map (fun e => (e.1, (1 - c) * e.2 + c * dictGet top e.1))
    ++ (top.filter (fun e => !dictHas left e.1)).map (fun e => (e.1, c * e.2))

/-- next column of the Romberg table: entry `i` from `left = col[i]`, `top_left = col[i-1]` -/
def nextCol (j : Nat) : List Dict → List Dict
  | top :: left :: rest => extrapStep left top j :: nextCol j (left :: rest)
  | _ => []

/-- `n` further columns starting with extrapolation step `j` -/
def table : Nat → Nat → List Dict → List Dict
  | 0, _, col => col
  | n + 1, j, col => table n (j + 1) (nextCol j col)

/-- `BalancedExtrapolationGrid.set_grid` + `get_weights`; `none` = AssertionError / IndexError -/
def balancedWeights (grid : List Rat) (lv : List Nat) : Option (List Rat) :=
  if grid.length ≠ lv.length then none else
  match ends (grid.zip lv) with
  | none => none
  | some (first, inner, last) =>
    if first.2 ≠ 0 ∨ last.2 ≠ 0 then none else
    let t := ITree.build (inner.length + 1) first.1 inner last.1
    if t.isNil || !t.isFull then none else
    let M := listMax lv
    let rows := (List.range M).map (fun i => rowDict t (i + 1))
    match (table (M - 1) 1 rows).getLast? with
    | none => none
    | some d => some (grid.map (dictGet d))

end SparseSpace.Romberg
