/-!
# Runtime helpers for Lean code generated from Python by `tools/py2lean`

Hand-written, import-free.  The generated file `Generated/CombiGen.lean` only refers to these definitions and to
core `List`/`Int`/`Rat` functions.  Conventions (the same as in `Model/Combi.lean`):

* Python `int` is `Int`; `bool` is `Bool`; `float` results of `/` on integers are exact `Rat`s;
* `list` and `tuple` are `List` (value semantics: the translator refuses in-place mutation of an object that may be
  aliased, so copying — `list(x)`, `tuple(x)` — is the identity);
* `set` is a duplicate-free `List` in insertion order (`setOfList`, `setAdd`, `setRemove`, `setUnion`);
* `dict` is an association list with unique keys in insertion order;
* operations that raise in Python (`IndexError`, `KeyError`, `ZeroDivisionError`, unbounded recursion) are
  totalised: they return `default`, leave the container unchanged or return `0`; every theorem that needs the
  non-raising case states it as a hypothesis.
-/
namespace SparseSpace.PyRt

/-! ### `range`, indexing -/

/-- `range(n)` -/
def range (n : Int) : List Int := (List.range n.toNat).map Int.ofNat

/-- `range(a, b)` -/
def range2 (a b : Int) : List Int := (List.range (b - a).toNat).map fun k => a + Int.ofNat k

/-- `len(l)` -/
def len {α : Type} (l : List α) : Int := Int.ofNat l.length

/-- position addressed by the Python index `i` in a sequence of length `n` (negative indices count from the end) -/
def pos? (n : Nat) (i : Int) : Option Nat :=
  if 0 ≤ i then (if i.toNat < n then some i.toNat else none)
  else (if i.natAbs ≤ n then some (n - i.natAbs) else none)

/-- `l[i]` (`IndexError` → `default`) -/
def getItem {α : Type} [Inhabited α] (l : List α) (i : Int) : α :=
  match pos? l.length i with
  | some k => l.getD k default
  | none => default

/-- `l[i] = v` (`IndexError` → unchanged) -/
def setItem {α : Type} (l : List α) (i : Int) (v : α) : List α :=
  match pos? l.length i with
  | some k => l.set k v
  | none => l

/-! ### sets: duplicate-free lists in insertion order -/

/-- `set(l)`: keep first occurrences -/
def setOfList {α : Type} [BEq α] (l : List α) : List α :=
  l.foldl (fun acc x => if acc.contains x then acc else acc ++ [x]) []

/-- `s.add(x)` -/
def setAdd {α : Type} [BEq α] (s : List α) (x : α) : List α := if s.contains x then s else s ++ [x]

/-- `s.remove(x)` (`KeyError` → unchanged) and `s.discard(x)` -/
def setRemove {α : Type} [BEq α] (s : List α) (x : α) : List α := s.erase x

/-- `a | b` -/
def setUnion {α : Type} [BEq α] (a b : List α) : List α := a ++ b.filter fun x => !a.contains x

/-! ### dictionaries: association lists with unique keys -/

/-- `k in d` -/
def dictContains {κ ν : Type} [BEq κ] (m : List (κ × ν)) (k : κ) : Bool := m.any fun p => p.1 == k

/-- `d[k]` (`KeyError` → `default`) -/
def dictGet {κ ν : Type} [BEq κ] [Inhabited ν] (m : List (κ × ν)) (k : κ) : ν :=
  match m.find? fun p => p.1 == k with
  | some p => p.2
  | none => default

/-- `d.get(k)` / `d.get(k, None)` -/
def dictGet? {κ ν : Type} [BEq κ] (m : List (κ × ν)) (k : κ) : Option ν :=
  match m.find? fun p => p.1 == k with
  | some p => some p.2
  | none => none

/-- `d[k] = v` -/
def dictSet {κ ν : Type} [BEq κ] (m : List (κ × ν)) (k : κ) (v : ν) : List (κ × ν) :=
  if m.any (fun p => p.1 == k) then m.map (fun p => if p.1 == k then (p.1, v) else p) else m ++ [(k, v)]

/-- `d.update(zip(ks, vs))` (pairs up to the shorter of the two sequences, in order) -/
def dictUpdateZip {κ ν : Type} [BEq κ] : List (κ × ν) → List κ → List ν → List (κ × ν)
  | d, k :: ks, v :: vs => dictUpdateZip (dictSet d k v) ks vs
  | d, _, _ => d

/-! ### numbers -/

/-- `sum(l)` -/
def sum (l : List Int) : Int := l.foldl (· + ·) 0

/-- `abs(x)` -/
def abs (x : Int) : Int := Int.ofNat x.natAbs

/-- `a % b` (sign of the divisor, as in Python; `b = 0` raises there) -/
def mod (a b : Int) : Int := Int.fmod a b

/-- `a // b` -/
def floorDiv (a b : Int) : Int := Int.fdiv a b

/-- `a ** b` for integers with `b ≥ 0` (a negative exponent gives a float in Python; totalised as exponent 0) -/
def pow (a b : Int) : Int := a ^ b.toNat

/-- `a / b` on integers: Python's float quotient, modelled exactly (`b = 0` raises there) -/
def trueDiv (a b : Int) : Rat := (a : Rat) / (b : Rat)

/-- `math.factorial(n)` (`n < 0` raises there; totalised as `0! = 1`) -/
def factorial (n : Int) : Int :=
  Int.ofNat ((List.range n.toNat).foldl (fun acc k => acc * (k + 1)) 1)

/-! ### numpy integer vectors (as lists) -/

/-- `np.ones(n, dtype=int)` -/
def npOnes (n : Int) : List Int := List.replicate n.toNat 1

/-- `np.full(n, v, dtype=int)` -/
def npFull (n : Int) (v : Int) : List Int := List.replicate n.toNat v

/-- `a + b` on arrays of equal shape -/
def arrAdd (a b : List Int) : List Int := List.zipWith (· + ·) a b

/-- `a - b` on arrays of equal shape -/
def arrSub (a b : List Int) : List Int := List.zipWith (· - ·) a b

/-- `a * c` / `c * a`, array times scalar -/
def arrScale (a : List Int) (c : Int) : List Int := a.map (· * c)

/-- `a + c`, array plus scalar -/
def arrShift (a : List Int) (c : Int) : List Int := a.map (· + c)

/-! ### `itertools.product(*ls)` (first factor varies slowest) -/

def product {α : Type} : List (List α) → List (List α)
  | [] => [[]]
  | a :: as => a.flatMap fun x => (product as).map (x :: ·)

/-! ### `for` loop whose body may `return` -/

/-- `for x in xs: body`; the body either returns from the enclosing function (`.inl r`) or finishes the
iteration with a new loop state (`.inr s`) -/
def forLoop {α σ ρ : Type} : List α → σ → (σ → α → ρ ⊕ σ) → ρ ⊕ σ
  | [], s, _ => .inr s
  | x :: xs, s, f =>
    match f s x with
    | .inl r => .inl r
    | .inr s' => forLoop xs s' f

/-! ### `while` loops -/

/-- `while …:` with an explicit fuel (Python has none: running out of fuel stands for a loop that does not end
and returns the state reached).  One round maps the loop state to `(go_on, new state)`; `go_on = false` is `break`
or a false loop condition. -/
def whileSt {σ : Type} : Nat → σ → (σ → Bool × σ) → σ
  | 0, s, _ => s
  | f + 1, s, step => if (step s).1 then whileSt f (step s).2 step else (step s).2

/-- `for x in xs: …` whose body may `break`: one round maps the loop state to `(go_on, new state)` -/
def forBreak {α σ : Type} : List α → σ → (σ → α → Bool × σ) → σ
  | [], s, _ => s
  | x :: xs, s, f => if (f s x).1 then forBreak xs (f s x).2 f else (f s x).2

/-! ### floats that are quotients of integers (exact) -/

/-- `int(x)` for a float: truncation towards zero -/
def truncQ (x : Rat) : Int := if 0 ≤ x then x.floor else x.ceil

/-- `math.ceil(x)` -/
def ceilQ (x : Rat) : Int := x.ceil

/-! ### reductions over lists -/

/-- `max(l)` (`ValueError` for the empty list → `0`) -/
def maxList (l : List Int) : Int :=
  match l with
  | [] => 0
  | x :: xs => xs.foldl max x

/-- `sorted(l)` (ascending, stable insertion sort) -/
def insertSorted (x : Int) : List Int → List Int
  | [] => [x]
  | y :: ys => if x ≤ y then x :: y :: ys else y :: insertSorted x ys

def sorted (l : List Int) : List Int := l.foldr insertSorted []

/-- `int(b)` / a `bool` used in arithmetic -/
def boolToInt (b : Bool) : Int := if b then 1 else 0

/-- `all(l)` -/
def all (l : List Bool) : Bool := l.all id

/-- `any(l)` -/
def any (l : List Bool) : Bool := l.any id

/-! ### external classes -/

/-- `sparseSpACE.ComponentGridInfo.ComponentGridInfo(levelvector, coefficient)`; the coefficient is an `int`
(adaptive scheme) or the float quotient of integers (closed form), both embedded in `Rat` -/
structure ComponentGridInfo where
  levelvector : List Int
  coefficient : Rat
deriving Repr, Inhabited, BEq

end SparseSpace.PyRt
