"""C03 / C04 / C06 translator tie: the integer and decision logic of the dimension-wise strategy
(is_child, modify_according_to_levelvec, get_max_level, get_subtraction_value for versions 2,3,6,7,8) is regenerated
from the CURRENT sparseSpACE/spatiallyAdaptiveSingleDimension2.py on every run (tools/py2lean, spec specs/dimwise.json).

  identical to the committed lean/SparseSpace/Generated/DimWiseGen.lean -> tie holds by the audited theorems of
  Properties/C03gen.lean (count gen-tie_identical);
  changed -> the fresh file, Lemmas/DimWiseGen*.lean and Properties/C03gen.lean are recompiled in
  <LEAN>/.gen-scratch/<pid>/ against the built library: all proofs check -> gen-tie_regenerated-ok, otherwise
  ctx.corr_break("gen-tie", ...) with the first error / translator message and the diff, then a DIRECTED search:
  the fresh definitions are evaluated next to the hand model on a box of small inputs (lean --run,
  dimwise_gen_diff.lean); histories of exactly the disagreeing versions / dimensions (else: a sweep over all versions)
  are run on the real implementation through the unchanged History driver (correspondence + oracle)."""
import difflib
import os
import re
import shutil
import subprocess
import sys
import time

import common
import c01_gen

TOOL = c01_gen.TOOL
SPEC = os.path.join(common.ROOT, "tools", "py2lean", "specs", "dimwise.json")
COMMITTED = os.path.join(common.LEAN, "SparseSpace", "Generated", "DimWiseGen.lean")
DIFF_DRIVER = os.path.join(os.path.dirname(os.path.abspath(__file__)), "dimwise_gen_diff.lean")
SOURCE = "sparseSpACE/spatiallyAdaptiveSingleDimension2.py"
TRUSTED = ("translator tie (dimension-wise logic): tools/py2lean, the interface declaration tools/py2lean/specs/dimwise.json (state attributes "
           "and their types, members of RefinementObjectSingleDimension / RefinementContainer that are read, the assumption version in "
           "{2,3,6,7,8} under which dead branches are cut, fuel of the while loops) and the helper semantics of Model/PyRt.lean "
           "(exact Rat for float division / int() / math.ceil) are trusted; cross-checked by the unchanged correspondence test on the real Python")


def proof_files():
    lem = os.path.join(common.LEAN, "SparseSpace", "Lemmas")
    files = {}
    for f in sorted(os.listdir(lem)):
        if re.fullmatch(r"DimWiseGen\w*\.lean", f):
            files["SparseSpace.Lemmas." + f[:-5]] = os.path.join(lem, f)
    files["SparseSpace.Properties.C03gen"] = os.path.join(common.LEAN, "SparseSpace", "Properties", "C03gen.lean")
    deps = {m: re.findall(r"^import\s+(\S+)", open(p).read(), re.M) for m, p in files.items()}
    dirty = {"SparseSpace.Generated.DimWiseGen"}
    changed = True
    while changed:
        changed = False
        for m in files:
            if m not in dirty and any(d in dirty for d in deps[m]):
                dirty.add(m)
                changed = True
    order, done = [], set()

    def visit(m):
        if m in done or m not in files or m not in dirty:
            return
        done.add(m)
        for d in deps[m]:
            visit(d)
        order.append(m)
    for m in files:
        visit(m)
    return [(m, files[m]) for m in order], dirty


def scratch_name(mod):
    parts = mod.split(".")
    return "GenScratch." + (parts[-1] if parts[-2] == "Generated" else parts[-2] + "_" + parts[-1])


def compile_fresh(scratch, env, budget=150.0):
    t0 = time.time()
    gdir = os.path.join(scratch, "GenScratch")
    order, dirty = proof_files()
    jobs = [("GenScratch.DimWiseGen", os.path.join(gdir, "DimWiseGen.lean"))]
    for mod, path in order:
        src = re.sub(r"^import\s+(\S+)", lambda m: "import " + (scratch_name(m.group(1)) if m.group(1) in dirty else m.group(1)),
                     open(path).read(), flags=re.M)
        dst = os.path.join(gdir, scratch_name(mod).split(".")[-1] + ".lean")
        open(dst, "w").write(src)
        jobs.append((scratch_name(mod), dst))
    for mod, path in jobs:
        left = budget - (time.time() - t0)
        try:
            r = subprocess.run(["lean", "-o", path[:-5] + ".olean", path], cwd=scratch, env=env, capture_output=True, text=True,
                               timeout=max(5.0, left))
        except subprocess.TimeoutExpired:
            return False, mod, "timeout while compiling " + mod, time.time() - t0
        out = r.stdout + r.stderr
        if r.returncode != 0 or re.search(r": error", out) or "sorry" in out:
            m = re.search(r"^.*?: error.*?(?=^\S+?:\d+:\d+: |\Z)", out, re.M | re.S)
            return False, mod, (m.group(0) if m else out)[:1500], time.time() - t0
    return True, "", "", time.time() - t0


def lean_disagreements(scratch, env):
    dst = os.path.join(scratch, "GenScratch", "Diff.lean")
    shutil.copy(DIFF_DRIVER, dst)
    try:
        r = subprocess.run(["lean", "--run", dst], cwd=scratch, env=env, capture_output=True, text=True, timeout=90)
    except subprocess.TimeoutExpired:
        return [], "timeout"
    res = []
    for line in r.stdout.splitlines():
        m = re.match(r"DIS (\S+) version (\d+) dim (\d+) d (\d+)(.*)", line.strip())
        if m:
            res.append({"function": m.group(1), "version": int(m.group(2)), "dim": int(m.group(3)), "d": int(m.group(4)), "input": m.group(5).strip()[:200]})
    return res, ("" if r.returncode == 0 else (r.stdout + r.stderr)[-600:])


def directed_configs(ctx, wanted):
    """configurations of the unchanged history generator, filtered: first the (version, dim) pairs on which the fresh
    definitions disagree with the model, then every version in dims 2 and 3"""
    import dimwise_common as dw
    targets = list(wanted) + [(v, d) for v in dw.VERSIONS for d in (2, 3)]
    seen, out = set(), []
    for version, dim in targets:
        for rep in range(2):
            key = (version, dim, rep)
            if key in seen:
                continue
            seen.add(key)
            cfg = None
            for _ in range(200):
                c = dw.gen_config(ctx, False, True)
                if (dim == 0 or c["dim"] == dim) and (version == 0 or c["version"] == version):
                    cfg = c
                    break
            if cfg is not None:
                if (version, dim) in wanted and rep == 1:
                    # deep, unbalanced refinement trees: large differences lmax - max_level, where the subtraction values matter most
                    n = 8 if cfg["dim"] <= 2 else 5
                    cfg.update(rebalancing=False, steps=n, observe=[k % 2 == 1 for k in range(n)], manual=[False] * n,
                               recall=[False] * n, resume=[False] * (n + 1))
                out.append(cfg)
    return out


def run(ctx, drv, prop, check_points=True):
    """the tie check of the dimension-wise logic; on failure histories are run through dimwise_common.History
    (drv = None: only the tie is checked and reported, the caller's own harness is the search)"""
    import dimwise_common as dw
    info = {"translator": os.path.relpath(TOOL, common.ROOT), "spec": os.path.relpath(SPEC, common.ROOT), "source": os.path.join(common.REPO, SOURCE)}
    ctx.extra["translator_tie"] = info
    ctx.extra["trusted_base"] = list(ctx.extra.get("trusted_base", common.TRUSTED_BASE)) + [TRUSTED]
    if not (os.path.exists(COMMITTED) and os.path.exists(os.path.join(common.LEAN, "SparseSpace", "Properties", "C03gen.lean"))):
        info.update(status="not-installed")          # Lean side of the tie absent in this Lean directory: nothing to compare with
        ctx.count("gen-tie_not-installed")
        return info
    scratch = os.path.join(common.LEAN, ".gen-scratch", str(os.getpid()))
    t0 = time.time()
    try:
        os.makedirs(os.path.join(scratch, "GenScratch"), exist_ok=True)
        fresh = os.path.join(scratch, "GenScratch", "DimWiseGen.lean")
        r = subprocess.run([sys.executable, "-W", "ignore", TOOL, "--repo", common.REPO, "--spec", SPEC, "--out", fresh,
                            "--json", os.path.join(scratch, "DimWiseGen.json")], capture_output=True, text=True)
        committed = open(COMMITTED).read() if os.path.exists(COMMITTED) else ""
        env, have_fresh = None, False
        if r.returncode != 0:
            msg = "\n".join(l for l in (r.stderr or r.stdout).splitlines() if "SyntaxWarning" not in l and "py2lean" in l)[-800:] or (r.stderr or r.stdout)[-800:]
            info.update(status="translation-failed", message=msg)
            ctx.count("gen-tie_translation-failed")
            ctx.corr_break("gen-tie", {"kind": "translator-tie", "stage": "translate", "source": SOURCE},
                           {"message": msg, "note": "the source left the translated Python subset / the declared interface: the generated "
                            "model cannot be regenerated, the theorems of Properties/C03gen do not cover the current code"})
        else:
            text = open(fresh).read()
            if text == committed:
                info.update(status="identical", wall_s=round(time.time() - t0, 2))
                ctx.count("gen-tie_identical")
                return info
            diff = "".join(difflib.unified_diff(committed.splitlines(True), text.splitlines(True), "committed/DimWiseGen.lean", "regenerated/DimWiseGen.lean"))
            env = c01_gen._lean_env(scratch)
            ctx.lean_build(["SparseSpace.Properties.C03gen"])      # the library modules the scratch files import (no-op when built)
            ok, stage, msg, secs = compile_fresh(scratch, env)
            info.update(compile_s=round(secs, 1), diff_lines=diff.count("\n"))
            if ok:
                info.update(status="regenerated-ok", wall_s=round(time.time() - t0, 2), diff=diff[:3000])
                ctx.count("gen-tie_regenerated-ok")
                return info
            info.update(status="proof-failed", failed_module=stage, message=msg)
            ctx.count("gen-tie_proof-failed")
            ctx.corr_break("gen-tie", {"kind": "translator-tie", "stage": "compile", "module": stage, "source": SOURCE},
                           {"first_error": msg, "diff_generated_vs_committed": diff[:6000]})
            have_fresh = stage != "GenScratch.DimWiseGen"
        # ---------------------------------------------------------------- directed search
        t1 = time.time()
        wanted = []
        if have_fresh and env is not None:
            dis, note = lean_disagreements(scratch, env)
            info["lean_disagreements"] = dis[:10]
            if note:
                info["lean_diff_driver_note"] = note
            for x in dis:
                if (x["version"], x["dim"]) not in wanted:
                    wanted.append((x["version"], x["dim"]))
        found_before, tried = len(ctx.violations), 0
        if info.get("lean_disagreements"):
            ctx.corr_break("gen-tie/inputs-where-regenerated-and-model-differ", {"kind": "translator-tie"}, info["lean_disagreements"][:6])
        for cfg in (directed_configs(ctx, wanted) if drv is not None else []):
            if len(ctx.violations) > found_before or time.time() - t1 > 60:
                break
            tried += 1
            ctx.count("gen-tie_directed_history")
            h = dw.History(ctx, drv, cfg, prop, check_points=check_points, max_points=250)
            try:
                h.run()
            except Exception:
                import traceback
                ctx.corr_break("gen-tie/directed-exception", h.snapshot(), traceback.format_exc()[-1500:])
            ctx.case(h.case, nontrivial=h.nontrivial)
        info.update(directed_tried=tried, directed_found=len(ctx.violations) - found_before, wall_s=round(time.time() - t0, 2))
        return info
    finally:
        shutil.rmtree(scratch, ignore_errors=True)
        try:
            os.rmdir(os.path.join(common.LEAN, ".gen-scratch"))
        except OSError:
            pass
