"""C13 -- the adaptive driver honours its stopping rules and reports truthful numbers.

Implementation side: complete adaptive runs (performSpatiallyAdaptiv) of the dimension-wise strategy
(SpatiallyAdaptiveSingleDimensions2 + GlobalTrapezoidalGrid) and of extend-split (SpatiallyAdaptiveExtendScheme +
TrapezoidalGrid) with operation Integration, dyadic polynomial integrands (scalar / vector valued) that count their own
distinct evaluation points, references (exact / perturbed / zero / partially zero / none), norms inf, 1, 2.
A scout run (tol=-1) records the observation stream (error_i, points_i, surplus_i); limits are then placed EXACTLY on
the boundaries of that stream (tol = err_j, min = pts_j (+1), max = pts_j (-1), limits met at the first evaluation).

Correspondence: the Lean model (Model/AdaptDriver via drv_c13) is fed the scout stream and the limits and must predict
the stop index, the number of evaluations / refinements and the array lengths of the real run; its error formula,
benefit, totals and point-cache are compared with the implementation's numbers.
Oracle: the clauses of the property evaluated directly on the returned tuple and on the observed run."""
import contextlib
import io
import math
from fractions import Fraction

from common import frac_str, close

MAX_EVALS_GUARD = 45          # a run that evaluates more often than this is cut (never reached by the generators)
ES_V123_EVAL_POINTS = True      # see gen_cfg (fix-2 applied: the recorded count is the one the stopping rule reads)
FIXED_BLOCK = 7                 # configurations 0..6 of every run are directed families (see run())
MAX_POINTS_GUARD = 4000      # ... and so is a run that evaluates far more points than any generated limit allows
STRATEGIES = ("dimwise", "extend_split")
_CLS = {}


class Runaway(Exception):
    pass


# ------------------------------------------------------------------------------------------------ implementation side
def _classes():
    """subclasses that observe the run (no change of behaviour); created after sparseSpACE is importable"""
    if _CLS:
        return _CLS
    import numpy as np
    from sparseSpACE.Function import Function
    from sparseSpACE.spatiallyAdaptiveSingleDimension2 import SpatiallyAdaptiveSingleDimensions2
    from sparseSpACE.spatiallyAdaptiveExtendSplit import SpatiallyAdaptiveExtendScheme

    class DyPoly(Function):
        """f_k(x) = prod_d (c_kd + x_d ** p_kd), dyadic coefficients; remembers every distinct evaluation point"""

        def __init__(self, coeffs, powers, scale=1.0):
            super().__init__()
            self.c = [list(map(float, ck)) for ck in coeffs]
            self.p = [list(map(int, pk)) for pk in powers]
            self.scale = float(scale)
            self.seen = {}
            self.calls = 0

        def output_length(self):
            return len(self.c)

        def eval(self, coordinates):
            self.calls += 1
            key = tuple(float(x) for x in coordinates)
            if key not in self.seen:
                self.seen[key] = len(self.seen)
                if len(self.seen) > MAX_POINTS_GUARD:
                    raise Runaway()
            return self.value(key)

        def value(self, key):
            """the function value, without recording the point (used for the analytic comparison values of the
            evaluation_points diagnostics, which are not integrand evaluations of the adaptive process)"""
            out = []
            for ck, pk in zip(self.c, self.p):
                v = self.scale
                for d, x in enumerate(key):
                    v *= ck[d] + x ** pk[d]
                out.append(v)
            return np.array(out)

        def exact(self, a, b):
            out = []
            for ck, pk in zip(self.c, self.p):
                v = Fraction(self.scale)
                for d in range(len(a)):
                    q = pk[d] + 1
                    A, B = Fraction(a[d]), Fraction(b[d])
                    v *= Fraction(ck[d]) * (B - A) + (B ** q - A ** q) / q
                out.append(v)
            return out

    def observe(base, name):
        class Observed(base):
            def evaluate_operation(self):
                r = super().evaluate_operation()
                log = self.__dict__.setdefault("_verif_log", [])
                f = self.__dict__.get("_verif_f") or self.operation.f      # the harness's integrand (operation.f may be a wrapper)
                objs = all_objects(self)
                log.append({"kind": "eval",
                            "result": [float(x) for x in np.atleast_1d(self.operation.get_result())],
                            "seen": len(f.seen), "fdict": self.operation.f.get_f_dict_size(),
                            "objs": [(None if getattr(o, "error", None) is None else float(np.max(o.error)),
                                      None if getattr(o, "benefit", None) is None else float(np.max(o.benefit)),
                                      None if getattr(o, "evaluations", None) is None else float(o.evaluations))
                                     for o in objs],
                            "total_error": float(self.total_error), "benefit_max": float(self.benefit_max)})
                if sum(1 for e in log if e["kind"] == "eval") > MAX_EVALS_GUARD:
                    raise Runaway()
                return r

            def refine(self):
                self.__dict__.setdefault("_verif_log", []).append({"kind": "refine"})
                return super().refine()

            def __call__(self, interpolation_points):
                r = super().__call__(interpolation_points)
                fobs = self.__dict__.get("_verif_f") or self.operation.f
                self.__dict__.setdefault("_verif_log", []).append(
                    {"kind": "call", "values": np.asarray(r, dtype=float).tolist(), "seen": len(getattr(fobs, "seen", {}))})
                return r

        Observed.__name__ = Observed.__qualname__ = name
        Observed.__module__ = __name__
        globals()[name] = Observed
        return Observed

    from sparseSpACE.GridOperation import Integration

    class ObsIntegration(Integration):
        """Integration whose analytic comparison value (`eval_analytic`, used only by the evaluation_points diagnostics of the
        loop) does not pass through the integrand's own record of evaluation points; nothing else differs"""

        def eval_analytic(self, coordinate):
            f = self.f
            return f.value(tuple(float(x) for x in coordinate)) if hasattr(f, "value") else super().eval_analytic(coordinate)

    ObsIntegration.__qualname__ = "ObsIntegration"
    ObsIntegration.__module__ = __name__
    globals()["ObsIntegration"] = ObsIntegration
    _CLS["Integration"] = ObsIntegration
    DyPoly.__qualname__ = "DyPoly"
    DyPoly.__module__ = __name__
    globals()["DyPoly"] = DyPoly
    _CLS["DyPoly"] = DyPoly
    _CLS["dimwise"] = observe(SpatiallyAdaptiveSingleDimensions2, "ObservedDimWise")
    _CLS["extend_split"] = observe(SpatiallyAdaptiveExtendScheme, "ObservedExtendSplit")
    return _CLS


def all_objects(sa):
    ref = sa.refinement
    if hasattr(ref, "refinementContainers"):
        return [o for c in ref.refinementContainers for o in c.get_objects()]
    return list(ref.get_objects())


def quiet(fn, *a, **k):
    with contextlib.redirect_stdout(io.StringIO()):
        return fn(*a, **k)


def norm_of(name):
    import numpy as np
    return {"inf": np.inf, "1": 1, "2": 2}[name]


def box_of(cfg):
    """integration domain: [0,1]^d or a non-cubic dyadic box cfg["box"] = [a, b]"""
    dim = cfg["dim"]
    if cfg.get("box"):
        return [float(x) for x in cfg["box"][0]], [float(x) for x in cfg["box"][1]]
    return [0.0] * dim, [1.0] * dim


def reference_of(cfg, f):
    """the reference solution handed to Integration (an INPUT of the run; need not be the true integral)"""
    import numpy as np
    dim = cfg["dim"]
    exact = f.exact(*box_of(cfg))
    if cfg.get("operation") == "uq":
        # UncertaintyQuantification with Uniform distributions on the box: the combined result is the expectation = integral / volume
        lo, hi = box_of(cfg)
        vol = Fraction(1)
        for d in range(dim):
            vol *= Fraction(hi[d]) - Fraction(lo[d])
        exact = [x / vol for x in exact]
        if cfg.get("uq_moments"):
            # (f, f^2) integrand: the reference is an INPUT of the run; any fixed non-zero vector will do for the error formula
            exact = [exact[0], exact[0] * exact[0] * Fraction(5, 4) + Fraction(1, 8)]
    mode = cfg["ref"]
    if mode == "none":
        return None
    if mode == "exact":
        return np.array([float(x) for x in exact])
    if mode == "perturbed":
        return np.array([float(x) * 1.125 for x in exact])
    if mode == "zero":
        return np.zeros(len(exact))
    if mode == "partial_zero":
        v = [float(x) for x in exact]
        v[0] = 0.0
        return np.array(v)
    raise ValueError(mode)


def ref_class(ref):
    """none / zero / partial_zero (non-zero vector with a zero component: numpy divides by zero) / nonzero"""
    if ref is None:
        return "none"
    z = [float(x) == 0.0 for x in ref]
    return "zero" if all(z) else ("partial_zero" if any(z) else "nonzero")


def make_f(cfg):
    return _classes()["DyPoly"](cfg["coeffs"], cfg["powers"], cfg.get("scale", 1.0))


def build(cfg, f=None, op=None):
    """an instance for configuration cfg -> (instance, error operator, integrand); `f` / `op`: reuse an integrand /
    an Integration operation that already drove an earlier run (object history)"""
    import numpy as np
    from sparseSpACE.Grid import TrapezoidalGrid, GlobalTrapezoidalGrid
    from sparseSpACE.ErrorCalculator import ErrorCalculatorSingleDimVolumeGuided, ErrorCalculatorExtendSplit
    C = _classes()
    Integration = C["Integration"]
    dim = cfg["dim"]
    a, b = (np.array(x, dtype=float) for x in box_of(cfg))
    ctor = dict(cfg.get("ctor") or {})          # further constructor options of the strategy (d. option forwarding)
    if op is not None:
        f = getattr(op, "f_model", None) or op.f      # (UQ keeps the model function; op.f may be the (f, f^2) wrapper)
    if f is None:
        f = make_f(cfg)
        if cfg.get("cache", True) is False:
            f.deactivate_caching()      # f_dict then only serves as the point counter
    ref = reference_of(cfg, f)
    norm = norm_of(cfg["norm"])
    if cfg["strategy"] == "dimwise":
        if op is None:
            kind = cfg.get("grid", "global_trapezoidal")
            if kind == "global_bspline":          # global basis-function grids keep per-component-grid surplusses for interpolation
                from sparseSpACE.Grid import GlobalBSplineGrid
                grid = GlobalBSplineGrid(a, b, boundary=True, modified_basis=False, p=int(cfg.get("p", 3)))
            elif kind == "global_lagrange":
                from sparseSpACE.Grid import GlobalLagrangeGrid
                grid = GlobalLagrangeGrid(a, b, boundary=True, modified_basis=False, p=int(cfg.get("p", 2)))
            else:
                grid = GlobalTrapezoidalGrid(a, b, boundary=True, modified_basis=False)
            if cfg.get("operation") == "uq":
                # the other operation class that accepts a reference solution: UncertaintyQuantification (Uniform distributions on
                # the box, weighted global trapezoidal grid); the reference reaches it through the CONSTRUCTOR or through
                # set_reference_solution(); optionally the vector-valued (f, f^2) moment integrand
                from sparseSpACE.GridOperation import UncertaintyQuantification
                from sparseSpACE.Grid import GlobalTrapezoidalGridWeighted
                if cfg.get("ref_route") == "setter":
                    op = UncertaintyQuantification(f, "Uniform", a, b)
                    op.set_reference_solution(ref)
                else:
                    op = UncertaintyQuantification(f, "Uniform", a, b, reference_solution=ref)
                op.set_grid(GlobalTrapezoidalGridWeighted(a, b, op, boundary=True))
                if cfg.get("uq_moments"):
                    op.set_expectation_variance_Function()
                    if cfg.get("cache", True) is False:
                        op.f.deactivate_caching()
                ctor = dict(ctor, grid_surplusses=op.get_grid())
            else:
                op = Integration(f, grid=grid, dim=dim, reference_solution=ref)
                if cfg.get("surplus_grid") == "operation":
                    # constructor option grid_surplusses=<the operation's grid>: the surplus helper IS the (basis-function) grid
                    ctor = dict(ctor, grid_surplusses=grid)
        eo = ErrorCalculatorSingleDimVolumeGuided()
        sa = C["dimwise"](a, b, version=cfg.get("version", 6), operation=op, norm=norm, print_level=100, log_level=100, **ctor)
    else:
        if op is None:
            kind = cfg.get("grid", "trapezoidal")
            if kind == "gauss_legendre":        # points of different levels are NOT nested
                from sparseSpACE.Grid import GaussLegendreGrid
                grid = GaussLegendreGrid(a, b)
            elif kind == "clenshaw_curtis":
                from sparseSpACE.Grid import ClenshawCurtisGrid
                grid = ClenshawCurtisGrid(a, b, boundary=True)
            else:
                grid = TrapezoidalGrid(a, b, boundary=True, modified_basis=False)
            op = Integration(f, grid=grid, dim=dim, reference_solution=ref)
        eo = ErrorCalculatorExtendSplit()
        sa = C["extend_split"](a, b, version=cfg.get("version", 0), operation=op, norm=norm, **ctor)
        sa.log_util.set_print_level(100)
        sa.log_util.set_log_level(100)
    if cfg.get("recalc"):
        # recalculate_frequently=True (see run_kwargs) with a lowered threshold, so that refine() takes its "evaluate
        # everything again from scratch" branch after a few refined objects instead of after 100
        sa.refinements_for_recalculate = int(cfg["recalc"])
    # the caller's own argument objects (c. argument aliasing: the implementation must not modify them)
    sa.__dict__["_verif_args"] = {"a": a, "b": b, "ref": ref}
    sa.__dict__["_verif_f"] = f
    return sa, eo, f


def run_kwargs(cfg):
    """options of performSpatiallyAdaptiv that belong to the configuration"""
    kw = {"recalculate_frequently": True} if cfg.get("recalc") else {}
    if cfg.get("reeval"):
        kw["reevaluate_at_end"] = True
    if cfg.get("test_scheme"):
        kw["test_scheme"] = True
    if cfg.get("eval_points"):
        kw["evaluation_points"] = [tuple(float(x) for x in p) for p in cfg["eval_points"]]
    return kw


def run_impl(cfg, limits, prior=None):
    """one performSpatiallyAdaptiv; returns dict(status, tuple, log, instance, f).
    prior = {"kind", "limits"[, "strategy"]}: the objects have a HISTORY -- an earlier complete run with other limits
      same_object      the same strategy object runs performSpatiallyAdaptiv a second time
      new_object       a new strategy object of the same class drives the SAME Integration operation
      shared_function  a new operation and strategy object (possibly of the other strategy) share the SAME Function object
    Everything observed (log, the integrand's own record of distinct evaluation points) is reset between the runs, so
    that the checks speak about THIS run: its reported counts must not remember the earlier one."""
    sa, eo, f = build(cfg)
    sibling = None
    if prior is not None and prior["kind"] == "unrelated_sibling":
        # b. SIBLING OBJECTS: an unrelated strategy object (own operation, own integrand, other configuration) has worked before
        # and stays alive; nothing of it may leak into the run under test (class-level state, mutable defaults, module caches)
        try:
            sb, eb, _fb = build(prior["cfg"])
            L1 = prior["limits"]
            quiet(sb.performSpatiallyAdaptiv, 1, prior["cfg"]["lmax"], eb, tol=L1["tol"], max_evaluations=L1["max"],
                  min_evaluations=L1["min"], print_output=False, **run_kwargs(prior["cfg"]))
            sibling = sb
        except Exception:  # noqa: BLE001  (the sibling's own run is not under test here)
            sibling = None
        prior = None
    if prior is not None:
        cfg1 = dict(cfg, strategy=prior.get("strategy", cfg["strategy"]))
        if cfg1["strategy"] != cfg["strategy"]:
            cfg1["version"] = 6 if cfg1["strategy"] == "dimwise" else 0
            cfg1["ctor"] = {}
            cfg1.pop("grid", None)
        L1 = prior["limits"]
        try:
            if prior["kind"] == "shared_function":
                sa1, eo1, _ = build(cfg1, f=f)
            else:
                sa1, eo1 = sa, eo
            quiet(sa1.performSpatiallyAdaptiv, 1, cfg["lmax"], eo1, tol=L1["tol"], max_evaluations=L1["max"],
                  min_evaluations=L1["min"], print_output=False, **run_kwargs(cfg1))
            if prior["kind"] == "new_object":
                sa, eo, _ = build(cfg, op=sa1.operation)
            elif prior["kind"] == "shared_function":
                sa, eo, _ = build(cfg, f=f)
        except Runaway:
            # the EARLIER run was cut by the guards of the harness: no statement about the run under test
            return {"sa": sa, "f": f, "status": "prior-cut", "ret": None, "log": [], "exc": None}
        except Exception as e:  # noqa: BLE001
            return {"sa": sa, "f": f, "status": "exception", "ret": None, "log": [],
                    "exc": "in the earlier run: %s: %s" % (type(e).__name__, e)}
        sa.__dict__["_verif_log"] = []
        f.seen = {}
        f.calls = 0
    kw = run_kwargs(cfg)
    out = {"sa": sa, "f": f, "status": "ok", "ret": None, "exc": None, "kw": kw, "sibling": sibling}
    try:
        out["ret"] = quiet(sa.performSpatiallyAdaptiv, 1, cfg["lmax"], eo, tol=limits["tol"],
                           max_evaluations=limits["max"], min_evaluations=limits["min"], print_output=False, **kw)
    except Runaway:
        out["status"] = "runaway"
    except Exception as e:  # noqa: BLE001
        out["status"] = "exception"
        out["exc"] = "%s: %s" % (type(e).__name__, e)
    out["log"] = list(sa.__dict__.get("_verif_log", []))
    return out


def stream_of(ret):
    return [(float(e), int(p), float(s)) for e, p, s in zip(ret[5], ret[6], ret[7])]


# ------------------------------------------------------------------------------------------------ model side
HUGE = 10 ** 400


def fr(x):
    """exact p/q of a float; a non-finite error (numpy division by a zero reference component: inf / nan) never
    satisfies `error <= tol` and is sent to the model as a huge number"""
    if isinstance(x, float) and not math.isfinite(x):
        return str(HUGE)
    return frac_str(x)


def lim_str(L):
    return "%s %d %s" % (fr(L["tol"]), int(L["min"]), "none" if L["max"] is None else str(int(L["max"])))


def stream_str(stream):
    return ";".join("%s:%d:%s" % (fr(e), p, fr(s)) for e, p, s in stream) if stream else "-"


def parse_stop(line):
    """'stop i=2 evals=3 refines=2 lens=3,3,3 last=1/8:17 pts=[5,9,17]' -> dict ; 'nostop' -> None"""
    if not line.startswith("stop"):
        return None
    d = {}
    for tok in line.split()[1:]:
        k, v = tok.split("=", 1)
        d[k] = v
    return {"i": int(d["i"]), "evals": int(d["evals"]), "refines": int(d["refines"]),
            "lens": [int(x) for x in d["lens"].split(",")], "last": d["last"],
            "pts": [int(x) for x in d["pts"].strip("[]").split(",") if x]}


def stop_rule(L, e, p):
    """the property's rule, written independently of model and code"""
    by_tol = (e <= L["tol"]) and (p >= L["min"])
    by_max = (L["max"] is not None) and (p > L["max"])
    return by_tol or by_max


def error_formula(norm, ref, res):
    """relative (absolute for a zero reference) deviation in the chosen norm, exact rationals; None = undefined.
    2-norm: returns the SQUARE of the value."""
    ref = [Fraction(x) for x in ref]
    res = [Fraction(x) for x in res]
    n = len(res)
    if all(r == 0 for r in ref):
        dev = res
    elif any(r == 0 for r in ref):
        return None
    else:
        dev = [(r - x) / r for r, x in zip(ref, res)]
    if norm == "inf":
        return max(abs(x) for x in dev)
    if norm == "1":
        return sum(abs(x) for x in dev) / n
    return sum(x * x for x in dev) / n


def relclose(a, b, tol):
    a, b = float(a), float(b)
    return a == b or abs(a - b) <= tol * max(abs(a), abs(b))


def error_unit(ref, res):
    """natural size of the reported error: 1 for a relative deviation, max|result| for the absolute one (zero reference);
    integrands are scaled by 1e-12 .. 1e8, so no comparison may use an absolute tolerance"""
    if ref is None or any(float(r) != 0.0 for r in ref):
        return 1.0
    return max([abs(float(x)) for x in res] + [0.0])


def same_error(norm, impl_err, exact, unit=1.0):
    """impl float vs exact Fraction (squared for the 2-norm); relative 1e-9 plus 1e-13 of the natural size"""
    if exact is None:
        return not math.isfinite(impl_err)
    if not math.isfinite(impl_err):
        return False
    target = math.sqrt(float(exact)) if norm == "2" else float(exact)
    return abs(impl_err - target) <= 1e-9 * abs(target) + 1e-13 * unit


# ------------------------------------------------------------------------------------------------ one case
def interpolation_histories(ctx_viol, cfg, ret, log_part, n_before, n_evals, f, prefix=""):
    """the two interpolation-error histories ([8] L2, [9] max) are returned history arrays as well: one entry per evaluation
    when evaluation_points is given (none otherwise), entry i = 2-norm / max-norm of (analytic value - interpolated value) over
    the evaluation points, the interpolated values being those the strategy's __call__ returned in that pass of the loop"""
    import numpy as np
    want = n_before + n_evals if cfg.get("eval_points") else 0
    a8, a9 = list(ret[8]), list(ret[9])
    if len(a8) != want or len(a9) != want:
        ctx_viol(prefix + "array-lengths", {"interpolation_error_arrayL2": len(a8), "interpolation_error_arrayMax": len(a9),
                                            "evaluations_made": n_before + n_evals, "evaluation_points_given": bool(cfg.get("eval_points"))})
        return
    if not cfg.get("eval_points"):
        return
    calls = [e for e in log_part if e["kind"] == "call"]
    if len(calls) != n_evals:
        return
    pts = [tuple(float(x) for x in q) for q in cfg["eval_points"]]
    real = np.array([np.atleast_1d(f.value(q)) for q in pts], dtype=float)
    for k, c in enumerate(calls):
        diff = (real - np.array(c["values"], dtype=float).reshape(real.shape)).ravel()
        # scipy.linalg.norm of the list of difference vectors = Frobenius norm / max row sum; recompute the simple way for
        # scalar integrands only (for vector outputs the matrix norms of the code are compared by length only)
        if real.shape[1] != 1:
            continue
        l2, mx = float(np.sqrt(np.sum(diff * diff))), float(np.max(np.abs(diff))) if len(diff) else 0.0
        i = n_before + k
        if not (relclose(a8[i], l2, 1e-9) and relclose(a9[i], mx, 1e-9)):
            ctx_viol(prefix + "interpolation-error-history", {"evaluation": i, "returned_L2": float(a8[i]), "returned_max": float(a9[i]),
                                                              "recomputed_L2": l2, "recomputed_max": mx})
            return


def returned_result_clause(viol, cfg, sa, ret, last_result, last_error, ref, prefix=""):
    """the RETURNED result ([3]) is the result the last evaluation produced -- bit for bit in the ordinary case; with
    reevaluate_at_end=True it is recomputed from scratch by evaluate_final_combi (other summation order: equal up to rounding
    relative to the size of the summands) -- and the last reported error is the deviation of THAT returned result from the reference"""
    import numpy as np
    returned = [float(x) for x in np.atleast_1d(ret[3])]
    if not cfg.get("reeval"):
        if returned != last_result:
            viol(prefix + "result-not-last-evaluation", {"returned": returned, "at_last_evaluation": last_result})
        return
    if cfg.get("strategy") == "extend_split" and cfg.get("version") == 3:
        # the undocumented coarsening version 3 computes OTHER component grids when an area is evaluated from scratch than when
        # it is evaluated incrementally (recorded in handoff/C13.md): the re-evaluated result is legitimately another quadrature
        # value (relative difference ~1e-3), so "recomputed = last evaluation up to rounding" is not a clause there
        return
    size = max([abs(x) for x in returned + last_result] + [0.0])
    if not hasattr(sa.refinement, "refinementContainers"):
        size += sum(float(np.sum(np.abs(np.atleast_1d(o.value)))) for o in sa.refinement.get_objects() if o.value is not None)
    if len(returned) != len(last_result) or any(abs(a - b) > 1e-10 * size for a, b in zip(returned, last_result)):
        viol(prefix + "result-not-last-evaluation", {"returned_after_reevaluation": returned, "at_last_evaluation": last_result,
                                                     "size_of_the_summands": size})
        return
    if ref is not None:
        ex = error_formula(cfg["norm"], ref, returned)
        nz = [abs(float(r)) for r in ref if float(r) != 0.0]
        unit = error_unit(ref, returned) + (size / min(nz) if nz and len(nz) == len(ref) else size)
        if not same_error(cfg["norm"], float(last_error), ex, unit):
            viol(prefix + "error-vs-returned-result", {"reported_error": float(last_error),
                                                       "deviation_of_returned_result": None if ex is None else float(ex),
                                                       "returned": returned, "reference": [float(x) for x in ref]})


def object_clauses(viol, cfg, out, ret, prefix=""):
    """a. the returned history arrays are five DIFFERENT objects (no chained-assignment aliasing); repeated queries give the same
    answer and leave the returned tuple alone; c. the implementation has not modified the caller's own arguments"""
    import numpy as np
    sa = out["sa"]
    names = {5: "error_array", 6: "num_point_array", 7: "surplus_error_array", 8: "interpolation_error_arrayL2", 9: "interpolation_error_arrayMax"}
    alias = [(names[i], names[j]) for i in names for j in names if i < j and ret[i] is ret[j]]
    if alias:
        viol(prefix + "history-arrays-alias", {"same_object": alias})
    snap = ([float(x) for x in np.atleast_1d(ret[3])], [list(map(repr, ret[i])) for i in names], ret[4])
    q = []
    for _ in range(3):
        q.append((int(sa.get_total_num_points()), [float(x) for x in np.atleast_1d(sa.operation.get_result())],
                  int(sa.operation.get_distinct_points(sa.scheme)), len(sa.get_areas())))
    after = ([float(x) for x in np.atleast_1d(ret[3])], [list(map(repr, ret[i])) for i in names], ret[4])
    # (with reevaluate_at_end the final recomputation, and with evaluation_points the interpolation diagnostics of the loop, may
    #  evaluate further points after the last history entry -- extend-split version 3 does both --, so the count is compared with
    #  the last entry only without these options)
    if q[0] != q[1] or q[1] != q[2] or snap != after or (len(ret[6]) and not cfg.get("reeval") and not cfg.get("eval_points") and q[0][0] != int(ret[6][-1])) or \
            (not cfg.get("reeval") and q[0][1] != snap[0]):
        viol(prefix + "queries-disagree", {"three_reads (points, result, distinct points, areas)": q, "returned_points": int(ret[6][-1]) if len(ret[6]) else None,
                                           "returned_result": snap[0], "returned_tuple_changed_by_queries": snap != after})
    args = sa.__dict__.get("_verif_args")
    if args is not None:
        a0, b0 = box_of(cfg)
        ref0 = reference_of(cfg, make_f(cfg))
        bad = {}
        if [float(x) for x in args["a"]] != a0 or [float(x) for x in args["b"]] != b0:
            bad["box"] = [[float(x) for x in args["a"]], [float(x) for x in args["b"]]]
        if (ref0 is None) != (args["ref"] is None) or (ref0 is not None and [repr(float(x)) for x in args["ref"]] != [repr(float(x)) for x in ref0]):
            bad["reference_solution"] = None if args["ref"] is None else [float(x) for x in args["ref"]]
        kw = out.get("kw") or {}
        if "evaluation_points" in kw and [tuple(map(float, p)) for p in kw["evaluation_points"]] != [tuple(map(float, p)) for p in cfg["eval_points"]]:
            bad["evaluation_points"] = [list(map(float, p)) for p in kw["evaluation_points"]]
        if bad:
            viol(prefix + "caller-arguments-modified", bad)


def seen_at_report(log_part):
    """distinct integrand evaluations at the moment each history entry is written: after the evaluation and -- with
    evaluation_points -- after the interpolation diagnostics of the same pass of the loop"""
    out = []
    for e in log_part:
        if e["kind"] == "eval":
            out.append(e["seen"])
        elif e["kind"] == "call" and out and "seen" in e:
            out[-1] = e["seen"]
    return out


def check_run(ctx, drv, cfg, limits, scout_stream=None, tag_extra=None, prior=None, then=None):
    """run cfg with limits on the implementation, compare with the model, evaluate the oracle.
    returns (ok, observed stream or None)"""
    case = {"cfg": cfg, "limits": limits}
    if prior is not None:
        case["prior"] = prior
    if then is not None:
        case["then"] = then
    rclass = ref_class(reference_of(cfg, make_f(cfg)))
    tags = {"strategy": cfg["strategy"], "ref": rclass, "norm": cfg["norm"], "dim": cfg["dim"],
            "outputs": len(cfg["coeffs"]), "scale": cfg.get("scale", 1.0), "cache": cfg.get("cache", True),
            "grid": cfg.get("grid", "default"), "recalc": cfg.get("recalc"), "evaluation_points": bool(cfg.get("eval_points")), "operation": cfg.get("operation", "integration"),
            "ref_route": cfg.get("ref_route", "constructor"),
            "reevaluate_at_end": bool(cfg.get("reeval"))}
    ctx.count("refclass_" + rclass)
    tags["history"] = prior["kind"] if prior else "fresh"
    if tag_extra:
        tags.update(tag_extra)
    ok = True

    def viol(probe, detail):
        nonlocal ok
        ok = False
        ctx.violation(probe, tags, case, detail)

    def corr(obs, impl, model):
        nonlocal ok
        if impl != model:
            ok = False
            ctx.corr_break("C13/" + obs, case, {"impl": str(impl)[:600], "model": str(model)[:600]})

    out = run_impl(cfg, limits, prior)
    log = out["log"]
    evals = [e for e in log if e["kind"] == "eval"]
    n_eval = len(evals)
    n_ref = sum(1 for e in log if e["kind"] == "refine")
    if out["status"] == "prior-cut":
        ctx.count("earlier_run_cut_by_guard")
        return True, None
    if out["status"] == "exception":
        viol("run-raises", {"exception": out["exc"]})
        return False, None
    # what the model predicts from the scout stream (independent of where the implementation stopped)
    if scout_stream is not None:
        pred = parse_stop(drv.ask("run %s %s" % (lim_str(limits), stream_str(scout_stream))))
    else:
        pred = None
    runaway = out["status"] == "runaway"
    sa = out["sa"]
    if runaway:
        # the loop was cut by the guard: no returned tuple; the arrays of the instance are what it would return
        m = min(len(sa.error_array), len(sa.num_point_array), len(sa.surplus_error_array))
        ret = [sa.refinement, sa.scheme, sa.lmax, sa.operation.get_result(), None,
               list(sa.error_array[:m]), list(sa.num_point_array[:m]), list(sa.surplus_error_array[:m])]
        ctx.count("runaway")
    else:
        ret = out["ret"]
    stream = stream_of(ret)
    n = len(ret[5])
    ctx.count("stop_index_%d" % min(n - 1, 9))
    # ---- oracle (property clauses on the returned tuple / observed run) -------------------------------------------
    if not runaway and not (len(ret[5]) == len(ret[6]) == len(ret[7]) == n_eval):
        viol("array-lengths", {"error_array": len(ret[5]), "num_point_array": len(ret[6]),
                               "surplus_error_array": len(ret[7]), "evaluations_made": n_eval})
    if not runaway:
        interpolation_histories(viol, cfg, ret, log, 0, n_eval, out["f"])
    events = [e for e in log if e["kind"] in ("eval", "refine")]
    if not runaway and (n_ref != n_eval - 1 or (events and events[-1]["kind"] != "eval")):
        viol("refine-after-stop", {"refines": n_ref, "evaluations": n_eval,
                                   "last_event": events[-1]["kind"] if events else None})
    first = None
    for i, (e, p, s) in enumerate(stream):
        if stop_rule(limits, e, p):
            first = i
            break
    if runaway:
        if first is not None:
            viol("does-not-stop", {"evaluations": n_eval, "first_index_satisfying_rule": first, "limits": limits,
                                   "errors": [x[0] for x in stream][:12], "points": [x[1] for x in stream][:12]})
    elif first != n - 1:
        viol("stop-index", {"stopped_at": n - 1, "first_index_satisfying_rule": first,
                            "errors": [x[0] for x in stream], "points": [x[1] for x in stream], "limits": limits})
    pts = [x[1] for x in stream]
    if any(pts[i] > pts[i + 1] for i in range(len(pts) - 1)):
        viol("points-decrease", {"points": pts})
    if any((not (e >= 0)) and not (rclass == "partial_zero") for e, _, _ in stream) or any(not (s >= 0) for _, _, s in stream):
        viol("negative-error", {"errors": [x[0] for x in stream], "surplus": [x[2] for x in stream]})
    for i, ev in enumerate(evals):
        bad = [(k, o) for k, o in enumerate(ev["objs"]) if (o[0] is not None and not o[0] >= 0) or (o[1] is not None and not o[1] >= 0)]
        if bad or not ev["total_error"] >= 0 or not ev["benefit_max"] >= 0:
            viol("negative-benefit", {"evaluation": i, "objects": bad[:5], "total_error": ev["total_error"],
                                      "benefit_max": ev["benefit_max"]})
            break
    # reported point count = number of distinct integrand evaluations (counted by the integrand itself)
    for i, seen_i in enumerate(seen_at_report(log)[:n]):
        if pts[i] != seen_i:
            viol("point-count", {"evaluation": i, "reported": pts[i], "distinct_evaluations": seen_i})
            break
    if n and not runaway and out["sa"].operation.f.get_f_dict_size() != len(out["f"].seen):
        viol("point-count", {"final_reported": out["sa"].operation.f.get_f_dict_size(), "distinct_evaluations": len(out["f"].seen)})
    # reported error = deviation of the reported result from the reference
    import numpy as np
    ref = reference_of(cfg, out["f"])
    if n and not runaway:
        returned_result_clause(viol, cfg, sa, ret, evals[-1]["result"], stream[-1][0], ref)
        object_clauses(viol, cfg, out, ret)
    if ref is not None:
        for i, ev in enumerate(evals[:n]):
            ex = error_formula(cfg["norm"], ref, ev["result"])
            if not same_error(cfg["norm"], stream[i][0], ex, error_unit(ref, ev["result"])):
                viol("error-formula", {"evaluation": i, "reported_error": stream[i][0],
                                       "deviation_from_reference": None if ex is None else float(ex),
                                       "squared_for_2norm": cfg["norm"] == "2", "result": ev["result"],
                                       "reference": [float(x) for x in ref]})
                break
    else:
        for i in range(n):
            if stream[i][0] != stream[i][2]:
                viol("error-without-reference", {"evaluation": i, "error": stream[i][0], "surplus": stream[i][2]})
                break
    if runaway:
        # the model (fed the scout stream) says where the run must stop; a cut run contradicts any such prediction, and
        # a scout run (tol=-1, finite max) that does not stop means that the point count stopped growing
        corr("stop", "no stop within %d evaluations" % n_eval, "nostop" if (scout_stream is not None and pred is None) else
             ("stop i=%d" % pred["i"] if pred else "every generated run stops (scout runs: tol=-1 with a finite max_evaluations)"))
        return ok, None
    # ---- correspondence --------------------------------------------------------------------------------------------
    if scout_stream is not None:
        if [tuple(map(repr, x)) for x in stream] != [tuple(map(repr, x)) for x in scout_stream[:n]]:
            corr("stream-deterministic-prefix", stream, scout_stream[:n])
        impl_obs = "stop i=%d evals=%d refines=%d lens=%d,%d,%d pts=%s" % (n - 1, n_eval, n_ref, len(ret[5]), len(ret[6]), len(ret[7]), pts)
        if pred is None:
            corr("stop", impl_obs, "nostop")
        else:
            corr("stop", impl_obs, "stop i=%d evals=%d refines=%d lens=%d,%d,%d pts=%s" % (
                pred["i"], pred["evals"], pred["refines"], pred["lens"][0], pred["lens"][1], pred["lens"][2], pred["pts"]))
    own = parse_stop(drv.ask("run %s %s" % (lim_str(limits), stream_str(stream))))
    corr("stop-on-own-stream", n - 1, None if own is None else own["i"])
    # error formula of the model on the implementation's results
    for i, ev in list(enumerate(evals[:n]))[:4] + list(enumerate(evals[:n]))[-1:]:
        line = "err %s %s %s %s" % (cfg["norm"], "none" if ref is None else ",".join(fr(x) for x in ref),
                                   ",".join(fr(x) for x in ev["result"]), fr(stream[i][2]))
        m = drv.ask(line)
        if m == "undef":
            if math.isfinite(stream[i][0]):
                corr("error-undefined", stream[i][0], m)
        elif m in ("bad-op", "assert"):
            corr("error-op", line[:200], m)
        elif ref is None:
            if Fraction(stream[i][0]) != Fraction(m):        # no reference: the error IS the total surplus error
                corr("error-value", stream[i][0], m)
        elif not same_error(cfg["norm"], stream[i][0], Fraction(m), error_unit(ref, ev["result"])):
            corr("error-value", stream[i][0], m)
    # benefit / totals of the model on the implementation's per-object numbers (last evaluation)
    if evals:
        ev = evals[-1]
        objs = [o for o in ev["objs"] if o[0] is not None and o[1] is not None and o[2] is not None]
        for o in objs[:6]:
            m = Fraction(drv.ask("benefit %s %s" % (fr(o[0]), fr(o[2]))))
            if not relclose(o[1], m, 1e-12):
                corr("benefit", o, str(m))
        if objs and len(objs) == len(ev["objs"]):
            m = drv.ask("totals %s %s" % (",".join(fr(o[0]) for o in objs), ",".join(fr(o[1]) for o in objs))).split()
            if not relclose(ev["total_error"], Fraction(m[0]), 1e-9):
                corr("total-error", ev["total_error"], m[0])
            if ev["benefit_max"] != float(Fraction(m[1])):
                corr("max-benefit", ev["benefit_max"], m[1])
    # point cache: batches of new requests per evaluation -> sizes
    order = sorted(out["f"].seen.items(), key=lambda kv: kv[1])
    batches, lo = [], 0
    for hi in seen_at_report(log)[:n]:
        batches.append([k for k, _ in order[lo:hi]])
        lo = hi
    if sum(len(b) for b in batches) <= 700:
        # every second batch also re-requests points of the previous one (the cache must not count them again)
        lines = []
        for j, b in enumerate(batches):
            extra = batches[j - 1][:3] if j else []
            lines.append(";".join(",".join(fr(x) for x in p) for p in (extra + b + b[:2])) or "-")
        m = drv.ask("cache " + "|".join(lines))
        corr("cache-sizes", str(pts).replace(" ", ""), m)
    if then is not None and out["status"] == "ok":
        ok = second_call(ctx, drv, cfg, limits, then, out, stream, scout_stream, viol, corr) and ok
    return ok, stream


def second_call(ctx, drv, cfg, L1, then, out, stream1, scout_stream, viol, corr):
    """continue_adaptive_refinement(limits of THIS call) on the instance that has just stopped: the stopping rule, the arrays
    and the counts of the second call are judged with the second call's own limits"""
    import numpy as np
    L2 = then["limits"]
    sa, f = out["sa"], out["f"]
    n1 = len(stream1)
    log = sa.__dict__.setdefault("_verif_log", [])
    mark = len(log)
    ok = True
    if then.get("toggle") == "deactivate_caching":
        f.deactivate_caching()
    if then.get("sibling"):
        try:
            sb, eb, _fb = build(then["sibling"]["cfg"])
            Ls = then["sibling"]["limits"]
            quiet(sb.performSpatiallyAdaptiv, 1, then["sibling"]["cfg"]["lmax"], eb, tol=Ls["tol"], max_evaluations=Ls["max"],
                  min_evaluations=Ls["min"], print_output=False, **run_kwargs(then["sibling"]["cfg"]))
            out["sibling2"] = sb
        except Exception:  # noqa: BLE001  (the sibling's own run is not under test here)
            pass
    try:
        ret = quiet(sa.continue_adaptive_refinement, tol=L2["tol"], max_evaluations=L2["max"], min_evaluations=L2["min"])
    except Runaway:
        part = [e for e in log[mark:] if e["kind"] == "eval"]
        es, ps = [float(x) for x in sa.error_array[n1:]], [int(x) for x in sa.num_point_array[n1:]]
        sat = [i for i, (e, p) in enumerate(zip(es, ps)) if stop_rule(L2, e, p)]
        if sat:
            viol("continue-does-not-stop", {"evaluations_in_call": len(part), "first_index_satisfying_rule": sat[0], "limits": L2,
                                            "errors": es[:8], "points": ps[:8]})
            return False
        corr("continue-stop", "no stop within %d evaluations" % len(part), "the generated limits of the second call stop")
        return False
    except Exception as e:  # noqa: BLE001
        viol("continue-raises", {"exception": "%s: %s" % (type(e).__name__, e)})
        return False
    part = log[mark:]
    evals2 = [e for e in part if e["kind"] == "eval"]
    events2 = [e for e in part if e["kind"] in ("eval", "refine")]
    n_ref2 = sum(1 for e in part if e["kind"] == "refine")
    full = stream_of(ret)
    stream2 = full[n1:]
    n2 = len(stream2)
    ctx.count("continue_stop_index_%d" % min(n2 - 1, 9))
    if not (len(ret[5]) == len(ret[6]) == len(ret[7]) == n1 + len(evals2)) or \
            [tuple(map(repr, x)) for x in full[:n1]] != [tuple(map(repr, x)) for x in stream1]:
        viol("continue-array-lengths", {"error_array": len(ret[5]), "num_point_array": len(ret[6]), "surplus_error_array": len(ret[7]),
                                        "entries_before_the_call": n1, "evaluations_in_the_call": len(evals2)})
        ok = False
    interpolation_histories(viol, cfg, ret, part, n1, len(evals2), f, prefix="continue-")
    if n_ref2 != len(evals2) - 1 or (events2 and events2[-1]["kind"] != "eval") or (events2 and events2[0]["kind"] != "eval"):
        viol("continue-refine-after-stop", {"refines": n_ref2, "evaluations": len(evals2),
                                            "first_event": events2[0]["kind"] if events2 else None,
                                            "last_event": events2[-1]["kind"] if events2 else None})
        ok = False
    first = next((i for i, (e, p, _s) in enumerate(stream2) if stop_rule(L2, e, p)), None)
    if n2 and first != n2 - 1:
        viol("continue-stop-index", {"stopped_at": n2 - 1, "first_index_satisfying_rule_of_this_call": first, "limits_of_this_call": L2,
                                     "limits_of_the_first_call": L1, "errors": [x[0] for x in stream2][:12],
                                     "points": [x[1] for x in stream2][:12]})
        ok = False
    pts = [x[1] for x in full]
    if any(pts[i] > pts[i + 1] for i in range(len(pts) - 1)):
        viol("continue-points-decrease", {"points": pts})
        ok = False
    for k, seen_k in enumerate(seen_at_report(part)[:n2]):
        if stream2[k][1] != seen_k:
            viol("continue-point-count", {"evaluation_in_call": k, "reported": stream2[k][1], "distinct_evaluations": seen_k})
            ok = False
            break
    ref = reference_of(cfg, f)
    if ref is not None:
        for k, ev in enumerate(evals2[:n2]):
            ex = error_formula(cfg["norm"], ref, ev["result"])
            if not same_error(cfg["norm"], stream2[k][0], ex, error_unit(ref, ev["result"])):
                viol("continue-error-formula", {"evaluation_in_call": k, "reported_error": stream2[k][0],
                                                "deviation_from_reference": None if ex is None else float(ex)})
                ok = False
                break
    if n2:
        flag = []
        returned_result_clause(lambda pr, d: (flag.append(1), viol(pr, d)), cfg, sa, ret, evals2[-1]["result"], stream2[-1][0], ref,
                               prefix="continue-")
        ok = ok and not flag
    if n2:
        flag = []
        object_clauses(lambda pr, d: (flag.append(1), viol(pr, d)), cfg, out, ret, prefix="continue-")
        ok = ok and not flag
    # ---- model: the stop rule of the second call takes the limits of THAT call
    own = parse_stop(drv.ask("run %s %s" % (lim_str(L2), stream_str(stream2))))
    corr("continue-stop-on-own-stream", n2 - 1, None if own is None else own["i"])
    if n2 and tuple(map(repr, stream2[0][:2])) == tuple(map(repr, stream1[-1][:2])):
        # re-entrant re-evaluation: the two-leg run of the model on the merged stream (resume L1 L2) = what the code did
        merged = stream1 + stream2[1:]
        line = drv.ask("resume %s %s %s" % (lim_str(L1), lim_str(L2), stream_str(merged)))
        impl = "stop1 i=%d stop i=%d evals=%d refines=%d lens=%d,%d,%d" % (n1 - 1, n2 - 1, len(evals2), n_ref2, len(ret[5]), len(ret[6]), len(ret[7]))
        mdl = line
        if line.startswith("stop1"):
            p2 = parse_stop(line.split(" ", 2)[2])
            mdl = "%s stop i=%d evals=%d refines=%d lens=%d,%d,%d" % (" ".join(line.split(" ")[:2]), p2["i"], p2["evals"], p2["refines"],
                                                                       p2["lens"][0], p2["lens"][1], p2["lens"][2])
        corr("two-call-run", impl, mdl)
        ctx.count("two_call_model_runs")
    if cfg.get("reeval") and cfg["strategy"] == "extend_split":
        # the first call ended with evaluate_final_combi(): the incremental result of extend-split was replaced by a recomputed one
        # (other summation order), the errors of the second call differ from the scout's in the last bits and the redrawn
        # tolerance lies exactly on a scout error -- no prediction from the scout stream (numerics policy, DESIGN 2.4)
        ctx.count("ambiguous_float_scout_prediction_skipped")
    elif scout_stream is not None and len(scout_stream) >= n1:
        # prediction from the scout stream: the second call sees the scout's observations from the interruption index on
        pred = parse_stop(drv.ask("run %s %s" % (lim_str(L2), stream_str(scout_stream[n1 - 1:]))))
        if pred is not None:
            corr("continue-stop-predicted-from-scout", "stop i=%d pts=%s" % (n2 - 1, [x[1] for x in stream2]),
                 "stop i=%d pts=%s" % (pred["i"], pred["pts"]))
    return ok


# ------------------------------------------------------------------------------------------------ generators
def gen_cfg(rng, thorough, strategy=None):
    strategy = strategy or rng.choice(STRATEGIES)
    dim = rng.choice([2, 2, 3])
    lmax = rng.choice([2, 2, 3]) if dim == 2 else rng.choice([2, 2, 2, 3] if thorough else [2])
    nout = rng.choice([1, 1, 2, 3])
    dy = [0.0, 0.25, 0.5, 1.0, 1.5, 2.0, -0.5]
    coeffs = [[rng.choice(dy) for _ in range(dim)] for _ in range(nout)]
    powers = [[rng.choice([1, 2, 2, 3, 4]) for _ in range(dim)] for _ in range(nout)]
    if all(p == 1 for pk in powers for p in pk):
        powers[0][0] = 2       # a multilinear integrand is integrated exactly: no refinement would ever differ
    ref = rng.choice(["exact", "exact", "perturbed", "perturbed", "zero", "none"] + (["partial_zero"] if nout > 1 else ["exact"]))
    # tiny / huge integrands (SI-unit sized quantities): a non-zero reference stays non-zero however small it is
    scale = rng.choice([1.0, 1.0, 1.0, 1.0, 1e-10, 1e-12, 2.0 ** -34, 2.0 ** -45, 1e8, 2.0 ** 27])
    cfg = {"strategy": strategy, "dim": dim, "lmax": lmax, "coeffs": coeffs, "powers": powers, "ref": ref,
           "norm": rng.choice(["inf", "1", "2"]), "scale": scale, "cache": rng.random() >= 0.2}
    if strategy == "dimwise":
        cfg["version"] = rng.choice([6, 6, 2, 3])
    elif dim == 2:
        # extend-split also on grids whose points are not nested across levels / areas (refined-away points leave the grid)
        cfg["grid"] = rng.choice(["trapezoidal", "trapezoidal", "trapezoidal", "gauss_legendre", "gauss_legendre", "clenshaw_curtis"])
    # recalculate_frequently=True with the threshold lowered to 1-3 refined objects: refine() re-evaluates everything
    cfg["recalc"] = rng.choice([None, None, None, 1, 2, 3])
    # operation class coverage: UncertaintyQuantification (Uniform on the box) as the second operation that accepts a reference
    # solution -- through its CONSTRUCTOR or through set_reference_solution(); scalar model or the (f, f^2) moment integrand
    if strategy == "dimwise" and rng.random() < 0.25:
        cfg["operation"] = "uq"
        cfg["ref_route"] = rng.choice(["constructor", "constructor", "setter"])
        cfg["uq_moments"] = rng.random() < 0.4
        if cfg["uq_moments"]:
            cfg["coeffs"], cfg["powers"] = cfg["coeffs"][:1], cfg["powers"][:1]
        if cfg["ref"] == "partial_zero" and len(cfg["coeffs"]) == 1 and not cfg["uq_moments"]:
            cfg["ref"] = "exact"
    # g. non-cubic boxes (dyadic ends, both signs, different widths per dimension)
    if rng.random() < 0.3:
        lo = [rng.choice([0.0, -1.0, 0.5, -2.0, 1.0]) for _ in range(dim)]
        cfg["box"] = [lo, [x + rng.choice([1.0, 2.0, 0.5, 0.25]) for x in lo]]
    # d. further constructor options of the strategy, one at a time
    if rng.random() < 0.4:
        if strategy == "dimwise":
            cfg["ctor"] = rng.choice([{"rebalancing": False}, {"margin": 0.5}, {"use_volume_weighting": True}, {"chebyshev_points": True},
                                      {"force_balanced_refinement_tree": True}, {"use_relative_surplus": True}])
        else:
            # (automatic_extend_split only in 2-D: in 3-D an assertion of the benefit code fails on the clean tree; reported)
            cfg["ctor"] = rng.choice([{"automatic_extend_split": True} if dim == 2 else {"number_of_refinements_before_extend": 2},
                                      {"split_single_dim": True}, {"number_of_refinements_before_extend": 2},
                                      {"number_of_refinements_before_extend": 4}, {"margin_unused": None}])
            if "margin_unused" in cfg["ctor"]:
                cfg["ctor"] = {}
                cfg["version"] = rng.choice([1, 2, 3])
    if cfg.get("ctor") == {"split_single_dim": True} and cfg.get("grid") in ("gauss_legendre", "clenshaw_curtis"):
        # split_single_dim=True on grids whose points are not nested: after a few refinements `assert i == 2 ** self.dim or i == 2`
        # (get_sum_sibling_value) or an assertion of the twin-error code fails on the clean tree (recorded in handoff/C13.md; outside
        # C13).  The START of such runs is generated on purpose by the family "ssd_cc" in run(): the twin / parent areas that
        # initialize_refinement() evaluates are distinct integrand evaluations of the run and must be counted.
        cfg["grid"] = "trapezoidal"
    if cfg.get("ctor") == {"chebyshev_points": True} and cfg.get("box"):
        # clean tree: RefinementObjectSingleDimension.map_chebyshev normalises the already normalised angle with a and b again and
        # asserts start < mid < end on every box other than [0,1] (reported to the lead; refinement geometry, not C13's clauses)
        cfg.pop("box")
    # test_scheme (check_combi_scheme at the end, a debugging aid) only with the default constructor options: with split_single_dim /
    # versions 1-3 its assertion fires on the clean tree (validity of the local combinations is C07's subject, reported there)
    cfg["test_scheme"] = rng.random() < 0.1 and not cfg.get("ctor") and cfg.get("version") in (None, 0, 2, 3, 6) and \
        not (strategy == "extend_split" and cfg.get("version") in (1, 2, 3))
    # reevaluate_at_end=True: the returned result is recomputed from scratch by evaluate_final_combi() after the loop
    cfg["reeval"] = rng.random() < 0.25
    # the rarely used option evaluation_points: the loop interpolates at these points after every evaluation and returns two
    # more history arrays (interpolation errors in the 2- and the max-norm)
    # (not on the Gauss-Legendre grid: it has no boundary points and the d-linear interpolation of the code does not extrapolate)
    # (and not with extend-split versions 1-3 on this tree: their interpolation evaluates NEW integrand points between the moment the
    #  history entry is written and the moment the stopping rule reads the count -- a run stops "by max" with a reported count below the
    #  maximum; repair proposed in handoff/postfix/C13/fix-2-*, whose staged harness generates the combination; ES_V123_EVAL_POINTS)
    if rng.random() < 0.25 and cfg.get("grid") != "gauss_legendre" and cfg.get("operation") != "uq" and \
            (ES_V123_EVAL_POINTS or not (strategy == "extend_split" and cfg.get("version") in (1, 2, 3))):
        lo, hi = box_of(cfg)
        cfg["eval_points"] = [[lo[d] + rng.choice([0.0, 1.0, 0.5, 0.25, 0.75, 0.3, 0.7, 0.125, 0.9]) * (hi[d] - lo[d]) for d in range(dim)]
                              for _ in range(rng.randint(2, 5))]
    return cfg


def small_sibling_cfg(rng):
    """configuration of an unrelated sibling object (other strategy / function / box / options) that works in between"""
    c = gen_cfg(rng, False)
    c["dim"] = 2
    c["lmax"] = 2
    c["coeffs"] = [ck[:2] for ck in c["coeffs"]]
    c["powers"] = [pk[:2] for pk in c["powers"]]
    if c.get("box"):
        c["box"] = [c["box"][0][:2], c["box"][1][:2]]
    c.pop("eval_points", None)
    if c.get("grid") == "gauss_legendre":
        c["grid"] = "trapezoidal"
    return c


def gen_limits(rng, stream, k):
    """limit sets on the exact boundaries of the scouted stream"""
    n = len(stream)
    out = []
    for _ in range(k):
        j = rng.randrange(n)
        e, p, _s = stream[j]
        if not math.isfinite(e):
            e = 1.0
        tol = rng.choice([-1.0, -1.0, -1.0, e, e, e, math.nextafter(e, -math.inf), math.nextafter(e, -math.inf),
                          math.nextafter(e, math.inf), 0.0, 0.0, 5e-324, 1e-300, 1e9, 1e300])
        j2 = rng.randrange(n)
        p2 = stream[j2][1]
        mn = rng.choice([1, 1, 0, p2, p2, p2 + 1, p2 + 1, p2 - 1, 10 ** 6])
        j3 = rng.randrange(n)
        p3 = stream[j3][1]
        mx = rng.choice([None, None, p3, p3 - 1, p3, p3 - 1, p3, p3 - 1, stream[0][1], 0, stream[-1][1] - 1])
        out.append({"tol": tol, "min": mn, "max": mx})
    # limits already met at the first evaluation, in the three ways the rule allows
    e0, p0, _ = stream[0]
    out.append({"tol": e0 if math.isfinite(e0) else 1.0, "min": p0, "max": None})
    out.append({"tol": -1.0, "min": 1, "max": p0 - 1})
    out.append({"tol": -1.0, "min": 1, "max": p0})          # NOT met: strict comparison
    return out


def run(ctx):
    thorough = ctx.tier == "thorough"
    ctx.rule = ("complete adaptive runs of Integration and (dimension-wise, 25 %) UncertaintyQuantification with Uniform distributions, reference via constructor or setter, scalar or (f,f^2) (dimension-wise+GlobalTrapezoidalGrid versions 2/3/6, extend-split+TrapezoidalGrid; dim 2-3, "
                "extend-split in 2-D also on GaussLegendreGrid / ClenshawCurtisGrid; recalculate_frequently with refinements_for_recalculate 1-3 in half "
                "of the configurations; lmin 1, lmax 2-3; dyadic polynomial integrands with 1-3 outputs, scaled by 1 / 1e-10 / 1e-12 / 2^-34 / 2^-45 / 1e8 / 2^27, value cache on or "
                "deactivated; reference exact/perturbed/zero/partially zero/none; norms inf,1,2); "
                "a scout run (tol=-1) gives the stream, limits (tol,min,max) are then put exactly on its boundaries incl. limits met at the first "
                "evaluation; in 40 % of the runs the same strategy object / the same Integration operation with a new strategy object / the same Function "
                "object with a new operation (same or other strategy) has already driven a complete run (counters of the harness reset per run); "
                "25 % of the configurations run with reevaluate_at_end=True (returned result recomputed; the reported error must be its deviation), "
                "25 % of the configurations pass evaluation_points (two more history arrays); 40 % of the runs are followed by "
                "continue_adaptive_refinement with redrawn limits (tighter or looser tol, other min/max), judged by the limits of that call; "
                "30 % non-cubic dyadic boxes; 40 % one further constructor option (rebalancing, margin, volume weighting, chebyshev points, balanced tree, "
                "relative surplus / automatic_extend_split, split_single_dim, refinements before extend, versions 1-3); test_scheme in 10 %; unrelated "
                "sibling objects work before a run or between two calls, deactivate_caching in the middle of a sequence; "
                "the model must predict stop index / evaluations / refinements / array lengths from the scout stream; a case is one "
                "(configuration, limits) run, distinct by both, non-trivial if it made at least one refinement or stopped at the first evaluation by a limit")
    drv = ctx.driver("drv_c13")
    import adaptdriver_gen
    adaptdriver_gen.run(ctx, drv)      # translator tie of performSpatiallyAdaptiv / continue_adaptive_refinement (see adaptdriver_gen.py)
    import_ok = _classes()
    assert import_ok
    budget = 70 if not thorough else 560
    n_cfg = 110 if not thorough else 1500
    per_cfg = 4 if not thorough else 6
    # malformed / degenerate lines of the protocol never produce a default
    for line in ("run 1 2 3", "run x 1 none 1:2:3", "err 3 none 1 1", "frob", "cache 1,2;a"):
        if drv.ask(line) != "bad-op":
            ctx.corr_break("C13/bad-op", {"line": line}, {"model": drv.ask(line)})
        ctx.count("malformed_lines")
    for k in range(n_cfg):
        if k >= FIXED_BLOCK and ctx.time_left(budget) < 0:      # the directed families of the fixed block always run
            break
        cfg = gen_cfg(ctx.rng, thorough)
        if k < 2:
            # always present: split_single_dim=True on the Clenshaw-Curtis grid -- initialize_refinement() evaluates twin / parent
            # areas whose points are in no later grid; they are distinct integrand evaluations of the run and must be counted
            while not (cfg["strategy"] == "extend_split" and cfg["dim"] == 2):
                cfg = gen_cfg(ctx.rng, thorough, strategy="extend_split")
            cfg.update(grid="clenshaw_curtis", ctor={"split_single_dim": True}, lmax=2, version=0, test_scheme=False, family="ssd_cc")
            ctx.count("family_split_single_dim_clenshaw_curtis")
        elif k < 4:
            # always present: the UncertaintyQuantification operation with its reference handed to the CONSTRUCTOR (k = 2: scalar
            # model, k = 3: (f, f^2) moment integrand); the error is judged against the harness's own reference
            while not (cfg["strategy"] == "dimwise" and cfg["dim"] == 2 and cfg["ref"] in ("exact", "perturbed")):
                cfg = gen_cfg(ctx.rng, thorough, strategy="dimwise")
            cfg.update(operation="uq", ref_route="constructor", uq_moments=(k == 3), lmax=2)
            cfg.pop("eval_points", None)
            if k == 3:
                cfg["coeffs"], cfg["powers"] = cfg["coeffs"][:1], cfg["powers"][:1]
            ctx.count("family_uq_reference_in_constructor")
        elif k < FIXED_BLOCK:
            # always present, before the budgeted random phase (independent of the machine's load): extend-split runs that reach the
            # "recalculate everything from scratch" branch of refine() (recalculate_frequently with the threshold lowered to 1) on the
            # nested trapezoidal grid (k = 4) and on the Gauss-Legendre grid whose refined-away points leave the grid (k = 5), and a run
            # whose returned result is recomputed by evaluate_final_combi (reevaluate_at_end, k = 6)
            while not (cfg["strategy"] == "extend_split" and cfg["dim"] == 2 and cfg["ref"] in ("exact", "perturbed")):
                cfg = gen_cfg(ctx.rng, thorough, strategy="extend_split")
            cfg.update(lmax=2, version=0, ctor={}, test_scheme=False, cache=True,
                       grid="gauss_legendre" if k == 5 else "trapezoidal",
                       recalc=None if k == 6 else 1, reeval=(k == 6))
            cfg.pop("eval_points", None)
            cfg.pop("box", None)
            ctx.count("family_recalculate_branch" if k < 6 else "family_reevaluate_at_end")
        cap = ctx.rng.choice([60, 90, 130, 180] if cfg["dim"] == 2 else [120, 200, 300])
        if cfg.get("family") == "ssd_cc":
            cap = 1           # the first evaluation only; the assertion-prone refinements of this option x grid are not entered
        if cfg.get("grid") == "gauss_legendre":
            cap = ctx.rng.choice([350, 600, 900])      # 80 points at the first evaluation, several hundred per refinement
        scout_limits = {"tol": -1.0, "min": 1, "max": cap}
        ok, stream = check_run(ctx, drv, cfg, scout_limits)
        ctx.count("strategy_" + cfg["strategy"]); ctx.count("ref_" + cfg["ref"]); ctx.count("norm_" + cfg["norm"])
        ctx.count("dim_%d" % cfg["dim"]); ctx.count("outputs_%d" % len(cfg["coeffs"]))
        ctx.count("grid_" + cfg.get("grid", "trapezoidal" if cfg["strategy"] == "extend_split" else "global_trapezoidal")); ctx.count("recalc_%s" % cfg.get("recalc"))
        ctx.count("operation_" + cfg.get("operation", "integration") + ("_moments" if cfg.get("uq_moments") else "") + ("_" + cfg["ref_route"] if cfg.get("operation") == "uq" else ""))
        ctx.count("evaluation_points_%s" % bool(cfg.get("eval_points"))); ctx.count("reevaluate_at_end_%s" % bool(cfg.get("reeval")))
        ctx.count("scale_" + ("1" if cfg["scale"] == 1.0 else ("tiny" if cfg["scale"] < 1 else "huge"))); ctx.count("cache_%s" % cfg["cache"])
        ctx.case({"cfg": cfg, "limits": scout_limits}, nontrivial=bool(stream and len(stream) > 1),
                 sample={"cfg": cfg, "limits": scout_limits, "points": [x[1] for x in (stream or [])]} if k < 2 else None)
        if len(ctx.violations) >= ctx.max_reports:      # (m) only FAILING INPUTS end the search early; disagreements with the model do not
            break
        if not stream:
            continue
        ctx.count("scout_len_%d" % min(len(stream), 12))
        for L in gen_limits(ctx.rng, stream, per_cfg):
            # the model decides whether these limits stop within the scouted stream; if not, cap them so that they do
            if parse_stop(drv.ask("run %s %s" % (lim_str(L), stream_str(stream)))) is None:
                L = dict(L, max=stream[-1][1] - 1)
                ctx.count("limits_capped")
            if cfg.get("family") == "ssd_cc":
                L = dict(L, max=min(stream[-1][1] - 1, L["max"] if L["max"] is not None else 10 ** 9))
                ok2, s2 = check_run(ctx, drv, cfg, L, scout_stream=stream)
                ctx.case({"cfg": cfg, "limits": L}, nontrivial=True)
                continue
            # object history: in 40 % of the runs the operation / Function / strategy object has already driven a complete
            # run with other limits; the run under test must behave (and count) exactly like a fresh one
            prior = None
            if ctx.rng.random() < 0.4:
                j = ctx.rng.randrange(len(stream))
                prior = {"kind": ctx.rng.choice(["same_object", "new_object", "shared_function", "unrelated_sibling"]),
                         "limits": {"tol": -1.0, "min": 1, "max": stream[j][1] - ctx.rng.choice([0, 1])}}
                if prior["kind"] == "unrelated_sibling":
                    prior["cfg"] = small_sibling_cfg(ctx.rng)
                    prior["limits"]["max"] = min(prior["limits"]["max"], 150)
                if prior["kind"] == "shared_function" and ctx.rng.random() < 0.5:
                    prior["strategy"] = "dimwise" if cfg["strategy"] == "extend_split" else "extend_split"
                    # (the other strategy needs far more evaluations for the point counts of a Gauss-Legendre stream)
                    prior["limits"]["max"] = min(prior["limits"]["max"], 300)
            if cfg.get("operation") == "uq" and prior is not None and prior["kind"] != "unrelated_sibling":
                # no reuse of UncertaintyQuantification objects: the (f, f^2) integrand is a wrapper around the model function whose own
                # value cache survives a second run (the harness's per-run count of MODEL evaluations is then not the integrand's), and
                # a second strategy object on the same weighted grid reports other surplus estimates than a fresh one (same error and
                # points; surplus estimates are not a C13 clause)
                prior = None
            ctx.count("history_" + (prior["kind"] if prior else "fresh"))
            # (a dimension-wise strategy OBJECT that runs twice does not repeat the run of a fresh object -- its level caches
            #  survive performSpatiallyAdaptiv --, so the scout stream predicts nothing there; the property's clauses and the
            #  model on the run's own stream still apply)
            same_obj = prior is not None and prior["kind"] == "same_object"
            if same_obj and L["max"] is None:
                L = dict(L, max=stream[-1][1] - 1)      # no prediction that a tolerance is ever reached: bound the run
            # multi-call history: in 40 % of the runs the stopped instance is continued with continue_adaptive_refinement and
            # DIFFERENT limits (tol, min, max all redrawn: tighter or looser); the second call is judged by its own limits
            then = None
            if ctx.rng.random() < 0.4:
                Lc = gen_limits(ctx.rng, stream, 1)[0]
                p1 = parse_stop(drv.ask("run %s %s" % (lim_str(L), stream_str(stream))))
                i1 = p1["i"] if p1 else len(stream) - 1
                if same_obj or Lc["max"] is None and parse_stop(drv.ask("run %s %s" % (lim_str(Lc), stream_str(stream[i1:])))) is None:
                    Lc = dict(Lc, max=stream[-1][1] - 1 if Lc["max"] is None else Lc["max"])
                if parse_stop(drv.ask("run %s %s" % (lim_str(Lc), stream_str(stream[i1:])))) is None:
                    Lc = dict(Lc, max=stream[-1][1] - 1)
                then = {"limits": Lc}
                if ctx.rng.random() < 0.25:
                    then["toggle"] = "deactivate_caching"      # l. a rarely used public toggle in the MIDDLE of the sequence
                if ctx.rng.random() < 0.25:
                    then["sibling"] = {"cfg": small_sibling_cfg(ctx.rng), "limits": {"tol": -1.0, "min": 1, "max": ctx.rng.choice([40, 90, 150])}}
                ctx.count("then_continue_" + ("tighter_tol" if Lc["tol"] < L["tol"] else ("looser_tol" if Lc["tol"] > L["tol"] else "same_tol")))
            ok2, s2 = check_run(ctx, drv, cfg, L, scout_stream=None if same_obj else stream, prior=prior, then=then)
            n2 = len(s2) if s2 else 0
            ctx.count("stopped_first" if n2 == 1 else "stopped_later")
            ctx.case({"cfg": cfg, "limits": L, "prior": prior, "then": then}, nontrivial=n2 >= 1)
        if len(ctx.violations) >= ctx.max_reports:      # (m) only FAILING INPUTS end the search early; disagreements with the model do not
            break


def replay(ctx, rp):
    case = rp["case"]
    drv = ctx.driver("drv_c13")
    _classes()
    cfg, L = case["cfg"], case["limits"]
    ok, stream = check_run(ctx, drv, cfg, L, scout_stream=None, prior=case.get("prior"), then=case.get("then"))
    print("replay: %s" % ("property holds and model agrees on this case" if ok else "REPRODUCED"))
    print("  observed stream (error, points, surplus):", stream)
    for v in ctx.violations[:3]:
        print("  violation:", v["probe"], v["detail"])
    for c in ctx.corr_breaks[:3]:
        print("  disagreement:", c["observable"], c["detail"])
    for d in ctx._drivers:
        d.close()
    return 0 if ok else 1
