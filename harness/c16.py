"""C16 -- density estimation solves the right linear system.

Correspondence: the real `DensityEstimation` (uniform component grids and non-uniform dimension-wise grids, no boundary
points) vs. Model/Gram through `drv_c16`: system matrix (analytic; mass-lumped form), right-hand side (small- and
large-grid code paths), the hat evaluations of all code paths, trapezoidal weights, normalised surpluses (the linear solve
itself is replaced by an exact rational solve whose residual the model checks).
Oracle (independent of the model, exact rational arithmetic): matrix == Gram matrix of the hat basis (cell-wise Simpson
integration of the piecewise-linear hats, exact for piecewise quadratics) + lambda*I, symmetric, positive definite (exact
LDL^T pivots), mass-lumped form == diagonal, right-hand side == signed sample means, agreement of the hat code paths on
points including grid lines / support ends / the domain boundary, normalisation clause, numeric entries == Gram entries."""
import itertools
import math
import time
import traceback
from fractions import Fraction as F

import numpy as np

from common import frac_str

TOL = 1e-10


# ------------------------------------------------------------------ formatting / parsing
def fv(v):
    return ",".join(frac_str(x) for x in v) if len(v) else "-"


def fvs(vs):
    return ";".join(fv(v) for v in vs) if len(vs) else "-"


def fints(v):
    return ",".join(str(int(x)) for x in v) if len(v) else "-"


def parse_vec(s):
    s = s.strip()
    assert s[0] == "[" and s[-1] == "]", s[:80]
    s = s[1:-1]
    return [F(t) for t in s.split(",")] if s else []


def parse_mat(s):
    s = s.strip()
    assert s[0] == "[" and s[-1] == "]", s[:80]
    s = s[1:-1]
    if not s:
        return []
    rows = s[1:-1].split("],[")
    return [[F(t) for t in r.split(",")] if r else [] for r in rows]


def near(a, b, tol=TOL, floor=1.0):
    return abs(float(a) - float(b)) <= tol * max(floor, abs(float(b)))


def near_entry(a, b):
    """matrix entries: the code evaluates its antiderivatives at absolute coordinates (`m**2 * x**3` with m = 1/h), which
    loses relative accuracy ~ eps * x^3 / h^3 by cancellation (measured 3e-8 at h = 2^-9); the generators keep h >= 2^-8
    and 5e-7 relative is allowed"""
    return abs(float(a) - float(b)) <= 5e-7 * abs(float(b)) + 1e-13


def vec_near(a, b, tol=TOL, floor=1.0):
    return len(a) == len(b) and all(near(x, y, tol, floor) for x, y in zip(a, b))


def to_fr(xs):
    return [F(float(x)) for x in xs]


# ------------------------------------------------------------------ exact reference (oracle side)
def hat_ref(p, lo, hi, x):
    """piecewise linear: 1 at p, 0 at lo and hi and outside"""
    if x <= lo or x >= hi:
        return F(0)
    if x <= p:
        return (x - lo) / (p - lo)
    return (hi - x) / (hi - p)


def gram_1d_ref(nodes):
    """Gram matrix of the interior hats of a sorted node list by Simpson's rule on every cell (exact for the
    piecewise quadratic products); cells outside one of the two supports contribute nothing and are skipped"""
    n = len(nodes) - 2
    hats = [(nodes[k + 1], nodes[k], nodes[k + 2]) for k in range(n)]
    G = [[F(0)] * n for _ in range(n)]
    cells = [(nodes[c], nodes[c + 1]) for c in range(len(nodes) - 1)]
    for i in range(n):
        for j in range(n):
            lo = max(hats[i][1], hats[j][1])
            hi = min(hats[i][2], hats[j][2])
            if lo >= hi:
                continue
            s = F(0)
            for a, b in cells:
                if b <= lo or a >= hi:
                    continue
                m = (a + b) / 2
                f = lambda x: hat_ref(*hats[i], x) * hat_ref(*hats[j], x)
                s += (b - a) / 6 * (f(a) + 4 * f(m) + f(b))
            G[i][j] = s
    return G


def gram_ref(stripes):
    Gs = [gram_1d_ref(s) for s in stripes]
    idx = list(itertools.product(*[range(len(g)) for g in Gs]))
    n = len(idx)
    G = [[F(1)] * n for _ in range(n)]
    for a, I in enumerate(idx):
        for b, J in enumerate(idx):
            v = F(1)
            for d in range(len(Gs)):
                v *= Gs[d][I[d]][J[d]]
                if v == 0:
                    break
            G[a][b] = v
    return G


def hats_of(stripes):
    per = [[(s[k + 1], s[k], s[k + 2]) for k in range(len(s) - 2)] for s in stripes]
    return list(itertools.product(*per))


def hat_nd_ref(h, x):
    v = F(1)
    for (p, lo, hi), c in zip(h, x):
        v *= hat_ref(p, lo, hi, c)
    return v


def b_ref(stripes, data, signs):
    M = len(data)
    return [sum(hat_nd_ref(h, x) * s for x, s in zip(data, signs)) / M for h in hats_of(stripes)]


def ldl_pivots(A):
    """pivots of the symmetric elimination without pivoting (all > 0 <=> positive definite)"""
    n = len(A)
    A = [row[:] for row in A]
    piv = []
    for k in range(n):
        p = A[k][k]
        piv.append(p)
        if p <= 0:
            return piv
        for i in range(k + 1, n):
            f = A[i][k] / p
            if f != 0:
                for j in range(k, n):
                    A[i][j] -= f * A[k][j]
    return piv


def solve_exact(A, b):
    n = len(A)
    M = [row[:] + [b[i]] for i, row in enumerate(A)]
    for k in range(n):
        pr = next(i for i in range(k, n) if M[i][k] != 0)
        M[k], M[pr] = M[pr], M[k]
        p = M[k][k]
        M[k] = [v / p for v in M[k]]
        for i in range(n):
            if i != k and M[i][k] != 0:
                f = M[i][k]
                M[i] = [vi - f * vk for vi, vk in zip(M[i], M[k])]
    return [M[i][n] for i in range(n)]


def normalise_ref(classes, alpha, weights):
    """reference of the normalisation clause: (with classes: subtract the weighted mean;) divide by the weighted mean of
    the positive parts unless it is 0"""
    sw = sum(weights)
    a = list(alpha)
    if classes:
        m = sum(x * w for x, w in zip(a, weights)) / sw
        a = [x - m for x in a]
    integral = sum(max(x, 0) * w for x, w in zip(a, weights)) / sw
    return a if integral == 0 else [x / integral for x in a]


def uniform_stripes(lv):
    return [[F(i, 2 ** l) for i in range(2 ** l + 1)] for l in lv]


def trap_weights_ref(stripes):
    per = [[(s[k + 2] - s[k]) / 2 for k in range(len(s) - 2)] for s in stripes]
    return [math.prod(t) for t in itertools.product(*per)]


# ------------------------------------------------------------------ implementation side
def quiet():
    from sparseSpACE.Utils import log_levels, print_levels
    return dict(log_level=log_levels.ERROR, print_level=print_levels.ERROR)


class _Container:
    def __init__(self):
        self.value = np.zeros(1)


def caller_array(data, affine=None):
    """the array the CALLER hands to the operation: the in-cube data, or its affine pre-image a_d + s_d * x (outside the cube;
    a_d, s_d dyadic and every dimension attains 0 and 1, so that min-max scaling reproduces the in-cube data exactly)"""
    arr = np.array([[float(c) for c in x] for x in data])
    if affine is not None:
        arr = np.array([[float(F(a) + F(sc) * c) for c, (a, sc) in zip(x, affine)] for x in data])
    return arr


def remember(op, arr, before, data):
    op._caller_data = arr
    op._caller_copy = before          # copy taken BEFORE the operation saw the array
    op._incube = np.array([[float(c) for c in x] for x in data])
    return op


def mk_uniform(data, dim, lam, lumped, classes, affine=None, **kw):
    from sparseSpACE.GridOperation import DensityEstimation
    arr = caller_array(data, affine)
    before = arr.copy()
    op = DensityEstimation(arr, dim, masslumping=lumped, lambd=float(lam),
                           classes=None if classes is None else np.array([float(c) for c in classes]), **quiet(), **kw)
    op.initialize()
    return remember(op, arr, before, data)


def mk_dimwise(data, dim, lam, lumped, classes, numeric=False, reuse=False, lmax=None, affine=None, **kw):
    from sparseSpACE.GridOperation import DensityEstimation
    from sparseSpACE.Grid import GlobalTrapezoidalGrid
    g = GlobalTrapezoidalGrid(a=np.zeros(dim), b=np.ones(dim), boundary=False, modified_basis=False)
    arr = caller_array(data, affine)
    before = arr.copy()
    op = DensityEstimation(arr, dim, grid=g, masslumping=lumped, lambd=float(lam),
                           classes=None if classes is None else np.array([float(c) for c in classes]),
                           numeric_calculation=numeric, reuse_old_values=reuse, **quiet(), **kw)
    cont = _Container()
    op.init_dimension_wise(g, g, cont, 1, lmax if lmax is not None else [1] * dim, np.zeros(dim), np.ones(dim))
    op.initialize_evaluation_dimension_wise(cont)
    return remember(op, arr, before, data), cont


def check_data_handling(ck, op, case, tags, when):
    """the caller's array is never modified; the operation works on the data in the unit cube (min-max scaled if the caller's
    data lie outside, untouched if they lie inside -- touching the faces included)"""
    if not np.array_equal(op._caller_data, op._caller_copy):
        ck.viol("caller-data-modified", dict(tags, when=when), case, {"max_abs_change": float(np.max(np.abs(op._caller_data - op._caller_copy)))})
        op._caller_data[...] = op._caller_copy
    if np.shape(op.data) != np.shape(op._incube) or not np.array_equal(np.asarray(op.data, dtype=float), op._incube):
        ck.viol("data-in-unit-cube", dict(tags, when=when, outside=case.get("affine") is not None), case,
                {"op.data[:3]": np.asarray(op.data).tolist()[:3], "expected[:3]": op._incube.tolist()[:3]})


def node_level(x):
    x = F(x)
    if x == 0 or x == 1:
        return 0
    return x.denominator.bit_length() - 1


def fl(stripes):
    return [[float(c) for c in s] for s in stripes]


# ------------------------------------------------------------------ generators
LAMS = [F(0), F(0), F(1, 4), F(1, 16), F(1, 64), F(1), F(3, 8), F(1, 1024)]


def gen_stripe(r, max_nodes, max_level, lo=3):
    """random refinement-tree point list on [0,1] (always contains 0, 1/2, 1)"""
    nodes = [F(0), F(1, 2), F(1)]
    target = r.randint(lo, max_nodes)
    tries = 0
    while len(nodes) < target and tries < 20 * max_nodes:
        tries += 1
        k = r.randrange(len(nodes) - 1)
        a, b = nodes[k], nodes[k + 1]
        m = (a + b) / 2
        if m.denominator > 2 ** max_level:
            continue
        nodes.insert(k + 1, m)
    return nodes


def gen_data(r, dim, stripes, M, res=64):
    """dyadic samples in the closed unit cube; many exactly on grid lines, on support ends and on the domain boundary"""
    data = []
    for _ in range(M):
        x = []
        for d in range(dim):
            u = r.random()
            if u < 0.30:
                c = r.choice(stripes[d])                # on a grid line (incl. 0 and 1)
            elif u < 0.40:
                c = r.choice([F(0), F(1)])             # domain boundary
            elif u < 0.50:
                k = r.randrange(len(stripes[d]) - 1)   # cell midpoint
                c = (stripes[d][k] + stripes[d][k + 1]) / 2
            else:
                c = F(r.randint(0, res), res)
            x.append(c)
        data.append(x)
    return data


def gen_case(ctx, thorough, force=None):
    """force="uniform-big-classes": a uniform component grid with >= 200 points WITH class labels (large-grid branch of
    `calculate_B`), scheduled deterministically so that every run contains several of them"""
    r = ctx.rng
    kind = r.choice(["uniform", "uniform", "dimwise", "dimwise", "dimwise"])
    if force is None and r.random() < 0.06:
        return gen_boundary_case(ctx)
    big = r.random() < (0.12 if not thorough else 0.2)
    dim = r.choice([1, 2, 2, 3, 3, 4])
    lam = r.choice(LAMS)
    lumped = r.random() < 0.3
    with_classes = r.random() < 0.4
    if force == "uniform-big-classes":
        kind, big, with_classes, lumped = "uniform", True, True, False
    if force == "numeric-2d":
        kind, big, dim, lumped = "dimwise", False, 2, False
    if force in ("sibling", "outside", "history"):
        kind, big = r.choice(["uniform", "dimwise"]), False
        dim = r.choice([1, 2, 2, 3])
    if force == "extreme":
        # extreme scales: lambda 1e8..1e12 (solution ~ b/lambda) and/or every sample within 2^-40 of the domain boundary (all hats
        # almost zero): the unnormalised mean of the positive parts is tiny but NOT zero, so the surpluses must be normalised
        kind, big, with_classes = r.choice(["uniform", "uniform", "dimwise"]), False, r.random() < 0.15
    if kind == "uniform":
        if big:
            lv = r.choice([[8], [4, 4], [4, 4], [2, 3, 4], [5, 3], [3, 5], [3, 3, 3]] + ([] if force else [[2, 2, 4]]))
            dim = len(lv)
        else:
            while True:
                lv = [r.randint(1, 4 if dim < 4 else 2) for _ in range(dim)]
                if math.prod(2 ** l - 1 for l in lv) <= ((64 if not thorough else 120) if force is None else 21):
                    break
        stripes = uniform_stripes(lv)
    else:
        lv = None
        if big:
            dim = r.choice([1, 2, 2, 2, 3])
            if dim == 1:
                # both sides of the 200-point switch and the switch itself
                n_int = r.choice([199, 200, 201, r.randint(202, 233)])
                stripes = [gen_stripe(r, n_int + 2, 8, lo=n_int + 2)]
            elif dim == 3:
                stripes = [gen_stripe(r, 9, 4, lo=9), gen_stripe(r, 9, 4, lo=9), gen_stripe(r, 7, 4, lo=7)]      # 7 x 7 x 5 = 245
                r.shuffle(stripes)
            elif r.random() < 0.4:
                # anisotropic: one dimension with a single interior node (three-node stripe), leading or not
                stripes = [gen_stripe(r, 3, 1, lo=3), gen_stripe(r, r.randint(203, 222), 8, lo=203)]
                r.shuffle(stripes)
            else:
                stripes = [gen_stripe(r, 19, 6, lo=17), gen_stripe(r, 19, 6, lo=17)]
        else:
            cap = {1: 14, 2: 8, 3: 5, 4: 4}[dim] if force not in ("extreme", "sibling", "outside", "history") else {1: 9, 2: 5, 3: 4, 4: 4}[dim]
            stripes = [gen_stripe(r, cap, 5) for _ in range(dim)]
            if force == "numeric-2d":
                # 2 x 2 .. 3 x 3 interior nodes: every kind of neighbour pair (axis-parallel, diagonal, anti-diagonal) occurs
                stripes = [gen_stripe(r, 5, 4, lo=4), gen_stripe(r, 5, 4, lo=4)]
    M = r.choice([1, 2, 3, 4, 5, 8, 8, 13, 16, 16, 32]) if force is None else r.choice([8, 13, 16, 32])
    data = gen_data(r, dim, stripes, M, res=r.choice([16, 64, 128]))
    if force == "extreme":
        mode = r.choice(["lambda", "lambda", "boundary", "both"])
        if mode in ("lambda", "both"):
            lam = F(10) ** r.choice([8, 9, 10, 12])
        if mode in ("boundary", "both"):
            eps = F(1, 2 ** r.choice([36, 40, 44]))
            data = [[r.choice([eps, 1 - eps]) for _ in range(dim)] for _ in range(M)]
    classes = [r.choice([-1, 1]) for _ in range(M)] if with_classes else None
    affine = None
    if force == "outside" or (force is None and r.random() < 0.05):
        # data outside the unit cube: the caller's array is a_d + s_d * x; every dimension attains 0 and 1 (faces touched)
        M = max(M, 2)
        data = data[:M] + gen_data(r, dim, stripes, M - len(data[:M]))
        data[0] = [F(0)] * dim
        data[1] = [F(1)] * dim
        classes = [r.choice([-1, 1]) for _ in range(M)] if with_classes else None
        affine = [[frac_str(F(r.choice([-4, -1, -1, 0, 1, 3]), r.choice([1, 2]))), frac_str(F(r.choice([2, 4, 8, 1]), 1) / r.choice([1, 1, 2]))]
                  for _ in range(dim)]
        if all(F(a) >= 0 and F(a) + F(sc) <= 1 for a, sc in affine):
            affine[0] = ["-1", "2"]          # at least one dimension really leaves the cube (otherwise nothing is rescaled)
    sibling = None
    if force == "sibling":
        M2 = r.choice([2, 4, 8])
        sibling = {"lam": frac_str(r.choice(LAMS)), "lumped": r.random() < 0.4,
                   "classes": [r.choice([-1, 1]) for _ in range(M2)] if r.random() < 0.4 else None,
                   "data": [[frac_str(c) for c in x] for x in gen_data(r, dim, stripes, M2)], "reuse": r.random() < 0.5}
    numeric = (kind == "dimwise" and not big and r.random() < (0.15 if not thorough else 0.2)
               and math.prod(len(s) - 2 for s in stripes) <= (9 if dim == 1 else 4) and dim <= 2 and force is None) or force == "numeric-2d"
    return {"kind": kind, "dim": dim, "lv": lv, "stripes": [[frac_str(c) for c in s] for s in stripes],
            "lam": frac_str(lam), "lumped": lumped, "classes": classes, "numeric": numeric,
            "reuse": bool(kind == "dimwise" and (not numeric or force == "numeric-2d") and r.random() < 0.5), "extreme": force == "extreme",
            "history": force == "history" or (force is None and r.random() < 0.15),
            "affine": affine, "pre_scaled": bool(affine is None and r.random() < 0.1), "sibling": sibling,
            "data": [[frac_str(c) for c in x] for x in data], "big": big, "bigR": bool(big and (thorough or r.random() < 0.35))}


def gen_boundary_case(ctx):
    """dimension-wise grid WITH boundary points (`GlobalTrapezoidalGrid(boundary=True)`, as in the repository's own
    test_dim_wise_run); oracle only (the model covers grids without boundary points)"""
    r = ctx.rng
    dim = r.choice([1, 2, 2])
    stripes = [gen_stripe(r, {1: 9, 2: 6}[dim], 4) for _ in range(dim)]
    M = r.choice([4, 8, 16])
    data = gen_data(r, dim, stripes, M)
    if r.random() < 0.5:
        data = [[c if c != 1 else F(r.randint(32, 63), 64) for c in x] for x in data]
    return {"kind": "dimwise-boundary", "dim": dim, "lv": None, "stripes": [[frac_str(c) for c in s] for s in stripes],
            "lam": frac_str(r.choice(LAMS)), "lumped": False, "classes": [r.choice([-1, 1]) for _ in range(M)] if r.random() < 0.3 else None,
            "numeric": False, "data": [[frac_str(c) for c in x] for x in data], "big": False, "bigR": False}


def run_boundary_case(ck, case):
    from sparseSpACE.GridOperation import DensityEstimation
    from sparseSpACE.Grid import GlobalTrapezoidalGrid
    ctx = ck.ctx
    dim = case["dim"]
    stripes = [[F(c) for c in s] for s in case["stripes"]]
    lam = F(case["lam"])
    data = [[F(c) for c in x] for x in case["data"]]
    classes = case["classes"]
    signs = [F(c) for c in classes] if classes is not None else [F(1)] * len(data)
    g = GlobalTrapezoidalGrid(a=np.zeros(dim), b=np.ones(dim), boundary=True, modified_basis=False)
    op = DensityEstimation(np.array([[float(c) for c in x] for x in data]), dim, grid=g, lambd=float(lam),
                           classes=None if classes is None else np.array([float(c) for c in classes]), **quiet())
    cont = _Container()
    op.init_dimension_wise(g, g, cont, 1, [1] * dim, np.zeros(dim), np.ones(dim))
    op.initialize_evaluation_dimension_wise(cont)
    levels = [[node_level(c) for c in s] for s in stripes]
    # hats incl. the half hats on the boundary nodes: ghost nodes one unit outside
    ext = [[s[0] - 1] + s + [s[-1] + 1] for s in stripes]
    hats = hats_of(ext)
    N = len(hats)
    Gs = []
    for s, e in zip(stripes, ext):
        n = len(s)
        hs = [(e[k + 1], e[k], e[k + 2]) for k in range(n)]
        G1 = [[F(0)] * n for _ in range(n)]
        for i in range(n):
            for j in range(n):
                tot = F(0)
                for c in range(len(s) - 1):
                    a, b = s[c], s[c + 1]
                    f = lambda x: hat_ref(*hs[i], x) * hat_ref(*hs[j], x)
                    m = (a + b) / 2
                    tot += (b - a) / 6 * (f(a) + 4 * f(m) + f(b))      # cells of the unit interval only
                G1[i][j] = tot
        Gs.append(G1)
    idx = list(itertools.product(*[range(len(s)) for s in stripes]))
    G = [[math.prod(Gs[d][I[d]][J[d]] for d in range(dim)) for J in idx] for I in idx]
    tags = {"kind": "dimwise-boundary", "dim": dim, "classes": classes is not None}
    R = op.build_R_matrix_dimension_wise(fl(stripes), levels)
    check_matrix(ck, R, None, G, lam, case, "build_R_matrix_dimension_wise(boundary grid)", dict(tags, boundary_grid=True))
    b = op.calculate_B_dimension_wise(op.data, fl(stripes), levels)
    # with the ghost nodes the half hats are 1 at their boundary node and linear towards the neighbour
    bref = [sum(hat_nd_ref(h, x) * sg for x, sg in zip(data, signs)) / len(data) for h in hats]
    if not vec_near(b, bref):
        k = next(i for i in range(N) if not near(b[i], bref[i]))
        on_upper = any(c == 1 for x in data for c in x)
        ck.viol("rhs-is-sample-mean-boundary-grid", dict(tags, sample_on_upper_boundary=on_upper), case,
                {"entry": k, "impl": float(b[k]), "sample_mean": str(bref[k])})
    # hats of the boundary grid: completely vectorised and scalar evaluation vs the piecewise-linear reference, at the data
    # points and at grid nodes (own node of every hat incl. the half hats on the boundary: value 1)
    r = ctx.rng
    pts_v, lower, upper = op.get_hat_domain_for_every_grid_point_vectorized(fl(stripes))
    nodes = [list(h_p) for h_p in itertools.product(*stripes)]
    evalpts = data[:4] + r.sample(nodes, min(6, len(nodes))) + [[s[-1] for s in stripes], [s[0] for s in stripes]]
    cv = op.hat_function_non_symmetric_completely_vectorized(pts_v, lower, upper, np.array([[float(c) for c in x] for x in evalpts]))
    for k, x in enumerate(evalpts):
        xf = [float(c) for c in x]
        for j, h in enumerate(hats):
            ref = hat_nd_ref(h, x)
            pt = tuple(float(c[0]) for c in h)
            vals = {"completely_vectorized": cv[k][j]}
            try:
                vals["scalar"] = op.hat_function_non_symmetric(pt, op.get_hat_domain(pt, fl(stripes)), xf)
            except ZeroDivisionError:
                vals["scalar"] = float("nan")
            bad = sorted(n for n, v in vals.items() if not near(v, ref, 1e-12))
            if bad:
                ck.viol("hat-paths-boundary-grid", dict(tags, path=bad[0], at_upper_boundary=any(c == 1 for c in x)),
                        dict(case, hat=str(pt), x=fv(x)), {"reference": str(ref), "values": {n: float(v) for n, v in vals.items()}})
            ctx.count("hat_eval_boundary_grid")
    ctx.count("boundary_grid_cases")


# ------------------------------------------------------------------ one case
class Checker:
    def __init__(self, ctx, drv):
        self.ctx = ctx
        self.drv = drv
        self.ok = True

    def corr(self, obs, case, impl, model):
        self.ok = False
        self.ctx.corr_break(self.ctx.prop + "/" + obs, case, {"impl": str(impl)[:600], "model": str(model)[:600]})

    def viol(self, probe, tags, case, detail):
        if self.ctx.violation(probe, tags, case, detail):
            self.ok = False


def special_points(r, stripes, n_random):
    """evaluation points: tensor of (nodes, support ends, cell midpoints, boundary) + random dyadic points"""
    dim = len(stripes)
    pts = []
    for _ in range(n_random):
        x = []
        for d in range(dim):
            u = r.random()
            s = stripes[d]
            if u < 0.45:
                x.append(r.choice(s))
            elif u < 0.6:
                k = r.randrange(len(s) - 1)
                x.append((s[k] + s[k + 1]) / 2)
            elif u < 0.7:
                x.append(r.choice([F(0), F(1)]))
            elif u < 0.8:
                # one ulp beside a grid line (a float tie of the side test of the completely vectorised hat)
                c = float(r.choice(s))
                x.append(F(float(np.nextafter(c, 0.0 if (r.random() < 0.7 and c > 0) or c == 1 else 1.0))))
            else:
                x.append(F(r.randint(0, 256), 256))
        pts.append(x)
    return pts


def ulp_off_node(x, stripes):
    return any(xc not in s and any(abs(float(xc) - float(c)) < 1e-15 for c in s) for xc, s in zip(x, stripes))


def check_hats_dimwise(ck, op, stripes, case, pts):
    """the three non-uniform hat code paths against the model and against each other / the reference"""
    ctx, drv = ck.ctx, ck.drv
    hats = hats_of(stripes)
    if len(hats) > 40:
        hats = ctx_sample(ck, hats, 40, case)
    dim = len(stripes)
    points = np.array([[float(c[0]) for c in h] for h in hats])
    lower = np.array([[float(c[1]) for c in h] for h in hats])
    upper = np.array([[float(c[2]) for c in h] for h in hats])
    cv = op.hat_function_non_symmetric_completely_vectorized(points, lower, upper, np.array([[float(c) for c in x] for x in pts]))
    for k, x in enumerate(pts):
        xf = [float(c) for c in x]
        for j, h in enumerate(hats):
            ref = hat_nd_ref(h, x)
            dom = [(float(c[1]), float(c[2])) for c in h]
            pt = [float(c[0]) for c in h]
            sc = op.hat_function_non_symmetric(pt, dom, xf)
            hs = ";".join(fv(c) for c in h)
            m_ns = F(drv.ask("hat ns %s %s" % (hs, fv(x))))
            m_cv = F(drv.ask("hat cv %s %s" % (hs, fv(x))))
            if not near(sc, m_ns, 1e-12):
                ck.corr("hat_function_non_symmetric", dict(case, hat=hs, x=fv(x)), sc, m_ns)
            if not near(cv[k][j], m_cv, 1e-12):
                ck.corr("hat_function_non_symmetric_completely_vectorized", dict(case, hat=hs, x=fv(x)), cv[k][j], m_cv)
            in_support = all(c[1] <= xc <= c[2] for c, xc in zip(h, x))
            vec = None
            if in_support:
                vec = op.hat_function_non_symmetric_vectorized([pt], [dom], xf)[0]
                m_v = F(drv.ask("hat v %s %s" % (hs, fv(x))))
                if not near(vec, m_v, 1e-12):
                    ck.corr("hat_function_non_symmetric_vectorized", dict(case, hat=hs, x=fv(x)), vec, m_v)
            vals = {"scalar": sc, "completely_vectorized": cv[k][j]}
            if vec is not None:
                vals["vectorized"] = vec
            bad = {n: float(v) for n, v in vals.items() if not near(v, ref, 1e-12)}
            if bad:
                on_line = any(xc in s for xc, s in zip(x, stripes))
                ck.viol("hat-paths-nonuniform", {"path": sorted(bad)[0], "on_grid_line": on_line, "ulp_off_node": ulp_off_node(x, stripes)},
                        dict(case, hat=hs, x=fv(x)), {"reference": str(ref), "values": {n: float(v) for n, v in vals.items()}})
            ctx.count("hat_eval_nonuniform")
            if in_support:
                ctx.count("hat_eval_in_support")
            if any(xc == c[0] or xc == c[1] or xc == c[2] for c, xc in zip(h, x)):
                ctx.count("hat_eval_on_node_or_support_end")


def ctx_sample(ck, items, n, case):
    r = ck.ctx.rng
    idx = sorted(r.sample(range(len(items)), n))
    return [items[i] for i in idx]


def check_hats_uniform(ck, op, lv, case, pts):
    ctx, drv = ck.ctx, ck.drv
    dim = len(lv)
    num = [2 ** l - 1 for l in lv]
    ivecs = list(itertools.product(*[range(1, n + 1) for n in num]))
    if len(ivecs) > 40:
        ivecs = ctx_sample(ck, ivecs, 40, case)
    lva = np.array(lv, dtype=int)
    cv = op.hat_function_in_support_completely_vectorized(np.array(ivecs, dtype=int), lva, np.array([[float(c) for c in x] for x in pts]))
    op.grid.numPoints = np.array(num)
    for k, x in enumerate(pts):
        xf = np.array([float(c) for c in x])
        sup = sorted(tuple(int(v) for v in h) for h in op.get_hats_in_support(lv, xf))
        m_sup = drv.ask("hatsup %s %s" % (fints(lv), fv(x)))
        i_sup = "[" + ",".join("[" + ",".join(str(v) for v in h) + "]" for h in sup) + "]"
        if i_sup != m_sup:
            ck.corr("get_hats_in_support", dict(case, x=fv(x)), i_sup, m_sup)
        for j, iv in enumerate(ivecs):
            h = [(F(i, 2 ** l), F(i - 1, 2 ** l), F(i + 1, 2 ** l)) for i, l in zip(iv, lv)]
            ref = hat_nd_ref(h, x)
            sc = op.hat_function(iv, lv, xf)
            m_full = F(drv.ask("hatu full %s %s %s" % (fints(lv), fints(iv), fv(x))))
            if not near(sc, m_full, 1e-12):
                ck.corr("hat_function", dict(case, ivec=list(iv), x=fv(x)), sc, m_full)
            if not near(cv[k][j], m_full, 1e-12):
                ck.corr("hat_function_in_support_completely_vectorized", dict(case, ivec=list(iv), x=fv(x)), cv[k][j], m_full)
            vals = {"scalar": sc, "completely_vectorized": cv[k][j]}
            if tuple(iv) in sup:
                a = op.hat_function_in_support(np.array(iv, dtype=int), lva, xf)
                b = op.hat_function_in_support_vectorized(np.array([iv], dtype=int), lva, xf)[0]
                m_in = F(drv.ask("hatu in %s %s %s" % (fints(lv), fints(iv), fv(x))))
                if not near(a, m_in, 1e-12) or not near(b, m_in, 1e-12):
                    ck.corr("hat_function_in_support(_vectorized)", dict(case, ivec=list(iv), x=fv(x)), (a, b), m_in)
                vals["in_support"] = a
                vals["vectorized"] = b
            elif ref != 0:
                ck.viol("hats-in-support-misses-hat", {}, dict(case, ivec=list(iv), x=fv(x)), {"reference": str(ref), "support": i_sup})
            bad = {n: float(v) for n, v in vals.items() if not near(v, ref, 1e-12)}
            if bad:
                ck.viol("hat-paths-uniform", {"path": sorted(bad)[0]}, dict(case, ivec=list(iv), x=fv(x)),
                        {"reference": str(ref), "values": {n: float(v) for n, v in vals.items()}})
            ctx.count("hat_eval_uniform")


def check_matrix(ck, R, Rm, G, lam, case, what, tags):
    """R: implementation (floats, n x n); Rm: model (Fractions); G: reference Gram (Fractions)"""
    n = len(G)
    Rl = [[F(float(R[i][j])) for j in range(n)] for i in range(n)]
    if Rm is not None:
        if len(Rm) != n or any(len(r) != n for r in Rm) or not all(near_entry(Rl[i][j], Rm[i][j]) for i in range(n) for j in range(n)):
            ck.corr(what, case, np.asarray(R).tolist(), [[str(v) for v in r] for r in (Rm or [])])
    bad = [(i, j) for i in range(n) for j in range(n) if not near_entry(Rl[i][j], G[i][j] + (lam if i == j else 0))]
    if bad:
        i, j = bad[0]
        ck.viol("matrix-is-gram-plus-lambda", dict(tags), case,
                {"entry": [i, j], "impl": float(R[i][j]), "gram_plus_lambda": str(G[i][j] + (lam if i == j else 0)), "n_bad": len(bad)})
    if any(Rl[i][j] != Rl[j][i] for i in range(n) for j in range(i)):
        ck.viol("matrix-symmetric", dict(tags), case, {})
    if n <= 45:
        piv = ldl_pivots(Rl)
        if any(p <= 0 for p in piv):
            ck.viol("matrix-positive-definite", dict(tags), case, {"pivots": [float(p) for p in piv][:10]})
        ck.ctx.count("posdef_exact_pivots")
    else:
        try:
            np.linalg.cholesky(np.asarray(R, dtype=float))
            ck.ctx.count("posdef_cholesky")
        except np.linalg.LinAlgError:
            ck.viol("matrix-positive-definite", dict(tags), case, {"cholesky": "failed"})


def check_normalised(ck, alphas, weights, case, tags, exact=None):
    """clause: (quadrature-)weighted mean of the positive parts is 1, unless it is 0.  `exact` = (classes?, exact rational
    solution of the system): whether the mean is non-zero is then judged on the EXACT value -- however small it is (it only has
    to be well above the rounding level relative to the surpluses), the returned surpluses must be normalised"""
    a = [float(v) for v in alphas]
    w = [float(v) for v in weights]
    m = sum(max(v, 0.0) * wi for v, wi in zip(a, w)) / sum(w)
    must = False
    if exact is not None:
        cls, raw = exact
        sw = sum(weights)
        a1 = list(raw)
        if cls:
            mean = sum(x * wi for x, wi in zip(a1, weights)) / sw
            a1 = [x - mean for x in a1]
        integ = sum(max(x, 0) * wi for x, wi in zip(a1, weights)) / sw
        must = integ > 0 and integ >= F(1, 10 ** 6) * max(abs(x) for x in a1)
        ck.ctx.count("normalisation_exact_mean_%s" % ("tiny" if must and integ < F(1, 10 ** 8) else ("nonzero" if must else "zero_or_rounding")))
    if not (abs(m - 1.0) <= 1e-9 or (m == 0.0 and not must)):
        ck.viol("surpluses-normalised", dict(tags, exact_mean_nonzero=must), case, {"weighted_mean_of_positive_parts": m})
    ck.ctx.count("normalisation_mean_%s" % ("one" if m != 0.0 else "zero"))


def run_case(ctx, drv, case):
    ck = Checker(ctx, drv)
    try:
        _run_case(ck, case)
    except Exception:
        ck.ok = False
        ctx.violation("exception", {"kind": case.get("kind")}, case, {"traceback": traceback.format_exc()[-1500:]})
    return ck.ok


def _run_case(ck, case):
    from sparseSpACE.ComponentGridInfo import ComponentGridInfo
    if case["kind"] == "dimwise-boundary":
        return run_boundary_case(ck, case)
    ctx, drv = ck.ctx, ck.drv
    r = ctx.rng
    dim = case["dim"]
    stripes = [[F(c) for c in s] for s in case["stripes"]]
    lam = F(case["lam"])
    lumped = case["lumped"]
    classes = case["classes"]
    data = [[F(c) for c in x] for x in case["data"]]
    M = len(data)
    signs = [F(c) for c in classes] if classes is not None else [F(1)] * M
    sg = fv(signs) if classes is not None else "-"
    N = math.prod(len(s) - 2 for s in stripes)
    big = N >= 200
    tags = {"kind": case["kind"], "dim": dim, "lumped": lumped, "classes": classes is not None, "numeric": bool(case.get("numeric"))}
    pts = special_points(r, stripes, 6 if N <= 64 else 3) + data[:3]
    bref = b_ref(stripes, data, signs)
    G = gram_ref(stripes) if (N <= 130 or (N <= 330 and (case.get("bigR") or lumped))) else None
    wref = trap_weights_ref(stripes)

    kw = {"affine": case.get("affine")}
    if case.get("pre_scaled"):
        kw["pre_scaled_data"] = True
    if case.get("sibling") and N <= 45:
        return run_sibling(ck, case, stripes, data, lam, lumped, classes, tags)
    if case["kind"] == "uniform":
        lv = case["lv"]
        lvs = fints(lv)
        op = mk_uniform(data, dim, lam, lumped, classes, **kw)
        check_data_handling(ck, op, case, tags, "after initialize()")
        op.grid.setCurrentArea(np.zeros(dim), np.ones(dim), lv)
        # ---- matrix
        R = op.build_R_matrix(lv)
        if lumped:
            m = drv.ask("ru %s %s 1" % (lvs, frac_str(lam)))
            if not (m.startswith("S ") and near(R, F(m[2:]), TOL, 1e-6)):
                ck.corr("build_R_matrix(masslumping)", case, float(R), m)
            if G is not None and not all(near(R, G[i][i], TOL, 1e-6) for i in range(N)):
                ck.viol("lumped-is-gram-diagonal", tags, case, {"impl": float(R), "gram_diag": str(G[0][0])})
        elif G is not None:
            m = drv.ask("ru %s %s 0" % (lvs, frac_str(lam)))
            Rm = parse_mat(m[2:]) if m.startswith("M ") else None
            if Rm is None:
                ck.corr("build_R_matrix", case, "matrix", m[:200])
            check_matrix(ck, R, Rm, G, lam, case, "build_R_matrix", tags)
        # ---- right-hand side (N < 200: completely vectorised; N >= 200: get_hats_in_support + in-support hats)
        b = op.calculate_B(op.data, lv)
        mb = parse_vec(drv.ask("bu %s %s %s %s" % ("large" if big else "small", lvs, fvs(data), sg)))
        if not vec_near(b, mb):
            ck.corr("calculate_B", case, np.asarray(b).tolist(), [str(v) for v in mb])
        mb2 = parse_vec(drv.ask("bu %s %s %s %s" % ("small" if big else "large", lvs, fvs(data), sg)))
        if mb2 != mb:
            ck.corr("model: calculate_B small path vs large path", case, [str(v) for v in mb], [str(v) for v in mb2])
        if not vec_near(b, bref):
            k = next(i for i in range(N) if not near(b[i], bref[i]))
            ck.viol("rhs-is-sample-mean", dict(tags, big=big), case, {"entry": k, "impl": float(b[k]), "sample_mean": str(bref[k])})
        ctx.count("rhs_path_uniform_%s" % ("large" if big else "small"))
        # ---- hats
        check_hats_uniform(ck, op, lv, case, pts)
        # ---- solve + normalise (public path: evaluate_levelvec)
        if N <= 45:
            al = op.evaluate_levelvec(ComponentGridInfo(tuple(lv), 1))
            if lumped:
                raw = [v / G[0][0] for v in bref]          # as coded: lambda is not used with mass lumping on uniform grids
            else:
                A = [[G[i][j] + (lam if i == j else 0) for j in range(N)] for i in range(N)]
                raw = solve_exact(A, bref)
                res = parse_vec(drv.ask("residu %s %s %s %s %s" % (lvs, frac_str(lam), fvs(data), sg, fv(raw))))
                if any(v != 0 for v in res):
                    ck.corr("model residual R*alpha-b (uniform)", case, "0", [str(v) for v in res][:5])
            mn = parse_vec(drv.ask("normu %d %s" % (1 if classes is not None else 0, fv(raw))))
            if not vec_near(al, mn, 1e-8):
                ck.corr("solve_density_estimation", case, np.asarray(al).tolist(), [float(v) for v in mn])
            if not vec_near(al, normalise_ref(classes is not None, raw, [1] * N), 1e-8):
                ck.viol("surpluses-solve-the-system", tags, case, {"impl": np.asarray(al).tolist()[:8]})
            check_normalised(ck, al, [1] * N, case, tags, exact=(classes is not None, raw))
            ctx.count("solve_uniform")
            if case.get("history"):
                run_object_history(ck, op, "uniform", case, stripes, lam, lumped, classes, data, tags, R, b, pts)
        check_data_handling(ck, op, case, tags, "at the end")
    else:
        numeric = bool(case.get("numeric"))
        reuse = bool(case.get("reuse"))
        tags = dict(tags, reuse=reuse)
        op, cont = mk_dimwise(data, dim, lam, lumped, classes, numeric=numeric, reuse=reuse, **kw)
        check_data_handling(ck, op, case, tags, "after initialize()")
        R = None
        levels = [[node_level(c) for c in s] for s in stripes]
        st = fvs(stripes)
        fstripes = fl(stripes)
        # ---- supports
        pts_i, lower, upper = op.get_hat_domain_for_every_grid_point_vectorized(fstripes)
        dom = drv.ask("domains %s" % st)
        i_dom = "[" + ",".join("[" + ",".join("(%s,%s,%s)" % (frac_str(p), frac_str(l), frac_str(u)) for p, l, u in zip(P, Lo, Up)) + "]"
                               for P, Lo, Up in zip(pts_i, lower, upper)) + "]"
        if N <= 64:
            i_dom2 = "[" + ",".join("[" + ",".join("(%s,%s,%s)" % (frac_str(p), frac_str(l), frac_str(u))
                                                  for p, (l, u) in zip(P, op.get_hat_domain(P, fstripes))) + "]" for P in pts_i) + "]"
            if dom != i_dom + " | " + i_dom2:
                ck.corr("hat domains", case, (i_dom + " | " + i_dom2)[:300], dom[:300])
        # ---- matrix
        if G is not None or lumped:
            t0 = time.time()
            R = op.build_R_matrix_dimension_wise(fstripes, levels)
            m = drv.ask("rdw %s %s %d" % (st, frac_str(lam), 1 if lumped else 0))
            tolR = TOL if not numeric else 1e-8
            if lumped:
                mv = parse_vec(m[2:]) if m.startswith("V ") else None
                if not numeric and (mv is None or len(mv) != len(R) or not all(near_entry(a, b) for a, b in zip(R, mv))):
                    ck.corr("build_R_matrix_dimension_wise(masslumping)", case, np.asarray(R).tolist(), m[:300])
                if G is not None:
                    bad = [i for i in range(N) if not (near_entry(R[i], G[i][i] + lam) if not numeric else near(R[i], G[i][i] + lam, tolR, 1e-3))]
                    if bad:
                        rel = max(entry_rel(float(R[i]) - float(lam), G[i][i]) for i in bad)
                        ck.viol("numeric-entries-are-gram" if numeric else "lumped-is-gram-diagonal", dict(tags, err=err_class(rel)), case,
                                {"entry": bad[0], "impl": float(R[bad[0]]), "gram_diag_plus_lambda": str(G[bad[0]][bad[0]] + lam), "max_rel_err": rel})
            else:
                Rm = parse_mat(m[2:]) if m.startswith("M ") else None
                if numeric:
                    # numeric entries (scipy nquad) are not modelled; oracle only
                    Rl = [[F(float(R[i][j])) for j in range(N)] for i in range(N)]
                    bad = [(i, j) for i in range(N) for j in range(N) if not near(Rl[i][j], G[i][j] + (lam if i == j else 0), tolR, 1e-3)]
                    if bad:
                        rel = max(entry_rel(float(Rl[i][j]) - (float(lam) if i == j else 0.0), G[i][j]) for i, j in bad)
                        bad.sort(key=lambda ij: -entry_rel(float(Rl[ij[0]][ij[1]]) - (float(lam) if ij[0] == ij[1] else 0.0), G[ij[0]][ij[1]]))
                        i, j = bad[0]
                        ck.viol("numeric-entries-are-gram", dict(tags, err=err_class(rel)), case,
                                {"entry": [i, j], "impl": float(R[i][j]), "gram_plus_lambda": str(G[i][j] + (lam if i == j else 0)), "max_rel_err": rel})
                    if any(Rl[i][j] != Rl[j][i] for i in range(N) for j in range(i)):
                        ck.viol("matrix-symmetric", tags, case, {})
                    if any(p <= 0 for p in ldl_pivots(Rl)):
                        ck.viol("matrix-positive-definite", tags, case, {})
                else:
                    if Rm is None:
                        ck.corr("build_R_matrix_dimension_wise", case, "matrix", m[:200])
                    check_matrix(ck, R, Rm, G, lam, case, "build_R_matrix_dimension_wise", tags)
                    if reuse:
                        # warm entry cache (old_R): the SAME operation object builds the matrix of this grid again and of a
                        # refined grid; R = Gram + lambda*I must hold for every one of them (diagonal included)
                        R2 = op.build_R_matrix_dimension_wise(fstripes, levels)
                        check_matrix(ck, R2, Rm, G, lam, dict(case, warm="same grid again"), "build_R_matrix_dimension_wise(warm old_R)",
                                     dict(tags, warm_cache=True))
                        k = max(range(len(stripes[0]) - 1), key=lambda i: stripes[0][i + 1] - stripes[0][i])
                        st3 = [list(stripes[0][:k + 1]) + [(stripes[0][k] + stripes[0][k + 1]) / 2] + list(stripes[0][k + 1:])] + [list(t) for t in stripes[1:]]
                        if math.prod(len(t) - 2 for t in st3) <= 130:
                            lev3 = [[node_level(c) for c in t] for t in st3]
                            R3 = op.build_R_matrix_dimension_wise(fl(st3), lev3)
                            m3 = drv.ask("rdw %s %s 0" % (fvs(st3), frac_str(lam)))
                            check_matrix(ck, R3, parse_mat(m3[2:]) if m3.startswith("M ") else None, gram_ref(st3), lam,
                                         dict(case, warm="refined grid", stripes3=[[frac_str(c) for c in t] for t in st3]),
                                         "build_R_matrix_dimension_wise(warm old_R, refined grid)", dict(tags, warm_cache=True))
                        ctx.count("matrix_dimwise_reuse_warm_cache")
            ctx.count("matrix_dimwise_%s%s" % ("numeric" if numeric else "analytic", "_lumped" if lumped else ""))
            if numeric and dim >= 2:
                ctx.count("matrix_numeric_2d")
        # ---- right-hand side
        b = op.calculate_B_dimension_wise(op.data, fstripes, levels)
        mb = parse_vec(drv.ask("bdw %s %s %s %s" % ("large" if big else "small", st, fvs(data), sg)))
        if not vec_near(b, mb):
            ck.corr("calculate_B_dimension_wise", case, np.asarray(b).tolist(), [str(v) for v in mb])
        mb2 = parse_vec(drv.ask("bdw %s %s %s %s" % ("small" if big else "large", st, fvs(data), sg)))
        if mb2 != mb:
            ck.corr("model: calculate_B_dimension_wise small path vs large path", case, [str(v) for v in mb], [str(v) for v in mb2])
        if not vec_near(b, bref):
            k = next(i for i in range(N) if not near(b[i], bref[i]))
            ck.viol("rhs-is-sample-mean", dict(tags, big=big), case, {"entry": k, "impl": float(b[k]), "sample_mean": str(bref[k])})
        ctx.count("rhs_path_dimwise_%s" % ("large" if big else "small"))
        # ---- weights
        op.grid.set_grid(fstripes, levels)
        _, w = op.grid.get_points_and_weights()
        mw = parse_vec(drv.ask("weights %s" % st))
        if not vec_near(w, mw, 1e-12) or mw != wref:
            ck.corr("trapezoidal weights", case, np.asarray(w).tolist(), [str(v) for v in mw])
        # ---- hats
        check_hats_dimwise(ck, op, stripes, case, pts)
        # ---- solve + normalise (public path: calculate_operation_dimension_wise)
        if N <= 45 and not numeric:
            lvec = tuple(max(l) for l in levels)
            op.calculate_operation_dimension_wise(fstripes, levels, ComponentGridInfo(lvec, 1))
            al = op.surpluses[lvec]
            if lumped:
                raw = [v / (G[i][i] + lam) for i, v in enumerate(bref)]
            else:
                A = [[G[i][j] + (lam if i == j else 0) for j in range(N)] for i in range(N)]
                raw = solve_exact(A, bref)
                res = parse_vec(drv.ask("residdw %s %s %s %s %s" % (st, frac_str(lam), fvs(data), sg, fv(raw))))
                if any(v != 0 for v in res):
                    ck.corr("model residual R*alpha-b (dimension-wise)", case, "0", [str(v) for v in res][:5])
            mn = parse_vec(drv.ask("normw %d %s %s" % (1 if classes is not None else 0, st, fv(raw))))
            if not vec_near(al, mn, 1e-8):
                ck.corr("solve_density_estimation_dimension_wise", case, np.asarray(al).tolist(), [float(v) for v in mn])
            if not vec_near(al, normalise_ref(classes is not None, raw, wref), 1e-8):
                ck.viol("surpluses-solve-the-system", tags, case, {"impl": np.asarray(al).tolist()[:8],
                        "reference": [float(v) for v in normalise_ref(classes is not None, raw, wref)][:8]})
            check_normalised(ck, al, wref, case, tags, exact=(classes is not None, raw))
            ctx.count("solve_dimwise")
            if case.get("history") and R is not None:
                run_object_history(ck, op, "dimwise", case, stripes, lam, lumped, classes, data, tags, R, b, pts)
        check_data_handling(ck, op, case, tags, "at the end")


def exact_surpluses(kind, stripes, lam, lumped, classes, data):
    """normalised exact solution of the exact system (as the code defines it: uniform mass lumping ignores lambda)"""
    signs = [F(c) for c in classes] if classes is not None else [F(1)] * len(data)
    bref = b_ref(stripes, data, signs)
    G = gram_ref(stripes)
    N = len(bref)
    if lumped:
        raw = [v / (G[i][i] + (lam if kind != "uniform" else 0)) for i, v in enumerate(bref)]
    else:
        raw = solve_exact([[G[i][j] + (lam if i == j else 0) for j in range(N)] for i in range(N)], bref)
    w = [1] * N if kind == "uniform" else trap_weights_ref(stripes)
    return normalise_ref(classes is not None, raw, w)


def evaluate_public(op, kind, case, stripes):
    """surpluses through the public evaluation route of the kind"""
    from sparseSpACE.ComponentGridInfo import ComponentGridInfo
    if kind == "uniform":
        lv = tuple(case["lv"])
        op.evaluate_levelvec(ComponentGridInfo(lv, 1))
        return lv
    levels = [[node_level(c) for c in s] for s in stripes]
    lvec = tuple(max(l) for l in levels)
    op.calculate_operation_dimension_wise(fl(stripes), levels, ComponentGridInfo(lvec, 1))
    return lvec


def run_sibling(ck, case, stripes, data, lam, lumped, classes, tags):
    """two operations alive at once (different data, lambda, lumping, labels; same grid = same dictionary keys), work interleaved;
    each is re-observed after the other one worked"""
    kind, dim, sib = case["kind"], case["dim"], case["sibling"]
    data2 = [[F(c) for c in x] for x in sib["data"]]
    lam2 = F(sib["lam"])
    if kind == "uniform":
        A = mk_uniform(data, dim, lam, lumped, classes)
        B = mk_uniform(data2, dim, lam2, sib["lumped"], sib["classes"])
    else:
        A, _ = mk_dimwise(data, dim, lam, lumped, classes, reuse=bool(case.get("reuse")))
        B, _ = mk_dimwise(data2, dim, lam2, sib["lumped"], sib["classes"], reuse=bool(sib["reuse"]))
    refA = exact_surpluses(kind, stripes, lam, lumped, classes, data)
    refB = exact_surpluses(kind, stripes, lam2, sib["lumped"], sib["classes"], data2)
    key = evaluate_public(A, kind, case, stripes)
    a1 = np.array(A.surpluses[key])
    evaluate_public(B, kind, case, stripes)
    b1 = np.array(B.surpluses[key])
    if not np.array_equal(np.asarray(A.surpluses[key]), a1):
        ck.viol("sibling-operation-disturbs-results", dict(tags, what="stored surpluses of A after B worked"), case, {})
    evaluate_public(A, kind, case, stripes)
    a2 = np.array(A.surpluses[key])
    if not np.array_equal(np.asarray(B.surpluses[key]), b1):
        ck.viol("sibling-operation-disturbs-results", dict(tags, what="stored surpluses of B after A worked again"), case, {})
    for name, got, ref in (("A first", a1, refA), ("B", b1, refB), ("A again", a2, refA)):
        if not vec_near(got, ref, 1e-8):
            ck.viol("sibling-operation-disturbs-results", dict(tags, what=name), case,
                    {"impl": np.asarray(got).tolist()[:6], "reference": [float(v) for v in ref][:6]})
    for o, w in ((A, "A"), (B, "B")):
        check_data_handling(ck, o, dict(case, affine=None), tags, "sibling " + w)
    ck.ctx.count("sibling_cases")


def run_object_history(ck, op, kind, case, stripes, lam, lumped, classes, data, tags, first_R, first_b, pts):
    """ONE object, repeated queries: same matrix / right-hand side again, `initialize()` again, interpolation does not touch the stored
    surpluses, a second evaluation returns the same surpluses"""
    from sparseSpACE.ComponentGridInfo import ComponentGridInfo
    ctx = ck.ctx
    levels = [[node_level(c) for c in s] for s in stripes]
    key = evaluate_public(op, kind, case, stripes)
    snap = np.array(op.surpluses[key])
    op.initialize()
    check_data_handling(ck, op, case, tags, "after second initialize()")
    if kind == "uniform":
        lv = case["lv"]
        R2, b2 = op.build_R_matrix(lv), op.calculate_B(op.data, lv)
    else:
        R2, b2 = op.build_R_matrix_dimension_wise(fl(stripes), levels), op.calculate_B_dimension_wise(op.data, fl(stripes), levels)
    same_R = np.shape(R2) == np.shape(first_R) and all(near_entry(x, y) for x, y in zip(np.ravel(R2), np.ravel(first_R)))
    if not same_R or not np.array_equal(np.asarray(b2), np.asarray(first_b)):
        ck.viol("repeated-query-differs", dict(tags, what="matrix" if not same_R else "right-hand side"), case, {})
    # interpolation of the stored surpluses at points incl. grid lines; must equal sum_i alpha_i phi_i(x) and leave them untouched
    hats = hats_of(stripes)
    alf = to_fr(snap)
    fp = [tuple(float(c) for c in x) for x in pts]
    if kind == "uniform":
        vals = op.interpolate_points_component_grid(ComponentGridInfo(tuple(case["lv"]), 1), None, fp)
    else:
        op.grid.set_grid(fl(stripes), levels)
        vals = op.interpolate_points_component_grid(ComponentGridInfo(key, 1), fl(stripes), fp)
    for k, x in enumerate(pts):
        ref = sum(a * hat_nd_ref(h, x) for a, h in zip(alf, hats))
        if not near(np.ravel(vals[k])[0], ref, 1e-9):
            ck.viol("interpolation-of-stored-surpluses", tags, dict(case, point=fv(x)), {"impl": float(np.ravel(vals[k])[0]), "reference": float(ref)})
            break
    if not np.array_equal(np.asarray(op.surpluses[key]), snap):
        ck.viol("query-modifies-stored-surpluses", tags, case, {})
    evaluate_public(op, kind, case, stripes)
    again = np.asarray(op.surpluses[key])
    if not vec_near(again, snap, 1e-9):
        ck.viol("repeated-query-differs", dict(tags, what="surpluses of a second evaluation"), case,
                {"first": snap.tolist()[:6], "second": again.tolist()[:6]})
    ctx.count("object_history_cases")


def err_class(rel):
    """class of the worst deviation of a numerically integrated matrix entry RELATIVE TO THAT ENTRY (inf for a non-zero value
    where the Gram entry is 0): the quadrature of the unchanged code (nquad with epsrel = 1) is off by up to ~1e-2 of an entry
    (measured 9.4e-3); anything beyond 3e-2 of the entry -- in particular a dropped or spurious coupling -- is "entry-wrong" """
    if rel <= 1e-8:
        return "none"
    return "quadrature-tolerance" if rel <= 3e-2 else "entry-wrong"


def entry_rel(impl, ref):
    ref = float(ref)
    d = abs(float(impl) - ref)
    return d / abs(ref) if ref != 0 else (0.0 if d <= 1e-14 else float("inf"))


def combi_case(ctx, drv, thorough):
    """StandardCombi.perform_operation + combi(points): every surplus vector normalised; the combined interpolant equals
    the combination of the component interpolants sum_i alpha_i phi_i(x) (both interpolation code paths)"""
    from sparseSpACE.StandardCombi import StandardCombi
    r = ctx.rng
    dim = r.choice([1, 2, 2, 3])
    lmin = 1
    lmax = r.choice([2, 3, 4] if dim < 3 else [2, 3])
    M = r.choice([4, 8, 16])
    stripes = uniform_stripes([lmax] * dim)
    data = gen_data(r, dim, stripes, M)
    lam = r.choice(LAMS)
    classes = [r.choice([-1, 1]) for _ in range(M)] if r.random() < 0.4 else None
    lumped = r.random() < 0.25
    pts = special_points(r, stripes, 8)
    lmax2 = r.choice([None, lmax - 1, lmax + 1 if (dim < 3 and lmax < 4) else lmax - 1])
    case = {"kind": "combi", "dim": dim, "lmin": lmin, "lmax": lmax, "lmax2": lmax2 if (lmax2 or 0) >= 1 else None, "lam": frac_str(lam), "lumped": lumped, "classes": classes,
            "data": [[frac_str(c) for c in x] for x in data], "points": [[frac_str(c) for c in x] for x in pts]}
    return case


def run_combi(ctx, drv, case):
    from sparseSpACE.StandardCombi import StandardCombi
    ck = Checker(ctx, drv)
    try:
        dim = case["dim"]
        data = [[F(c) for c in x] for x in case["data"]]
        pts = [[F(c) for c in x] for x in case["points"]]
        lam = F(case["lam"])
        classes = case["classes"]
        signs = [F(c) for c in classes] if classes is not None else [F(1)] * len(data)
        op = mk_uniform(data, dim, lam, case["lumped"], classes)
        combi = StandardCombi(np.zeros(dim), np.ones(dim), operation=op, **quiet())
        tags = {"kind": "combi", "dim": dim, "lumped": case["lumped"], "classes": classes is not None}
        # first run, then a SECOND perform_operation with another maximum level on the same combi / operation objects
        runs = [case["lmax"]] + ([case["lmax2"]] if case.get("lmax2") else [])
        for nrun, lmax in enumerate(runs):
            combi.perform_operation(case["lmin"], lmax)
            vals = combi([tuple(float(c) for c in x) for x in pts])
            ref = [F(0)] * len(pts)
            rtags = dict(tags, second_run=bool(nrun))
            for cg in combi.scheme:
                lv = tuple(int(v) for v in cg.levelvector)
                al = op.surpluses[lv]
                stripes = uniform_stripes(lv)
                N = len(al)
                check_normalised(ck, al, [1] * N, case, rtags)
                # surpluses against the exact solution of the exact system
                bref = b_ref(stripes, data, signs)
                if N <= 45:
                    G = gram_ref(stripes)
                    if case["lumped"]:
                        raw = [v / G[0][0] for v in bref]
                    else:
                        raw = solve_exact([[G[i][j] + (lam if i == j else 0) for j in range(N)] for i in range(N)], bref)
                    mn = parse_vec(drv.ask("normu %d %s" % (1 if classes is not None else 0, fv(raw))))
                    if not vec_near(al, mn, 1e-8):
                        ck.corr("surpluses after perform_operation", dict(case, lv=list(lv)), np.asarray(al).tolist(), [float(v) for v in mn])
                    if not vec_near(al, normalise_ref(classes is not None, raw, [1] * N), 1e-8):
                        ck.viol("surpluses-solve-the-system", rtags, dict(case, lv_component=list(lv), second_run=bool(nrun)), {"impl": np.asarray(al).tolist()[:8]})
                hats = hats_of(stripes)
                alf = to_fr(al)
                for k, x in enumerate(pts):
                    ref[k] += int(cg.coefficient) * sum(a * hat_nd_ref(h, x) for a, h in zip(alf, hats))
            for k in range(len(pts)):
                if not near(vals[k][0], ref[k], 1e-9):
                    ck.viol("combi-interpolant", rtags, dict(case, point=case["points"][k], second_run=bool(nrun)),
                            {"impl": float(vals[k][0]), "reference": float(ref[k])})
        check_data_handling(ck, op, case, tags, "after perform_operation")
        ctx.count("combi_runs")
    except Exception:
        ck.ok = False
        ctx.violation("exception", {"kind": "combi"}, case, {"traceback": traceback.format_exc()[-1500:]})
    return ck.ok


def gen_useq(ctx):
    """ONE uniform operation evaluates several component grids in sequence, at least two of them with >= 200 nodes and different
    level vectors, in A-B-A order, small grids in between (mass lumping: no matrix cost)"""
    r = ctx.rng
    dim = r.choice([2, 2, 2, 3])
    bigs = [[4, 4], [3, 5], [5, 3]] if dim == 2 else [[3, 3, 3], [2, 3, 4], [4, 3, 2], [3, 4, 2]]
    smalls = [[2, 2], [3, 2], [1, 3]] if dim == 2 else [[1, 2, 1], [2, 2, 2]]
    a, b = r.sample(bigs, 2)
    lvs = [a, r.choice(smalls), b, a] if r.random() < 0.7 else [r.choice(smalls), a, b, r.choice(smalls), a]
    M = r.choice([6, 10, 16])
    data = gen_data(r, dim, uniform_stripes([5] * dim), M, res=128)
    return {"kind": "useq", "dim": dim, "lvs": lvs, "lam": frac_str(r.choice(LAMS)), "lumped": True, "big": True, "numeric": False,
            "classes": [r.choice([-1, 1]) for _ in range(M)] if r.random() < 0.5 else None,
            "data": [[frac_str(c) for c in x] for x in data]}


def run_useq(ctx, drv, case):
    from sparseSpACE.ComponentGridInfo import ComponentGridInfo
    ck = Checker(ctx, drv)
    try:
        dim = case["dim"]
        data = [[F(c) for c in x] for x in case["data"]]
        classes = case["classes"]
        signs = [F(c) for c in classes] if classes is not None else [F(1)] * len(data)
        sg = fv(signs) if classes is not None else "-"
        op = mk_uniform(data, dim, F(case["lam"]), True, classes)
        seen = {}
        for n, lv in enumerate(case["lvs"]):
            stripes = uniform_stripes(lv)
            N = math.prod(2 ** l - 1 for l in lv)
            tags = {"kind": "useq", "dim": dim, "classes": classes is not None, "position": n, "grid_ge_200": N >= 200,
                    "repeated_grid": tuple(lv) in seen}
            al = np.array(op.evaluate_levelvec(ComponentGridInfo(tuple(lv), 1)))
            b = op.calculate_B(op.data, lv)
            bref = b_ref(stripes, data, signs)
            if not vec_near(b, bref, 1e-12):
                k = next(i for i in range(N) if not near(b[i], bref[i], 1e-12))
                ck.viol("rhs-is-sample-mean", dict(tags, big=N >= 200), dict(case, step=n), {"entry": k, "impl": float(b[k]), "sample_mean": str(bref[k])})
            mb = parse_vec(drv.ask("bu %s %s %s %s" % ("large" if N >= 200 else "small", fints(lv), fvs(data), sg)))
            if not vec_near(b, mb, 1e-12):
                ck.corr("calculate_B in a sequence of grids", dict(case, step=n), np.asarray(b).tolist()[:8], [str(v) for v in mb][:8])
            diag = math.prod(F(1, 2 ** (l - 1) * 3) for l in lv)          # as coded: uniform mass lumping, lambda not used
            ref = normalise_ref(classes is not None, [v / diag for v in bref], [1] * N)
            if not vec_near(al, ref, 1e-8):
                ck.viol("surpluses-solve-the-system", tags, dict(case, step=n), {"impl": al.tolist()[:6], "reference": [float(v) for v in ref][:6]})
            if tuple(lv) in seen and not vec_near(al, seen[tuple(lv)], 1e-12):
                ck.viol("repeated-query-differs", dict(tags, what="surpluses of the same grid later in the sequence"), dict(case, step=n), {})
            seen[tuple(lv)] = al
            ctx.count("useq_grids_%s" % ("ge_200" if N >= 200 else "lt_200"))
        check_data_handling(ck, op, case, {"kind": "useq", "dim": dim}, "at the end")
    except Exception:
        ck.ok = False
        ctx.violation("exception", {"kind": "useq"}, case, {"traceback": traceback.format_exc()[-1500:]})
    return ck.ok


MALFORMED = [("", "bad-op"), ("rdw 0,1/2,1", "bad-op"), ("rdw 0,1/2,1 x 0", "bad-op"), ("rdw 0,1,1/2 0 0", "assert"), ("rdw 0,1 0 0", "assert"),
             ("ru -1 0 0", "bad-op"), ("hat ns 1/2,0 1/2", "bad-op"), ("hat ns 1/2,0,1 1/2,1/2", "assert"), ("hat ns 1/2,1/2,1 1/2", "degenerate"),
             ("bdw small 0,1/2,1 1/2,1/2 -", "assert"), ("bdw medium 0,1/2,1 1/2 -", "bad-op"), ("bu small 2 1/2 1,1", "bad-op"),
             ("normu 2 1,2", "bad-op"), ("normw 0 0,1/2,1 1,2", "assert"), ("hatu full 2 1,1 1/2", "assert"), ("quit", "bad-op")]


def run(ctx):
    thorough = ctx.tier == "thorough"
    ctx.rule = ("cases: uniform component grids (dim 1-3, levels <= 4, 1-D up to 8; 12-20% with >= 200 points for the large-grid code paths) and "
                "non-uniform dimension-wise grids (random refinement-tree stripes per dimension); dyadic data in the closed unit cube with "
                "30% of the coordinates on grid lines, 10% on the domain boundary, 10% on cell midpoints; lambda in {0, 2^-10 .. 1, 3/8}; mass lumping "
                "30%; class labels 40%; numeric entries on tiny non-uniform grids; plus StandardCombi runs (combined interpolant). "
                "A case is distinct by its full description; non-trivial if the grid has >= 2 points or the data >= 2 samples")
    drv = ctx.driver("drv_c16")
    t_run = time.time()
    for line, want in MALFORMED:
        got = drv.ask(line) if line else drv.ask(" ")
        ctx.count("malformed_lines")
        if got != want:
            ctx.corr_break("C16/malformed-line", {"line": line}, {"model": got, "expected": want})
    budget = 70 if not thorough else 560
    n = 220 if not thorough else 3000
    k = 0
    while k < n and time.time() - t_run < budget:      # the budget counts from here, not from the Lean build
        k += 1
        if k == 1 or k % 30 == 16:
            # the very first case of every run: one uniform operation, several large component grids in sequence
            case = gen_useq(ctx)
            ok = run_useq(ctx, drv, case)
        elif k % 7 == 0:
            case = combi_case(ctx, drv, thorough)
            ok = run_combi(ctx, drv, case)
        else:
            case = gen_case(ctx, thorough, force="uniform-big-classes" if k % 20 == 3 else ("numeric-2d" if k % 25 == 8 else ("extreme" if k % 11 == 5 else
                                    ("sibling" if k % 13 == 6 else ("outside" if k % 17 == 4 else ("history" if k % 9 == 2 else None))))))
            if case.get("extreme"):
                ctx.count("extreme_scale_cases")
            if case.get("affine"):
                ctx.count("data_outside_cube_cases")
            if case.get("pre_scaled"):
                ctx.count("pre_scaled_data_cases")
            ok = run_case(ctx, drv, case)
            if case["kind"] == "uniform" and case["big"] and case["classes"] is not None:
                ctx.count("uniform_ge_200_with_classes")
            ctx.count("kind_%s" % case["kind"])
            ctx.count("dim_%d" % case["dim"])
            ctx.count("lumped" if case["lumped"] else "not_lumped")
            ctx.count("with_classes" if case["classes"] is not None else "no_classes")
            ctx.count("lambda_zero" if case["lam"] == "0" else "lambda_positive")
            if case["big"]:
                ctx.count("grid_ge_200_points")
        nontrivial = len(case["data"]) >= 2 or case["kind"] == "combi"
        ctx.case(case, nontrivial=nontrivial, sample=case if k <= 2 else None)
        if not ok and (len(ctx.violations) >= ctx.max_reports or len(ctx.corr_breaks) >= 40):
            break


def replay(ctx, rp):
    case = rp["case"]
    drv = ctx.driver("drv_c16")
    base = {k: v for k, v in case.items() if k not in ("hat", "x", "ivec", "point", "lv_component", "warm", "stripes3", "second_run")}
    if case.get("kind") == "useq":
        ok = run_useq(ctx, drv, {k: v for k, v in base.items() if k != "step"})
    elif case.get("kind") == "combi":
        ok = run_combi(ctx, drv, base)
    else:
        ok = run_case(ctx, drv, base)
    print("replay: %s" % ("property holds and model agrees on this case" if ok and not ctx.known_hits else
                          ("only known findings reproduced" if ok else "REPRODUCED")))
    for fid, (f, n) in ctx.known_hits.items():
        print("  known finding:", fid, n)
    for v in ctx.violations[:3]:
        print("  violation:", v["probe"], v["tags"], str(v["detail"])[:600])
    for c in ctx.corr_breaks[:3]:
        print("  disagreement:", c["observable"], str(c["detail"])[:600])
    for d in ctx._drivers:
        d.close()
    return 0 if ok else 1
