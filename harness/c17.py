"""C17 -- density-estimation caching and size-dependent code paths are transparent.

Oracle: the same computation with `reuse_old_values` on and off -- complete dimension-wise refinement histories
(SpatiallyAdaptiveSingleDimensions2), two-step refinements of grids with >= 200 points (the right-hand-side reuse branch),
uniform schemes (StandardCombi) -- must give the same surpluses after every evaluation, the same scheme and the same
interpolated densities (1e-10); the small-grid and large-grid implementations of interpolation are run on the SAME grid
(a grid subclass reporting a large point count selects the large-grid branch) and compared with each other and with the
exact interpolant; both right-hand-side implementations are compared with the exact sample means.
Correspondence: every `build_R_matrix_dimension_wise` / `calculate_B_dimension_wise` call of every run is intercepted
(subclass, return values only) and replayed on Model/DensityCache through `drv_c17` (old_R, old_B/new_B hand-over, data
bins, threshold 200, copy rule, `b[i] == 0` recomputation rule)."""
import itertools
import math
import time
import traceback
from fractions import Fraction as F

import numpy as np

from common import frac_str
import c16
from c16 import fv, fvs, fints, parse_vec, parse_mat, near, vec_near, quiet, node_level, b_ref, hats_of, hat_nd_ref, to_fr

TOL = 1e-10


def alpha_near(a, b):
    """surpluses / densities of two runs that differ only by rounding: cached matrix entries were computed at another
    position (relative differences ~1e-9 by cancellation in the antiderivatives), amplified by the condition of the system
    and by the normalisation; 1e-5 of the scale is allowed"""
    a = np.asarray(a, dtype=float).ravel()
    b = np.asarray(b, dtype=float).ravel()
    if a.shape != b.shape:
        return False
    scale = max(1.0, float(np.max(np.abs(b))) if b.size else 1.0)
    return bool(np.all(np.abs(a - b) <= 1e-5 * scale))


FINE = 2.0 ** -8


def hmin(stripes):
    """smallest node distance of a grid; below 2^-8 the code's antiderivative expressions lose more than half of the digits
    by cancellation (relative error ~ eps * x^3 / h^3) and runs that differ only in WHERE an entry was computed are no longer
    comparable at a fixed tolerance -- such evaluations are counted (`ambiguous_float_fine_grid`) and not compared"""
    return min(float(s[i + 1]) - float(s[i]) for s in stripes for i in range(len(s) - 1))


def rec_op_class():
    from sparseSpACE.GridOperation import DensityEstimation

    class RecOp(DensityEstimation):
        """records what the algorithm itself computes (no additional calls into the operation)"""

        def __init__(self, *a, **k):
            super().__init__(*a, **k)
            self.rec = []

        def build_R_matrix_dimension_wise(self, stripes, levels):
            R = super().build_R_matrix_dimension_wise(stripes, levels)
            self.rec.append(("R", [[float(c) for c in s] for s in stripes], [[int(v) for v in l] for l in levels], np.array(R)))
            return R

        def calculate_B_dimension_wise(self, data, stripes, levels):
            b = super().calculate_B_dimension_wise(data, stripes, levels)
            self.rec.append(("B", np.array(b)))
            self._last_b = b          # the very array handed to the caller (see `scribble`)
            return b

        def post_processing(self):
            self.rec.append(("post", {tuple(int(v) for v in k): np.array(v) for k, v in self.surpluses.items()}))
            return super().post_processing()

    return RecOp


def big_grid_class():
    from sparseSpACE.Grid import GlobalTrapezoidalGrid

    class BigCountGrid(GlobalTrapezoidalGrid):
        """reports a point count above the threshold: selects the large-grid interpolation branch on any grid"""

        def get_num_points(self):
            return 10 ** 6

    return BigCountGrid


def scribble(op, fstripes):
    """the caller overwrites, after the evaluation has returned, the right-hand-side array it was given and the stripe lists it
    passed in: nothing the operation keeps for later steps (new_B, new_grid_coord, old_*) may alias them"""
    if getattr(op, "_last_b", None) is not None:
        op._last_b[...] = 7.0
    for t in fstripes:
        t[:] = [1.0 - c for c in reversed(t)]          # the mirrored grid: still a valid stripe, but another grid


def np_data(data):
    return np.array([[float(c) for c in x] for x in data])


def new_dimwise_op(case, reuse, grid=None, cls=None):
    from sparseSpACE.Grid import GlobalTrapezoidalGrid
    dim = case["dim"]
    g = grid if grid is not None else GlobalTrapezoidalGrid(a=np.zeros(dim), b=np.ones(dim), boundary=False, modified_basis=False)
    Op = cls or rec_op_class()
    classes = case["classes"]
    op = Op(np_data([[F(c) for c in x] for x in case["data"]]), dim, grid=g, lambd=float(F(case["lam"])),
            classes=None if classes is None else np.array([float(c) for c in classes]), reuse_old_values=reuse,
            masslumping=bool(case.get("lumped")), **quiet())
    return op, g


# ------------------------------------------------------------------ model replay of a recorded run
def checksum_strings(R):
    n = len(R)
    c = [F((7919 * j) % 13 + 1, 16) for j in range(n)]
    Rf = np.asarray(R, dtype=float)
    return Rf.sum(axis=1), np.diag(Rf), Rf @ np.array([float(v) for v in c])


def replay_on_model(ck, drv, case, op, reuse, label):
    """feed the recorded evaluations of one run to the model and compare R and b of every evaluation"""
    ctx = ck.ctx
    data = [[F(c) for c in x] for x in case["data"]]
    classes = case["classes"]
    sg = fv([F(c) for c in classes]) if classes is not None else "-"
    sidx = ";".join(",".join(str(int(i)) for i in s) for s in op.sorted_data)
    # the argsort the implementation produced must be a valid ascending order
    for d, s in enumerate(op.sorted_data):
        cs = [data[int(i)][d] for i in s]
        if sorted(int(i) for i in s) != list(range(len(data))) or any(cs[i] > cs[i + 1] for i in range(len(cs) - 1)):
            ck.corr("sorted_data", case, str(list(s))[:200], "not an ascending argsort")
    r = drv.ask("init %d %s %s %s %s" % (1 if reuse else 0, case["lam"], fvs(data), sg, sidx))
    if r != "ok":
        ck.corr("init", case, "ok", r)
        return
    lumped = bool(case.get("lumped"))
    pending = None
    nev = 0
    for ev in op.rec:
        if ev[0] == "R":
            pending = ev
        elif ev[0] == "B":
            _, stripes, levels, R = pending
            b = ev[1]
            st = [[F(c) for c in s] for s in stripes]
            ml = [max(l) for l in levels]
            out = drv.ask("grid %s %s" % (fvs(st), fints(ml)))
            nev += 1
            if " B " not in out:
                ck.corr(label + "/grid", dict(case, step=nev), "R.. B..", out[:200])
                return
            rpart, bpart = out.split(" B ")
            mb = parse_vec(bpart)
            if not vec_near(b, mb, TOL):
                k = next((i for i in range(min(len(b), len(mb))) if not near(b[i], mb[i], TOL)), -1)
                ck.corr(label + "/calculate_B_dimension_wise", dict(case, step=nev, stripes=[[frac_str(c) for c in s] for s in st]),
                        {"entry": k, "impl": float(b[k]) if k >= 0 else len(b)}, {"model": str(mb[k]) if k >= 0 else len(mb)})
            if not lumped and hmin(stripes) < FINE:
                ctx.count("ambiguous_float_fine_grid")
            elif not lumped:
                if rpart.startswith("R "):
                    Rm = parse_mat(rpart[2:])
                    n = len(Rm)
                    okR = np.shape(R) == (n, n) and all(c16.near_entry(R[i][j], Rm[i][j]) for i in range(n) for j in range(n))
                else:
                    parts = rpart.split(" ")
                    rs, rd, rw = parse_vec(parts[1]), parse_vec(parts[3]), parse_vec(parts[5])
                    irs, ird, irw = checksum_strings(R)
                    okR = all(c16.near_entry(a, b) for v, w in ((irs, rs), (ird, rd), (irw, rw)) for a, b in zip(v, w)) and len(irs) == len(rs)
                if not okR:
                    ck.corr(label + "/build_R_matrix_dimension_wise", dict(case, step=nev, stripes=[[frac_str(c) for c in s] for s in st]),
                            "matrix differs", rpart[:200])
            ctx.count("model_grid_evaluations")
            if len(b) >= 200:
                ctx.count("model_grid_evaluations_ge_200")
        elif ev[0] == "post":
            if drv.ask("post") != "ok":
                ck.corr(label + "/post", case, "ok", "?")
    if reuse:
        ctx.count("model_old_R_entries", int(drv.ask("rcache")))
        try:
            n_impl = len(op.old_R)
            if not lumped and n_impl != int(drv.ask("rcache")):
                ck.corr(label + "/len(old_R)", case, n_impl, drv.ask("rcache"))
        except Exception:
            pass


def explain_b_difference(ck, drv, case, op_on, stripes, b_on, b_ref_vals):
    """classifies a deviating right-hand-side entry of the reuse run: does the implementation's entry equal the model's
    `bRecompute` while that differs from the sample mean?  (This was the signature of the `find_data_in_domain` slice defect
    fixed by c6031a7; since the fix the model's recomputation is proved to BE the sample mean, so this can only fire on a
    regression of both.)"""
    hats = hats_of(stripes)
    bad = [i for i in range(len(hats)) if not near(b_on[i], b_ref_vals[i], TOL)]
    if not bad:
        return None
    for i in bad[:5]:
        hs = ";".join(fv(c) for c in hats[i])
        out = drv.ask("recompute %s" % hs)
        if " | " not in out:
            return "other"
        rec, spec = [F(t) for t in out.split(" | ")]
        if not (near(b_on[i], rec, TOL) and rec != spec):
            return "other"
    return "find_data_in_domain-drops-largest-sample"


# ------------------------------------------------------------------ part A: complete dimension-wise histories
def gen_history(ctx, thorough):
    r = ctx.rng
    dim = 2 if not thorough else r.choice([2, 2, 2, 3])
    M = r.choice([30, 40, 50, 60]) if not thorough else r.choice([40, 80, 150])
    res = r.choice([32, 64])
    data = []
    for _ in range(M):
        x = []
        for d in range(dim):
            u = r.random()
            if u < 0.08:
                x.append(r.choice([F(0), F(1)]))
            elif u < 0.25:
                x.append(F(r.randint(0, 8), 8))
            else:
                # clustered data make the refinement non-uniform
                c = r.choice([F(1, 4), F(3, 4), F(1, 2)])
                v = c + F(r.randint(-res // 4, res // 4), res)
                x.append(min(max(v, F(0)), F(1)))
        data.append(x)
    classes = [r.choice([-1, 1]) for _ in range(M)] if r.random() < 0.45 else None
    big = thorough and r.random() < 0.25
    lmin = r.choice([1, 1, 2])
    lmax = lmin + (1 if dim == 3 else r.choice([1, 1, 2]))
    if big:
        dim, lmin, lmax = 2, 2, 4
        data = [x[:2] for x in data]
    return {"kind": "history", "dim": dim, "lmin": lmin, "lmax": lmax,
            "max_evaluations": (r.choice([40, 80, 120]) if not thorough else r.choice([80, 150, 250])) if not big else 600,
            "margin": r.choice(["1/2", "1/2", "3/4", "1/4"]), "rebalancing": r.random() < 0.6,
            "lam": frac_str(r.choice(c16.LAMS)), "lumped": (r.random() < 0.15), "classes": classes,
            "data": [[frac_str(c) for c in x] for x in data],
            "points": [[frac_str(F(r.randint(0, 64), 64)) for _ in range(dim)] for _ in range(12)]}


def run_history_once(case, reuse):
    from sparseSpACE.spatiallyAdaptiveSingleDimension2 import SpatiallyAdaptiveSingleDimensions2
    from sparseSpACE.ErrorCalculator import ErrorCalculatorSingleDimVolumeGuided, ErrorCalculatorSingleDimMisclassificationGlobal
    dim = case["dim"]
    a, b = np.zeros(dim), np.ones(dim)
    op, g = new_dimwise_op(case, reuse)
    ec = ErrorCalculatorSingleDimVolumeGuided() if case["classes"] is None else ErrorCalculatorSingleDimMisclassificationGlobal()
    S = SpatiallyAdaptiveSingleDimensions2(a, b, operation=op, margin=float(F(case["margin"])), rebalancing=case["rebalancing"],
                                           rebalancing_safety_factor=0.2, **quiet())
    import contextlib, io
    with contextlib.redirect_stdout(io.StringIO()):
        S.performSpatiallyAdaptiv(case["lmin"], case["lmax"], ec, 0.0, max_evaluations=case["max_evaluations"], do_plot=False)
        vals = S([tuple(float(F(c)) for c in x) for x in case["points"]])
    scheme = sorted((tuple(int(v) for v in cg.levelvector), int(cg.coefficient)) for cg in S.scheme)
    return op, S, scheme, np.array(vals)


def run_history(ctx, drv, case):
    ck = c16.Checker(ctx, drv)
    try:
        on = run_history_once(case, True)
        off = run_history_once(case, False)
        tags = {"kind": "history", "dim": case["dim"], "classes": case["classes"] is not None, "lumped": bool(case.get("lumped"))}
        posts_on = [e[1] for e in on[0].rec if e[0] == "post"]
        posts_off = [e[1] for e in off[0].rec if e[0] == "post"]
        maxN = 0
        diverged = False
        k = 0
        # index of the first evaluation on a grid finer than FINE, per refinement step
        step_fine = []
        fine = False
        for e in on[0].rec:
            if e[0] == "R" and hmin(e[1]) < FINE:
                fine = True
            if e[0] == "post":
                step_fine.append(fine)
        for k, (so, sf) in enumerate(zip(posts_on, posts_off)):
            if k < len(step_fine) and step_fine[k]:
                diverged = True
                ctx.count("ambiguous_float_fine_grid_history_cut")
                break
            if so.keys() != sf.keys() or any(len(so[key]) != len(sf[key]) for key in so):
                # the refinement went different ways although every earlier evaluation agreed: a float near-tie
                diverged = True
                ctx.count("ambiguous_float_history_diverged")
                break
            maxN = max([maxN] + [len(v) for v in so.values()])
            bad = [key for key in so if not alpha_near(so[key], sf[key])]
            if bad:
                key = bad[0]
                cause = "unexplained"
                # locate the evaluation and explain it through the model of the reuse branch
                evs = [e for e in on[0].rec if e[0] in ("R", "B")]
                replay_on_model(ck, drv, case, on[0], True, "reuse-on")
                for i in range(0, len(evs) - 1, 2):
                    st = [[F(c) for c in s] for s in evs[i][1]]
                    bo = evs[i + 1][1]
                    if len(bo) >= 200:
                        signs = [F(c) for c in case["classes"]] if case["classes"] is not None else [F(1)] * len(case["data"])
                        br = b_ref(st, [[F(c) for c in x] for x in case["data"]], signs)
                        c = explain_b_difference(ck, drv, case, on[0], st, bo, br)
                        if c is not None:
                            cause = c
                            break
                ck.viol("reuse-changes-surpluses", dict(tags, cause=cause, grid_ge_200=bool(len(so[key]) >= 200 or maxN >= 200)), case,
                        {"step": k, "levelvector": list(key), "max_abs_diff": float(np.max(np.abs(so[key] - sf[key]))), "points_in_grid": len(so[key])})
                diverged = True
                break
        # every single evaluation of the steps compared so far: right-hand sides identical, matrices equal up to the
        # rounding of the entries
        steps_ok = k if diverged else min(len(posts_on), len(posts_off))
        if not ck.ok:
            steps_ok += 1      # include the evaluations of the step whose surpluses differ: name the matrix / rhs that differs
        def evals_until(rec, nsteps):
            out, seen = [], 0
            for e in rec:
                if e[0] == "post":
                    seen += 1
                    if seen >= nsteps:
                        break
                else:
                    out.append(e)
            return out if nsteps > 0 else []
        if True:
            for e1, e2 in zip(evals_until(on[0].rec, steps_ok), evals_until(off[0].rec, steps_ok)):
                if e1[0] != e2[0]:
                    break
                if e1[0] == "R" and hmin(e1[1]) < FINE:
                    continue
                if e1[0] == "B" and not vec_near(e1[1], e2[1], 1e-12):
                    ck.viol("reuse-changes-rhs", dict(tags, cause="unexplained", grid_ge_200=len(e1[1]) >= 200), case,
                            {"max_abs_diff_rhs": float(np.max(np.abs(e1[1] - e2[1])))})
                    break
                if e1[0] == "R" and (np.shape(e1[3]) != np.shape(e2[3]) or
                                     not all(c16.near_entry(x, y) for x, y in zip(np.ravel(e1[3]), np.ravel(e2[3])))):
                    ck.viol("reuse-changes-matrix", tags, case, {"stripes": str(e1[1])[:300]})
                    break
            ctx.count("history_steps_compared", steps_ok)
        if not diverged:
            if len(posts_on) != len(posts_off):
                ck.viol("reuse-changes-history-length", tags, case, {"on": len(posts_on), "off": len(posts_off)})
            if on[2] != off[2]:
                ck.viol("reuse-changes-scheme", tags, case, {"on": str(on[2])[:300], "off": str(off[2])[:300]})
            elif not alpha_near(on[3][:, 0], off[3][:, 0]):
                ck.viol("reuse-changes-interpolated-density", tags, case,
                        {"max_abs_diff": float(np.max(np.abs(on[3] - off[3])))})
        # correspondence: both runs on the model
        if ck.ok:
            replay_on_model(ck, drv, case, on[0], True, "reuse-on")
            replay_on_model(ck, drv, case, off[0], False, "reuse-off")
        ctx.count("history_steps", len(posts_on))
        ctx.count("history_max_grid_%s" % ("ge_200" if maxN >= 200 else "lt_200"))
        ctx.count("history_old_R_hits_possible" if len(on[0].old_R) > 0 else "history_no_old_R")
    except Exception:
        ck.ok = False
        ctx.violation("exception", {"kind": "history"}, case, {"traceback": traceback.format_exc()[-1500:]})
    return ck.ok


# ------------------------------------------------------------------ part B: two refinement steps on grids with >= 200 points
def gen_twostep(ctx, thorough):
    r = ctx.rng
    dim = 2
    s1 = [c16.gen_stripe(r, 19, 6, lo=17), c16.gen_stripe(r, 19, 6, lo=17)]
    if r.random() < 0.3:
        s1 = [[F(i, 16) for i in range(17)], [F(i, 16) for i in range(17)]]
    M = r.choice([20, 30, 40])
    data = c16.gen_data(r, dim, s1, M, res=128)
    if r.random() < 0.7:
        # no sample on the upper domain boundary: the samples with the largest coordinates lie inside hat supports
        data = [[c if c != 1 else F(r.randint(64, 127), 128) for c in x] for x in data]
    s2 = [list(s) for s in s1]
    for _ in range(r.randint(1, 3)):
        d = r.randrange(dim)
        k = r.randrange(len(s2[d]) - 1)
        if r.random() < 0.6:
            # refine next to a sample that is extreme in some dimension
            e = r.randrange(dim)
            x = max(data, key=lambda v: v[e]) if r.random() < 0.8 else min(data, key=lambda v: v[e])
            k = max(0, min(len(s2[d]) - 2, max(i for i in range(len(s2[d])) if s2[d][i] <= x[d])))
        m = (s2[d][k] + s2[d][k + 1]) / 2
        if m.denominator <= 256:
            s2[d].insert(k + 1, m)
    replaced = 0
    ctx._twostep_n = getattr(ctx, "_twostep_n", 0) + 1
    if ctx._twostep_n % 2 == 1 or r.random() < 0.3:          # the first two-step case of every run has a replaced node
        # what a rebalancing rotation does: between the SAME two neighbours a node c is replaced by another node c' (1-2 times),
        # next to a sample so that the hat at c' really has another right-hand side than the hat at c had
        for _ in range(r.randint(1, 2)):
            d = r.randrange(dim)
            x = r.choice(data)
            inner = list(range(1, len(s2[d]) - 1))
            k = min(inner, key=lambda i: abs(s2[d][i] - x[d]))
            lo, c, hi = s2[d][k - 1], s2[d][k], s2[d][k + 1]
            c2 = r.choice([(lo + c) / 2, (c + hi) / 2, lo + (hi - lo) * F(r.choice([1, 3, 5, 7]), 8)])
            if c2 != c and lo < c2 < hi and c2.denominator <= 1024:
                s2[d][k] = c2
                replaced += 1
    classes = [r.choice([-1, 1]) for _ in range(M)] if r.random() < 0.4 else None
    return {"kind": "twostep", "dim": dim, "lam": frac_str(r.choice(c16.LAMS + [F(10) ** 8])), "classes": classes, "lumped": r.random() < 0.5,
            "replaced_nodes": replaced,
            "stripes1": [[frac_str(c) for c in s] for s in s1], "stripes2": [[frac_str(c) for c in s] for s in s2],
            "data": [[frac_str(c) for c in x] for x in data]}


def run_twostep_once(case, reuse):
    from sparseSpACE.ComponentGridInfo import ComponentGridInfo
    op, g = new_dimwise_op(case, reuse)
    cont = c16._Container()
    dim = case["dim"]
    op.init_dimension_wise(g, g, cont, 1, [4] * dim, np.zeros(dim), np.ones(dim))
    out = []
    for key in ("stripes1", "stripes2"):
        st = [[F(c) for c in s] for s in case[key]]
        levels = [[node_level(c) for c in s] for s in st]
        op.initialize_evaluation_dimension_wise(cont)
        lvec = tuple(max(l) for l in levels)
        fst = c16.fl(st)
        op.calculate_operation_dimension_wise(fst, levels, ComponentGridInfo(lvec, 1))
        out.append(np.array(op.surpluses[lvec]))
        scribble(op, fst)
        op.post_processing()
    return op, out


def run_twostep(ctx, drv, case):
    ck = c16.Checker(ctx, drv)
    try:
        on, s_on = run_twostep_once(case, True)
        off, s_off = run_twostep_once(case, False)
        tags = {"kind": "twostep", "dim": case["dim"], "classes": case["classes"] is not None, "lumped": bool(case.get("lumped"))}
        data = [[F(c) for c in x] for x in case["data"]]
        signs = [F(c) for c in case["classes"]] if case["classes"] is not None else [F(1)] * len(data)
        # correspondence first (the model mirrors the reuse branch as it is)
        replay_on_model(ck, drv, case, on, True, "reuse-on")
        b_on = [e[1] for e in on.rec if e[0] == "B"]
        b_off = [e[1] for e in off.rec if e[0] == "B"]
        for step, key in enumerate(("stripes1", "stripes2")):
            st = [[F(c) for c in s] for s in case[key]]
            br = b_ref(st, data, signs)
            if not vec_near(b_off[step], br, TOL):
                ck.viol("rhs-large-grid-is-sample-mean", dict(tags, reuse=False), dict(case, step=step), {})
            if not vec_near(b_on[step], b_off[step], 1e-12) or not alpha_near(s_on[step], s_off[step]):
                cause = explain_b_difference(ck, drv, case, on, st, b_on[step], br) or "unexplained"
                nbad = sum(1 for i in range(len(br)) if not near(b_on[step][i], br[i], TOL))
                ck.viol("reuse-changes-rhs", dict(tags, cause=cause, grid_ge_200=len(br) >= 200), dict(case, step=step),
                        {"entries_differing": nbad, "max_abs_diff_rhs": float(np.max(np.abs(b_on[step] - b_off[step]))),
                         "max_abs_diff_surpluses": float(np.max(np.abs(s_on[step] - s_off[step])))})
            ctx.count("twostep_grid_%s" % ("ge_200" if len(br) >= 200 else "lt_200"))
        if case.get("replaced_nodes"):
            ctx.count("twostep_with_replaced_nodes")
        replay_on_model(ck, drv, case, off, False, "reuse-off")
    except Exception:
        ck.ok = False
        ctx.violation("exception", {"kind": "twostep"}, case, {"traceback": traceback.format_exc()[-1500:]})
    return ck.ok


# ------------------------------------------------------------------ part B2: several large component grids within ONE refinement step
def gen_samestep(ctx, thorough):
    """two refinement steps; in each the SAME operation evaluates 2-3 different component grids with 200-320 points that share grid
    points but give them different neighbours (e.g. level (3,5)-like followed by (4,4)- and (5,3)-like) before `post_processing`"""
    r = ctx.rng
    dim = 2

    def grid(lx, ly):
        st = [[F(i, 2 ** lx) for i in range(2 ** lx + 1)], [F(i, 2 ** ly) for i in range(2 ** ly + 1)]]
        for _ in range(r.randint(0, 2)):          # a few extra nodes: non-uniform, still < 330 points
            d = r.randrange(dim)
            k = r.randrange(len(st[d]) - 1)
            st[d].insert(k + 1, (st[d][k] + st[d][k + 1]) / 2)
        return st
    shapes = r.sample([(3, 5), (4, 4), (5, 3)], r.choice([2, 2, 3]))
    step1 = [grid(*sh) for sh in shapes]
    step2 = []
    for st in step1:
        st2 = [list(t) for t in st]
        d = r.randrange(dim)
        k = r.randrange(len(st2[d]) - 1)
        st2[d].insert(k + 1, (st2[d][k] + st2[d][k + 1]) / 2)
        step2.append(st2)
    M = r.choice([20, 30])
    data = c16.gen_data(r, dim, step2[0], M, res=128)
    if r.random() < 0.6:
        data = [[c if c != 1 else F(r.randint(64, 127), 128) for c in x] for x in data]
    enc = lambda grids: [[[frac_str(c) for c in t] for t in st] for st in grids]
    # the first grid of every step is evaluated a second time at the end of the step (repeated query on the same object)
    step1, step2 = step1 + [step1[0]], step2 + [step2[0]]
    # a sibling operation with its own data works on the same grids, interleaved
    M2 = r.choice([10, 20])
    data2 = c16.gen_data(r, dim, step2[0], M2, res=64)
    data2 = [[c if c != 1 else F(r.randint(32, 63), 64) for c in x] for x in data2]
    return {"kind": "samestep", "dim": dim, "lam": frac_str(r.choice(c16.LAMS)), "lumped": True,
            "classes": [r.choice([-1, 1]) for _ in range(M)] if r.random() < 0.4 else None,
            "steps": [enc(step1), enc(step2)], "data": [[frac_str(c) for c in x] for x in data],
            "sibling": {"data": [[frac_str(c) for c in x] for x in data2], "lam": frac_str(r.choice(c16.LAMS)),
                        "classes": [r.choice([-1, 1]) for _ in range(M2)] if r.random() < 0.4 else None}}


def run_samestep_once(case, reuse):
    """returns the operation and its sibling (None for old replay files without one)"""
    from sparseSpACE.ComponentGridInfo import ComponentGridInfo
    dim = case["dim"]
    ops = []
    for c in [case] + ([dict(case, **case["sibling"])] if case.get("sibling") else []):
        op, g = new_dimwise_op(c, reuse)
        cont = c16._Container()
        op.init_dimension_wise(g, g, cont, 1, [5] * dim, np.zeros(dim), np.ones(dim))
        ops.append((op, cont))
    for step in case["steps"]:
        for op, cont in ops:
            op.initialize_evaluation_dimension_wise(cont)
        for n, grid in enumerate(step):
            st = [[F(c) for c in t] for t in grid]
            levels = [[node_level(c) for c in t] for t in st]
            lvec = tuple(len(t) for t in st) + (n,)          # a distinct key per component grid of the step
            for op, cont in ops:                              # interleaved: the sibling works on the same grid right after
                fst = c16.fl(st)
                op.calculate_operation_dimension_wise(fst, levels, ComponentGridInfo(lvec, 1))
                scribble(op, fst)
        for op, cont in ops:
            op.post_processing()
    return ops[0][0], (ops[1][0] if len(ops) > 1 else None)


def run_samestep(ctx, drv, case):
    ck = c16.Checker(ctx, drv)
    try:
        data = [[F(c) for c in x] for x in case["data"]]
        signs = [F(c) for c in case["classes"]] if case["classes"] is not None else [F(1)] * len(data)
        tags = {"kind": "samestep", "dim": case["dim"], "classes": case["classes"] is not None}
        grids = [[[F(c) for c in t] for t in st] for step in case["steps"] for st in step]
        brefs = [b_ref(st, data, signs) for st in grids]
        ops = {}
        sib = case.get("sibling")
        if sib:
            data2 = [[F(c) for c in x] for x in sib["data"]]
            signs2 = [F(c) for c in sib["classes"]] if sib["classes"] is not None else [F(1)] * len(data2)
            brefs2 = [b_ref(st, data2, signs2) for st in grids]
        nfirst = len(case["steps"][0])
        for reuse in (False, True):
            op, op2 = run_samestep_once(case, reuse)
            ops[reuse] = op
            for who, o, refs in (("operation", op, brefs),) + ((("sibling", op2, brefs2),) if op2 is not None else ()):
                bs = [e[1] for e in o.rec if e[0] == "B"]
                for n, (b, br) in enumerate(zip(bs, refs)):
                    if not vec_near(b, br, 1e-12):
                        k = next(i for i in range(len(br)) if not near(b[i], br[i], 1e-12))
                        ck.viol("rhs-large-grid-is-sample-mean",
                                dict(tags, reuse=reuse, who=who, grid_in_history=n, first_of_step=n in (0, nfirst),
                                     repeated_grid=n in (nfirst - 1, len(refs) - 1)),
                                dict(case, step=n), {"entry": k, "impl": float(b[k]), "sample_mean": str(br[k]), "points": len(br)})
                        break
                    ctx.count("samestep_grids_%s" % ("ge_200" if len(br) >= 200 else "lt_200"))
            replay_on_model(ck, drv, case, op, reuse, "reuse-%s" % ("on" if reuse else "off"))
            if op2 is not None and reuse:
                replay_on_model(ck, drv, dict(case, **sib), op2, reuse, "sibling reuse-on")
        b_on = [e[1] for e in ops[True].rec if e[0] == "B"]
        b_off = [e[1] for e in ops[False].rec if e[0] == "B"]
        for n, (x, y) in enumerate(zip(b_on, b_off)):
            if not vec_near(x, y, 1e-12):
                ck.viol("reuse-changes-rhs", dict(tags, cause="unexplained", grid_ge_200=len(x) >= 200), dict(case, step=n),
                        {"max_abs_diff_rhs": float(np.max(np.abs(x - y)))})
                break
        for key in ops[True].surpluses:
            if not alpha_near(ops[True].surpluses[key], ops[False].surpluses[key]):
                ck.viol("reuse-changes-surpluses", dict(tags, cause="unexplained", grid_ge_200=True), case, {"grid": list(key)})
                break
    except Exception:
        ck.ok = False
        ctx.violation("exception", {"kind": "samestep"}, case, {"traceback": traceback.format_exc()[-1500:]})
    return ck.ok


# ------------------------------------------------------------------ part C: uniform schemes, reuse on / off
def gen_uniform(ctx, thorough):
    r = ctx.rng
    dim = r.choice([1, 2, 2, 3])
    lmax = r.choice([2, 3, 4]) if dim < 3 else r.choice([2, 3])
    if thorough and dim == 2 and r.random() < 0.2:
        lmax = 8     # component grids with more than 200 points
    M = r.choice([8, 16, 30])
    data = c16.gen_data(r, dim, c16.uniform_stripes([lmax] * dim), M)
    return {"kind": "uniform", "dim": dim, "lmin": 1, "lmax": lmax, "lam": frac_str(r.choice(c16.LAMS)), "lumped": r.random() < 0.2,
            "classes": [r.choice([-1, 1]) for _ in range(M)] if r.random() < 0.5 else None,
            "data": [[frac_str(c) for c in x] for x in data],
            "points": [[frac_str(F(r.randint(0, 64), 64)) for _ in range(dim)] for _ in range(10)]}


def run_uniform(ctx, drv, case):
    from sparseSpACE.StandardCombi import StandardCombi
    ck = c16.Checker(ctx, drv)
    try:
        res = []
        dim = case["dim"]
        data = [[F(c) for c in x] for x in case["data"]]
        for reuse in (True, False):
            op = c16.mk_uniform(data, dim, F(case["lam"]), case["lumped"], case["classes"], reuse_old_values=reuse)
            combi = StandardCombi(np.zeros(dim), np.ones(dim), operation=op, **quiet())
            combi.perform_operation(case["lmin"], case["lmax"])
            vals = combi([tuple(float(F(c)) for c in x) for x in case["points"]])
            res.append(({tuple(int(v) for v in k): np.array(v) for k, v in op.surpluses.items()},
                        sorted((tuple(int(v) for v in cg.levelvector), int(cg.coefficient)) for cg in combi.scheme), np.array(vals)))
        tags = {"kind": "uniform", "dim": dim, "classes": case["classes"] is not None, "lumped": case["lumped"]}
        if res[0][1] != res[1][1] or res[0][0].keys() != res[1][0].keys():
            ck.viol("reuse-changes-scheme", tags, case, {})
        else:
            for k in res[0][0]:
                if not alpha_near(res[0][0][k], res[1][0][k]):
                    ck.viol("reuse-changes-surpluses", dict(tags, cause="unexplained", grid_ge_200=len(res[0][0][k]) >= 200), case, {"levelvector": list(k)})
                    break
            if not alpha_near(res[0][2][:, 0], res[1][2][:, 0]):
                ck.viol("reuse-changes-interpolated-density", tags, case, {})
        ctx.count("uniform_schemes")
        if any(len(v) >= 200 for v in res[0][0].values()):
            ctx.count("uniform_scheme_with_grid_ge_200")
    except Exception:
        ck.ok = False
        ctx.violation("exception", {"kind": "uniform"}, case, {"traceback": traceback.format_exc()[-1500:]})
    return ck.ok


# ------------------------------------------------------------------ part C2: uniform right-hand side, both sides of the threshold
def gen_urhs(ctx, thorough):
    r = ctx.rng
    big = r.random() < 0.6
    if big:
        lv = r.choice([[8], [4, 4], [4, 4], [5, 3], [3, 5], [3, 3, 3], [2, 3, 4]])
    else:
        lv = r.choice([[3], [2, 2], [3, 2], [4, 3], [2, 2, 2], [1, 2, 3], [7]])
    dim = len(lv)
    M = r.choice([8, 13, 16, 32])
    data = c16.gen_data(r, dim, c16.uniform_stripes(lv), M, res=r.choice([16, 64, 128]))
    # the SAME operation then works on further component grids (same dimension; other large level vectors, a small one, the
    # first one again): node numberings differ from grid to grid
    pool = {1: [[8], [7], [3]], 2: [[4, 4], [3, 5], [5, 3], [2, 2], [3, 2]], 3: [[3, 3, 3], [2, 3, 4], [4, 3, 2], [2, 2, 2]]}[dim]
    more = [l for l in r.sample(pool, min(len(pool), 3)) if l != lv][:2] + [lv]
    return {"kind": "urhs", "dim": dim, "lv": lv, "more": more, "lam": "0", "lumped": False,
            "classes": [r.choice([-1, 1]) for _ in range(M)] if r.random() < 0.8 else None,
            "data": [[frac_str(c) for c in x] for x in data]}


def run_urhs(ctx, drv, case):
    """uniform `calculate_B` with class labels below and above 200 points: the branch the code takes vs. the independent signed
    sample mean, vs. both model paths, and vs. the OTHER implementation's computation carried out with the implementation's own
    vectorised hat routine on the same grid (`hat_function_in_support_completely_vectorized` over all hats = the small-grid branch)"""
    ck = c16.Checker(ctx, drv)
    try:
        drv16 = getattr(ctx, "_drv16", None)
        if drv16 is None:
            drv16 = ctx.driver("drv_c16")
            ctx._drv16 = drv16
        dim = case["dim"]
        data = [[F(c) for c in x] for x in case["data"]]
        classes = case["classes"]
        M = len(data)
        signs = [F(c) for c in classes] if classes is not None else [F(1)] * M
        sg = fv(signs) if classes is not None else "-"
        op = c16.mk_uniform(data, dim, F(0), False, classes)
        for n, lv in enumerate([case["lv"]] + list(case.get("more") or [])):
            stripes = c16.uniform_stripes(lv)
            N = math.prod(2 ** l - 1 for l in lv)
            big = N >= 200
            op.grid.setCurrentArea(np.zeros(dim), np.ones(dim), lv)
            b = op.calculate_B(op.data, lv)
            tags = {"kind": "urhs", "dim": dim, "classes": classes is not None, "grid_ge_200": big, "position_in_sequence": n}
            scase = dict(case, step=n)
            bref = b_ref(stripes, data, signs)
            if not vec_near(b, bref, 1e-12):
                k = next(i for i in range(N) if not near(b[i], bref[i], 1e-12))
                ck.viol("uniform-rhs-is-signed-sample-mean", tags, scase, {"entry": k, "impl": float(b[k]), "sample_mean": str(bref[k]), "lv": list(lv)})
            ms = parse_vec(drv16.ask("bu small %s %s %s" % (fints(lv), fvs(data), sg)))
            ml = parse_vec(drv16.ask("bu large %s %s %s" % (fints(lv), fvs(data), sg)))
            if ms != ml:
                ck.corr("model: uniform rhs small path vs large path", scase, [str(v) for v in ms][:6], [str(v) for v in ml][:6])
            if not vec_near(b, ml if big else ms, 1e-12):
                ck.corr("calculate_B (uniform, %s branch)" % ("large" if big else "small"), scase, np.asarray(b).tolist()[:8], [str(v) for v in ms][:8])
            # the small-grid branch's computation on the same grid, with the implementation's own routine
            hats = np.array(list(itertools.product(*[range(1, 2 ** l) for l in lv])), dtype=int)
            unweighted = op.hat_function_in_support_completely_vectorized(hats, np.array(lv, dtype=int), op.data)
            w = np.array([float(s) for s in signs]).reshape(M, 1)
            b_small = np.sum(w * unweighted, axis=0) * (1 / M)
            if not vec_near(b, b_small, 1e-12):
                k = next(i for i in range(N) if not near(b[i], b_small[i], 1e-12))
                ck.viol("uniform-rhs-paths-agree", tags, scase, {"entry": k, "calculate_B": float(b[k]), "all_hats_vectorised": float(b_small[k]), "lv": list(lv)})
            ctx.count("urhs_seq_%s" % ("ge_200" if big else "lt_200"))
        lv = case["lv"]
        big = math.prod(2 ** l - 1 for l in lv) >= 200
        ctx.count("urhs_%s_%s" % ("ge_200" if big else "lt_200", "classes" if classes is not None else "noclasses"))
    except Exception:
        ck.ok = False
        ctx.violation("exception", {"kind": "urhs"}, case, {"traceback": traceback.format_exc()[-1500:]})
    return ck.ok


# ------------------------------------------------------------------ part D: small-grid vs large-grid interpolation on the same grid
def gen_interp(ctx, thorough):
    r = ctx.rng
    dim = r.choice([1, 2, 2, 3])
    uniform = r.random() < 0.4
    if uniform:
        lv = [r.randint(1, 3 if dim > 1 else 5) for _ in range(dim)]
        stripes = c16.uniform_stripes(lv)
    else:
        lv = None
        stripes = [c16.gen_stripe(r, {1: 20, 2: 9, 3: 5}[dim], 6) for _ in range(dim)]
    N = math.prod(len(s) - 2 for s in stripes)
    alpha = [F(r.randint(-16, 16), 8) for _ in range(N)]
    pts = c16.special_points(r, stripes, 12)
    return {"kind": "interp", "dim": dim, "uniform": uniform, "lv": lv, "stripes": [[frac_str(c) for c in s] for s in stripes],
            "alpha": [frac_str(a) for a in alpha], "points": [[frac_str(c) for c in x] for x in pts],
            "lam": "0", "classes": None, "data": [["1/2"] * dim]}


def run_interp(ctx, drv, case):
    from sparseSpACE.ComponentGridInfo import ComponentGridInfo
    from sparseSpACE.Grid import TrapezoidalGrid
    ck = c16.Checker(ctx, drv)
    try:
        dim = case["dim"]
        stripes = [[F(c) for c in s] for s in case["stripes"]]
        alpha = [F(a) for a in case["alpha"]]
        pts = [[F(c) for c in x] for x in case["points"]]
        fp = [tuple(float(c) for c in x) for x in pts]
        hats = hats_of(stripes)
        ref = [sum(a * hat_nd_ref(h, x) for a, h in zip(alpha, hats)) for x in pts]
        levels = [[node_level(c) for c in s] for s in stripes]
        lvec = tuple(max(l) for l in levels)
        fa = np.array([float(a) for a in alpha])
        results = {}
        # dimension-wise operation: N < 200 -> completely vectorised branch; BigCountGrid -> neighbour branch
        for name, grid in (("small", None), ("large", big_grid_class()(a=np.zeros(dim), b=np.ones(dim), boundary=False, modified_basis=False))):
            op, g = new_dimwise_op(case, False, grid=grid)
            cont = c16._Container()
            op.init_dimension_wise(g, g, cont, 1, [1] * dim, np.zeros(dim), np.ones(dim))
            g.set_grid(c16.fl(stripes), levels)
            op.surpluses[lvec] = fa
            v = op.interpolate_points_component_grid(ComponentGridInfo(lvec, 1), c16.fl(stripes), fp)
            results["dimwise-" + name] = np.array(v)[:, 0]
        if case["uniform"]:
            lv = case["lv"]
            udata = [[F(c) for c in x] for x in case["data"]]
            op = c16.mk_uniform(udata, dim, F(0), False, None)
            op.grid.setCurrentArea(np.zeros(dim), np.ones(dim), lv)
            op.surpluses[tuple(lv)] = fa
            results["uniform-small"] = np.array(op.interpolate_points_component_grid(ComponentGridInfo(tuple(lv), 1), None, fp))[:, 0]

            class BigTrap(TrapezoidalGrid):
                def get_num_points(self):
                    return 10 ** 6
            op2 = c16.mk_uniform(udata, dim, F(0), False, None, grid=BigTrap(a=np.zeros(dim), b=np.ones(dim), boundary=False))
            op2.surpluses[tuple(lv)] = fa
            results["uniform-large"] = np.array(op2.interpolate_points_component_grid(ComponentGridInfo(tuple(lv), 1), None, fp))[:, 0]
        st = fvs(stripes)
        for k, x in enumerate(pts):
            ms = F(drv.ask("interp small %s %s %s" % (st, fv(alpha), fv(x))))
            ml = F(drv.ask("interp large %s %s %s" % (st, fv(alpha), fv(x))))
            if not near(results["dimwise-small"][k], ms, 1e-12):
                ck.corr("interpolate (N < 200 branch)", dict(case, point=fv(x)), results["dimwise-small"][k], ms)
            if not near(results["dimwise-large"][k], ml, 1e-12):
                ck.corr("interpolate (N >= 200 branch)", dict(case, point=fv(x)), results["dimwise-large"][k], ml)
            bad = {n: float(v[k]) for n, v in results.items() if not near(v[k], ref[k], 1e-12)}
            if bad:
                ck.viol("interpolation-paths-agree", {"path": sorted(bad)[0], "uniform": case["uniform"]}, dict(case, point=fv(x)),
                        {"reference": float(ref[k]), "values": {n: float(v[k]) for n, v in results.items()}})
            ctx.count("interp_points")
    except Exception:
        ck.ok = False
        ctx.violation("exception", {"kind": "interp"}, case, {"traceback": traceback.format_exc()[-1500:]})
    return ck.ok


# ------------------------------------------------------------------ cache-key probes (model only vs. the implementation's key function)
def check_key_pairs(ck, drv, case, pairs):
    ctx = ck.ctx
    stripes = [[F(c) for c in s] for s in case["stripes"]]
    dim = case["dim"]
    op, g = new_dimwise_op(case, True)
    seen = {}
    for I, J in pairs:
        pi, di = [float(c[0]) for c in I], [(float(c[1]), float(c[2])) for c in I]
        pj, dj = [float(c[0]) for c in J], [(float(c[1]), float(c[2])) for c in J]
        key = str(op.get_domain_overlap_width(pi, di, pj, dj))
        val = op.calculate_R_value_analytically(pi, di, pj, dj)
        out = drv.ask("key %s %s" % (";".join(fv(c) for c in I), ";".join(fv(c) for c in J)))
        kpart, rest = out.split(" value ")
        kv, ev = [F(t) for t in rest.split(" entry ")]
        flag, ws, ds = kpart.split("|")
        w_i, d_i = op.get_domain_overlap_width(pi, di, pj, dj)
        # the key is compared as a pair of multisets: the order inside the key is an internal choice
        if not (vec_near(sorted(w_i), sorted(parse_vec(ws)), 1e-12) and vec_near(sorted(d_i), sorted(parse_vec(ds)), 1e-12)) or not c16.near_entry(val, ev):
            ck.corr("overlap key / entry", dict(case, I=str(I), J=str(J)), (key, val), out)
        if kv != ev:
            ck.corr("model: keyValue(key) == rValue", dict(case, I=str(I), J=str(J)), str(kv), str(ev))
        if key in seen and not c16.near_entry(val, seen[key]):
            ck.viol("equal-keys-different-entries", {"dim": dim}, dict(case, I=str(I), J=str(J)), {"key": key, "values": [val, seen[key]]})
        seen[key] = val
        ctx.count("key_pairs")


def run_keys(ctx, drv, n):
    """`get_domain_overlap_width` and `calculate_R_value_analytically` on pairs of hats of random tensor grids: key and
    value against the model, and the clause `equal keys -> equal entries` on the implementation"""
    r = ctx.rng
    ck = c16.Checker(ctx, drv)
    for _ in range(n):
        dim = r.choice([1, 2, 3])
        stripes = [c16.gen_stripe(r, 9, 6) for _ in range(dim)]
        case = {"kind": "keys", "dim": dim, "stripes": [[frac_str(c) for c in s] for s in stripes], "lam": "0", "classes": None, "data": [["1/2"] * dim]}
        try:
            hats = hats_of(stripes)
            pairs = [(r.choice(hats), r.choice(hats)) for _ in range(25)] + [(h, h) for h in hats[:5]]
            check_key_pairs(ck, drv, case, pairs)
        except Exception:
            ck.ok = False
            ctx.violation("exception", {"kind": "keys"}, case, {"traceback": traceback.format_exc()[-1500:]})
    return ck.ok


def replay_keys(ctx, drv, case):
    """all pairs of hats of the grid of the case (at most 3000)"""
    ck = c16.Checker(ctx, drv)
    hats = hats_of([[F(c) for c in s] for s in case["stripes"]])
    pairs = list(itertools.product(hats, hats))[:3000]
    check_key_pairs(ck, drv, case, pairs)
    return ck.ok


MALFORMED = [("grid 0,1/2,1 1", "bad-op"), ("init 1 0 1/2 - 0;0", "assert"), ("init 2 0 1/2 - 0", "bad-op"), ("post", "bad-op"), ("foo", "bad-op"),
             ("interp small 0,1/2,1 1 2", "assert"), ("key 1/2,0,1 1/2,0", "bad-op")]

RUNNERS = {"history": run_history, "twostep": run_twostep, "uniform": run_uniform, "interp": run_interp, "urhs": run_urhs, "samestep": run_samestep}


def run(ctx):
    thorough = ctx.tier == "thorough"
    ctx.rule = ("cases: (history) complete SpatiallyAdaptiveSingleDimensions2 runs with DensityEstimation, reuse on vs off, clustered dyadic data incl. "
                "boundary samples, with/without classes, lmin 1-2, lmax-lmin 1-2 (thorough: runs reaching component grids >= 200 points); "
                "(twostep) two consecutive evaluations of 2-D grids with >= 200 points, the second a refinement of the first -- the right-hand-side reuse "
                "branch; (uniform) StandardCombi schemes reuse on vs off; (interp) small-grid and large-grid interpolation branches on the same grid; "
                "(samestep) the same operation evaluates 2-3 different component grids with 200-320 points per refinement step, two steps, reuse off and on: "
                "every right-hand side vs the signed sample mean and the model; "
                "(urhs) uniform calculate_B with class labels on grids below and above 200 points vs signed sample mean / model / the other branch's computation; "
                "(keys) cache keys vs entries on random hat pairs. A case is distinct by its full description; all are non-trivial")
    drv = ctx.driver("drv_c17")
    t_run = time.time()
    for line, want in MALFORMED:
        got = drv.ask(line)
        ctx.count("malformed_lines")
        if got != want:
            ctx.corr_break("C17/malformed-line", {"line": line}, {"model": got, "expected": want})
    run_keys(ctx, drv, 6 if not thorough else 40)
    budget = 75 if not thorough else 330
    # the expensive / rare kinds come early so that a slow machine still reaches them within the budget
    plan = ["history", "samestep", "urhs", "twostep", "history", "interp", "uniform", "history", "urhs", "interp", "history",
            "uniform", "interp", "history"]
    gens = {"history": gen_history, "twostep": gen_twostep, "uniform": gen_uniform, "interp": gen_interp, "urhs": gen_urhs, "samestep": gen_samestep}
    n = 130 if not thorough else 1700
    k = 0
    while k < n and time.time() - t_run < budget:      # the budget counts from here, not from the Lean build
        kind = plan[k % len(plan)]
        k += 1
        case = gens[kind](ctx, thorough)
        ok = RUNNERS[kind](ctx, drv, case)
        ctx.count("kind_" + kind)
        ctx.count("with_classes" if case.get("classes") is not None else "no_classes")
        ctx.case(case, nontrivial=True, sample={kk: (v if kk not in ("data", "points", "alpha", "steps") else "%d items" % len(v)) for kk, v in case.items()} if k <= 3 else None)
        if not ok and (len(ctx.violations) >= ctx.max_reports or len(ctx.corr_breaks) >= 40):
            break


def replay(ctx, rp):
    case = {k: v for k, v in rp["case"].items() if k not in ("step", "point", "I", "J")}
    drv = ctx.driver("drv_c17")
    kind = case.get("kind")
    ok = replay_keys(ctx, drv, case) if kind == "keys" else RUNNERS[kind](ctx, drv, case)
    print("replay: %s" % ("property holds and model agrees on this case" if ok and not ctx.known_hits else
                          ("only known findings reproduced" if ok else "REPRODUCED")))
    for fid, (f, n) in ctx.known_hits.items():
        print("  known finding:", fid, n)
    for v in ctx.violations[:3]:
        print("  violation:", v["probe"], v["tags"], str(v["detail"])[:600])
    for c in ctx.corr_breaks[:3]:
        print("  disagreement:", c["observable"], str(c["detail"])[:600])
    for d in ctx._drivers:
        d.close()
    return 0 if ok else 1
