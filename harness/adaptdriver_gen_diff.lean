import GenScratch.AdaptDriverGen
import SparseSpace.Model.AdaptDriver
/-!
Directed search used by `harness/adaptdriver_gen.py` when the translator tie of the adaptive driver is broken: runs
the FRESHLY generated `performSpatiallyAdaptiv` (and a following `continue_adaptive_refinement`) on a family of concrete
strategies (world = number of refinements made) next to the hand model's `run` / `loop` over a box of limits and prints

    DIS perform|continue strategy <k> tol <0|1> min <m> max <M|none> [then ...]

Interpreted with `lean --run`; not part of the library.
-/
open SparseSpace SparseSpace.Adapt

/-- strategy `k`: the error is 1 before refinement `k`, then 0; the point count after `w` refinements is `2w+1` -/
def strat (k : Nat) : GenAD.Abstract Nat Nat Nat Nat Nat Nat :=
  { evaluate_operation := fun w => (w, ((if k ≤ w then (0 : Rat) else 1), (w : Rat))), initialize_grid := id, refine := fun w => w + 1,
    init_adaptive_combi := fun _ _ _ _ _ => 0, evaluate_final_combi := fun w => (w, (w, 0)), check_combi_scheme := id,
    get_total_num_points := fun w _ => 2 * (w : Int) + 1, get_result := id, get_reference_solution := fun _ => 0,
    perf_counter := fun _ => 0, time_time := fun _ => 0, evaluationstotal := fun w => w, refinement := id, scheme := id, lmax := id }

def mach (k : Nat) : Machine Nat where
  eval := fun w => (w, ⟨(if k ≤ w then (0 : Rat) else 1), (2 * w + 1), (w : Rat)⟩)
  refine := fun w => w + 1

def s0 : GenAD.State Nat Nat Nat Nat Nat Nat :=
  let d : GenAD.State Nat Nat Nat Nat Nat Nat := default
  { d with error_array := [7, 7], num_point_array := [9, 9], surplus_error_array := [8, 8], interpolation_error_arrayL2 := [5] }

def maxs : List (Option Int) := [none, some 0, some 1, some 4, some 5]

def main : IO Unit := do
  let mut found := 0
  for k in [0, 1, 3] do
    for tol in [(0 : Rat), 1] do
      for mn in [(0 : Int), 1, 4, 6] do
        for mx in maxs do
          let r := GenAD.performSpatiallyAdaptiv (strat k) s0 1 2 0 tol 0 false false false false none mx true mn none none false 12
          match run (mach k) ⟨tol, mn, mx⟩ 12 0 with
          | none => pure ()
          | some h =>
            let ok := r.1.world == h.state && r.1.error_array == h.hist.errs && r.1.num_point_array.map Int.toNat == h.hist.pts
              && r.1.surplus_error_array == h.hist.surs && r.1.interpolation_error_arrayL2 == [] && r.1.interpolation_error_arrayMax == []
              && r.2.2.2.2.2.2.1 == h.hist.errs
            if !ok && found < 10 then
              IO.println s!"DIS perform strategy {k} tol {tol} min {mn} max {mx}"
              found := found + 1
            -- continue with other limits on the stopped instance
            for mx2 in [none, some (7 : Int)] do
              let tol2 : Rat := 0
              let r2 := GenAD.continue_adaptive_refinement (strat k) r.1 tol2 none mx2 (mn + 2) 12
              match loop (mach k) ⟨tol2, mn + 2, mx2⟩ 12 h.state h.hist 0 with
              | none => pure ()
              | some h2 =>
                let ok2 := r2.1.world == h2.state && r2.1.error_array == h2.hist.errs && r2.1.num_point_array.map Int.toNat == h2.hist.pts
                if ok && !ok2 && found < 10 then
                  IO.println s!"DIS continue strategy {k} tol {tol} min {mn} max {mx} then tol 0 min {mn + 2} max {mx2}"
                  found := found + 1
  IO.println s!"DONE {found}"
