"""C12 (C13) translator tie: the evaluation cache / evaluation counter of class Function (`__call__` in its two typed
readings, reset_dictionary, deactivate_caching, get_f_dict_size, get_f_dict_points) is regenerated from the CURRENT
sparseSpACE/Function.py on every run (tools/py2lean, spec funccache.json) and tied to Properties/C12gen.lean by the
generic engine harness/gen_tie.py.

On a broken tie the fresh definitions and the hand model are run on ALL operation sequences of length <= 4 over a small
alphabet (funccache_gen_diff.lean); the minimal disagreeing sequences become histories of the unchanged C12 harness on
several built-in classes (correspondence + oracle), followed by a stream of short histories; with mod = None only the tie
is checked and reported."""
import os
import re
import time

import gen_tie

HERE = os.path.dirname(os.path.abspath(__file__))
TIE = gen_tie.Tie(
    "function-cache", [("funccache.json", "FuncCacheGen")], r"FuncCacheGen\w*\.lean", "C12gen",
    diff_driver=os.path.join(HERE, "funccache_gen_diff.lean"), build_target="SparseSpace.Properties.C12gen",
    trusted=("translator tie (Function cache): tools/py2lean, the interface declaration tools/py2lean/specs/funccache.json (the two typed "
             "readings of the dynamically typed __call__ with their assumptions, eval / eval_vectorized / output_length as an abstract pure "
             "parameter, points and values as lists of exact rationals, reshape assumed shape-preserving) and the helper semantics of "
             "Model/PyRt.lean are trusted; cross-checked by the unchanged correspondence test on the real Python"))

P = [[1.0, 2.0], [0.0, 3.0]]
OPS = {"s0": ["single", P[0], "tuple"], "s1": ["single", P[1], "tuple"], "b01": ["batch", [P[0], P[1]], "tuples"],
       "b00": ["batch", [P[0], P[0]], "tuples"], "e": ["batch", [], "tuples"], "r": ["reset"], "d": ["deact"]}


def run(ctx, drv, mod):
    """mod: the c12 module (CLASSES, gen_params, gen_history, run_history) or None"""
    info = TIE.check(ctx)
    if info["status"] not in ("translation-failed", "proof-failed") or mod is None or drv is None:
        return info
    t1 = time.time()
    found_before, tried = len(ctx.violations), 0
    seqs = []
    for line in info.get("disagreements", []):
        m = re.match(r"DIS ops (.*)", line)
        if m:
            seqs.append([x.strip() for x in m.group(1).split(";") if x.strip() in OPS])
    classes = [n for n in ("ConstantValue", "FunctionLinear", "FunctionPolynomial") if n in mod.CLASSES]
    for seq in seqs[:8]:                                   # the minimal disagreeing operation sequences, observed with `size`
        for name in classes[:2]:
            if len(ctx.violations) > found_before or time.time() - t1 > 40:
                break
            ops = []
            for o in seq:
                ops += [list(OPS[o]), ["size"]]
            case = {"kind": "history", "cls": name, "dim": 2, "params": mod.gen_params(name, ctx.rng, 2), "ops": ops}
            tried += 1
            ctx.count("gen-tie_directed_history")
            try:
                mod.run_history(ctx, drv, case)
            except Exception:
                import traceback
                ctx.corr_break("gen-tie/directed-exception", case, traceback.format_exc()[-1500:])
            ctx.case(case, nontrivial=True)
    k = 0
    while len(ctx.violations) == found_before and time.time() - t1 < 40 and k < 60:     # short random histories on simple classes
        name = classes[k % len(classes)]
        case = mod.gen_history(ctx.rng, name, False)
        case["ops"] = case["ops"][:12]
        k += 1
        tried += 1
        ctx.count("gen-tie_directed_stream")
        try:
            mod.run_history(ctx, drv, case)
        except Exception:
            pass
        ctx.case(case, nontrivial=True)
    info.update(directed_tried=tried, directed_found=len(ctx.violations) - found_before)
    return info
