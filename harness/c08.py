"""C08 -- local tensor quadrature grids honour their exactness and point contracts.

Correspondence: TrapezoidalGrid (boundary on/off, modified basis) and SimpsonGrid (boundary on/off) of the real code
vs. Model/Quad (announced counts, point list, weight list, monomial moments) on random dyadic sub-boxes.
Oracle: the clauses of the property evaluated on the implementation for ALL local families (trapezoid, Simpson,
Clenshaw-Curtis, Leja, Gauss-Legendre, Lagrange, B-spline): count, containment, sum of weights, exactness up to the
nominal degree, and the trapezoidal boundary-off clause.

Reading (DESIGN.md C08): the sum / exactness clauses speak of the COMPLETE rule (boundary on, modified basis, or
Gauss-Legendre which has no boundary flag); with boundary off only count + containment (+ for the trapezoidal family
the literal "drops exactly the global-boundary points" clause) are demanded; Leja keeps an interpolatory rule on the
points it returns, so its sum / exactness clauses are checked for both flags.  The hierarchical families (Lagrange,
B-spline) are read through `grid.integrate` (their `weights` pair with surpluses)."""
import itertools
import math
from fractions import Fraction as Fr

import numpy as np

from common import frac_str, parse_frac

FAMILIES = ["Trapezoidal", "Simpson", "ClenshawCurtis", "Leja", "GaussLegendre", "Lagrange", "BSpline"]
HIER = ("Lagrange", "BSpline")
MODELLED = {"Trapezoidal": "trap", "Simpson": "simp"}
TOL = 1e-9


# ------------------------------------------------------------------------------------------------ helpers
def fr(x):
    return x if isinstance(x, Fr) else Fr(x)


def fstr(x):
    return frac_str(fr(x))


def vecstr(v):
    return ",".join(fstr(x) for x in v)


def make_grid(case):
    from sparseSpACE import Grid as G
    fam = case["family"]
    a = np.array([float(fr(x)) for x in case["a"]])
    b = np.array([float(fr(x)) for x in case["b"]])
    bd = bool(case["boundary"])
    # constructor option `integrator`: None -> IntegratorArbitraryGridScalarProduct (default), 'old' -> the point-by-point
    # IntegratorArbitraryGrid; every other value trips `assert False` in the constructors
    kw = {"integrator": case["integrator"]} if case.get("integrator") is not None else {}
    if fam == "Trapezoidal":
        return G.TrapezoidalGrid(a=a, b=b, boundary=bd, modified_basis=bool(case.get("modified", False)), **kw)
    if fam == "Simpson":
        return G.SimpsonGrid(a=a, b=b, boundary=bd, **kw)
    if fam == "ClenshawCurtis":
        return G.ClenshawCurtisGrid(a=a, b=b, boundary=bd, **kw)
    if fam == "Leja":
        return G.LejaGrid(a=a, b=b, boundary=bd, **kw)
    if fam == "GaussLegendre":
        return G.GaussLegendreGrid(a=a, b=b)
    if fam == "Lagrange":
        return G.LagrangeGrid(a=a, b=b, boundary=bd, p=int(case["p"]))
    if fam == "BSpline":
        return G.BSplineGrid(a=a, b=b, boundary=bd, p=int(case["p"]))
    raise ValueError(fam)


def nominal_degree(case, n):
    """the degree the property text promises for n points in one dimension"""
    fam = case["family"]
    if fam == "Trapezoidal":
        return 1
    if fam == "Simpson":
        return 3 if n >= 3 else 1          # at level 0 the class itself falls back to the trapezoid (reading)
    if fam in ("ClenshawCurtis", "Leja"):
        return n - 1
    if fam == "GaussLegendre":
        return 2 * n - 1
    return min(int(case["p"]), n - 1)


def touch(case, d):
    lo = fr(case["start"][d]) == fr(case["a"][d])
    hi = fr(case["end"][d]) == fr(case["b"][d])
    return "both" if (lo and hi) else "lower" if lo else "upper" if hi else "none"


_FUNCTION_BASE = []
_LEJA_REF = {}


def mono_function(ks, centers, scales):
    """Function object  x -> prod_d ((x_d - c_d)/s_d)^k_d  for grid.integrate"""
    if not _FUNCTION_BASE:
        from sparseSpACE.Function import Function

        class Mono(Function):
            def __init__(self, ks, cs, ss):
                super().__init__()
                self.ks, self.cs, self.ss = np.array(ks, dtype=float), np.array(cs, dtype=float), np.array(ss, dtype=float)

            def output_length(self):
                return 1

            def eval(self, coordinates):
                x = (np.asarray(coordinates, dtype=float) - self.cs) / self.ss
                return float(np.prod(x ** self.ks))

            def eval_vectorized(self, coordinates):
                x = (np.asarray(coordinates, dtype=float) - self.cs) / self.ss
                return np.prod(x ** self.ks, axis=-1).reshape((*np.shape(coordinates)[:-1], 1))

        _FUNCTION_BASE.append(Mono)
    return _FUNCTION_BASE[0](ks, centers, scales)


def exact_moment(start, end, ks, centers, scales):
    """exact  int_box prod ((x-c)/s)^k  as a Fraction"""
    r = Fr(1)
    for s, e, k, c, sc in zip(start, end, ks, centers, scales):
        lo, hi = (s - c) / sc, (e - c) / sc
        r *= sc * (hi ** (k + 1) - lo ** (k + 1)) / (k + 1)
    return r


def exponent_sets(rng, degs, thorough):
    """exponent vectors to test: every axis monomial up to the nominal degree, the top corner, random mixed ones"""
    dim = len(degs)
    out = {tuple([0] * dim), tuple(degs)}
    for d in range(dim):
        for k in range(degs[d] + 1):
            v = [0] * dim
            v[d] = k
            out.add(tuple(v))
    for _ in range(6 if not thorough else 12):
        out.add(tuple(rng.randint(0, degs[d]) for d in range(dim)))
    return sorted(out)


# ------------------------------------------------------------------------------------------------ one case
def run_case(ctx, drv, case, rng, thorough=False, verbose=False):
    """returns True iff no violation / disagreement was reported for this case"""
    fam = case["family"]
    dim = case["dim"]
    bd = bool(case["boundary"])
    md = bool(case.get("modified", False))
    lv = [int(x) for x in case["lv"]]
    A = [fr(x) for x in case["a"]]
    B = [fr(x) for x in case["b"]]
    S = [fr(x) for x in case["start"]]
    E = [fr(x) for x in case["end"]]
    start = np.array([float(x) for x in S])
    end = np.array([float(x) for x in E])
    vol = float(np.prod(end - start))
    base_tags = {"family": fam, "boundary": bd, "modified": md, "dim": dim}
    if fam in HIER:
        base_tags["p"] = int(case["p"])
    if case.get("integrator") is not None:
        base_tags["integrator"] = case["integrator"]
    ok = True
    # Leja with boundary off builds the interpolatory rule on the points it keeps (announced = returned since the repair
    # of level_to_num_points_1d), so it is a complete rule of nominal degree n-1 for its n points
    complete = bd or md or fam in ("GaussLegendre", "Leja")
    pub = canon(case)

    def viol(probe, extra, detail):
        nonlocal ok
        ok = False
        tags = dict(base_tags)
        tags.update(extra)
        ctx.violation(probe, tags, pub, detail)
        if verbose:
            print("  oracle:", probe, tags, detail)

    def corr(obs, impl, model):
        nonlocal ok
        ok = False
        ctx.corr_break("C08/" + obs, pub, {"impl": str(impl)[:400], "model": str(model)[:400]})
        if verbose:
            print("  disagreement:", obs, "impl", str(impl)[:300], "model", str(model)[:300])

    # ---------------- implementation: the observe_at calls
    grid = case.get("_grid")
    exc = None
    P = W = N = None
    try:
        if grid is None:
            grid = make_grid(case)
            for h in case.get("history", []):      # replay: bring a fresh object into the state the failing run had
                hs = np.array([float(fr(x)) for x in h["start"]])
                he = np.array([float(fr(x)) for x in h["end"]])
                try:
                    if h.get("mode") == "integrate-first":
                        grid.integrate(mono_function(tuple([0] * dim), np.zeros(dim), np.ones(dim)), h["lv"], hs, he)
                    else:
                        grid.setCurrentArea(hs, he, h["lv"])
                        grid.get_points_and_weights()
                except Exception:  # noqa: BLE001
                    pass
        if case.get("mode") == "integrate-first":
            # let `integrate` itself set the area (as the combination loop does), then read the grid WITHOUT refreshing it
            try:
                grid.integrate(mono_function(tuple([0] * dim), np.zeros(dim), np.ones(dim)), lv, start, end)
            except Exception:  # noqa: BLE001 -- classified by the explicit calls below
                grid.setCurrentArea(start, end, lv)
        else:
            grid.setCurrentArea(start, end, lv)
        P, W = grid.get_points_and_weights()
        N = [int(x) for x in grid.levelToNumPoints(lv)]
        P = [tuple(float(x) for x in p) for p in P]
        W = [float(w) for w in W]
    except Exception as e:  # noqa: BLE001 -- classified below
        exc = e
    model_line = None
    if fam in MODELLED and drv is not None:
        model_line = drv.ask("tens %s %d %d %s %s %s %s %s" % (MODELLED[fam], bd, md, vecstr(A), vecstr(B), vecstr(S), vecstr(E),
                                                             ",".join(str(x) for x in lv)))
    if exc is not None:
        # which dimension raises?  (only used to tag the finding)
        dbad, tch = None, "?"
        for d in range(dim):
            try:
                grid.grids[d].set_current_area(start[d], end[d], lv[d])
            except Exception:  # noqa: BLE001
                dbad = d
                break
        if dbad is not None:
            tch = touch(case, dbad)
        ctx.count("impl_exception_" + type(exc).__name__)
        viol("count", {"kind": "exception:" + type(exc).__name__, "touch": tch,
                       "level0": (lv[dbad] == 0) if dbad is not None else None},
             {"exception": repr(exc)[:300], "dimension": dbad})
        if model_line is not None:
            corr("exception-vs-model", repr(exc)[:200], model_line[:200])
        return ok

    # ---------------- (2a) count clause
    announced = int(np.prod(N)) if len(N) else 0
    cnt_ok = True
    if len(P) != announced or len(W) != len(P):
        cnt_ok = False
        dbad, kind = None, "points-vs-announced" if len(P) != announced else "weights-vs-points"
        for d in range(dim):
            nc, nw = len(grid.coordinate_array[d]), len(grid.weights[d])
            if nc != N[d] or nw != nc:
                dbad = d
                kind = "points-vs-announced" if nc != N[d] else "weights-vs-points"
                break
        viol("count", {"kind": kind, "touch": touch(case, dbad) if dbad is not None else "?",
                       "level0": (lv[dbad] == 0) if dbad is not None else None},
             {"announced": N, "points": len(P), "weights": len(W), "dimension": dbad})
    # ---------------- (2b) containment
    for p in P:
        if len(p) != dim or any(not (start[d] - 1e-12 * max(1.0, abs(start[d])) <= p[d] <= end[d] + 1e-12 * max(1.0, abs(end[d]))) for d in range(dim)):
            viol("inside", {}, {"point": p, "start": list(start), "end": list(end)})
            break
    # per-dimension coordinates ascending (the cross product structure relies on it; no family returns duplicates)
    for d in range(dim):
        c = [float(x) for x in grid.coordinate_array[d]]
        if any(c[i] >= c[i + 1] for i in range(len(c) - 1)):
            viol("inside", {"kind": "not-strictly-ascending"}, {"dimension": d, "coords": c[:12]})
            break

    # ---------------- (1) correspondence with the model (trapezoid, Simpson)
    if model_line is not None:
        impl_N = "N [" + ",".join(str(x) for x in N) + "]"
        if fam == "Trapezoidal":   # dyadic inputs, exact arithmetic: compare canonical strings
            impl = "%s P [%s] W [%s]" % (impl_N, ",".join("[" + ",".join(fstr(x) for x in p) + "]" for p in P), ",".join(fstr(w) for w in W))
            if impl != model_line:
                corr("tens", impl, model_line)
        else:
            try:
                mN, rest = model_line.split(" P ")
                mP, mW = rest.split(" W ")
                mP = [tuple(float(parse_frac(x)) for x in q.split(",")) for q in mP.strip("[]").split("],[")] if mP != "[]" else []
                mW = [float(parse_frac(x)) for x in mW.strip("[]").split(",")] if mW != "[]" else []
                same = (mN == impl_N and mP == P and len(mW) == len(W)
                        and all(abs(x - y) <= 1e-13 * max(1.0, abs(y)) for x, y in zip(W, mW)))
            except Exception:  # noqa: BLE001
                same = False
            if not same:
                corr("tens", "%s P %s W %s" % (impl_N, P[:8], W[:8]), model_line)

    # Gauss-Legendre: the affine map [-1,1] -> [start,end] of the code vs. the model (leggauss output as exact input)
    if fam == "GaussLegendre" and drv is not None and cnt_ok:
        import numpy.polynomial.legendre as legendre
        for d in range(dim):
            xi, om = legendre.leggauss(N[d])
            m = drv.ask("gl %s %s %s %s" % (fstr(S[d]), fstr(E[d]), ",".join(fstr(float(x)) for x in xi), ",".join(fstr(float(x)) for x in om)))
            try:
                mP, mW = m[2:].split(" W ")
                mP = [float(parse_frac(x)) for x in mP.strip("[]").split(",")]
                mW = [float(parse_frac(x)) for x in mW.strip("[]").split(",")]
                cP = [float(x) for x in grid.coordinate_array[d]]
                cW = [float(x) for x in grid.weights[d]]
                scale = max(abs(start[d]), abs(end[d]), 1e-300)
                same = (len(mP) == len(cP) and len(mW) == len(cW)
                        and all(abs(x - y) <= 1e-13 * scale for x, y in zip(cP, mP))
                        and all(abs(x - y) <= 1e-13 * max(abs(y), 1e-300) for x, y in zip(cW, mW)))
            except Exception:  # noqa: BLE001
                same = False
            if not same:
                corr("gl-affine-map", {"dim": d, "coords": [float(x) for x in grid.coordinate_array[d]][:6]}, m[:300])
                break

    # Leja: the weights of the code (first row of the inverse of the Legendre collocation matrix, times the length) vs. the
    # model's certified exact solution of the linear system on the implementation's OWN reference points
    if fam == "Leja" and drv is not None and cnt_ok:
        for d in range(dim):
            g1 = grid.grids[d]
            try:     # the reference points depend on (count, borders) only: computed once per harness run (fmin is slow);
                     # the model's transported points are compared with the grid's own coordinates below in any case
                key = (int(g1.num_points_with_boundary), int(g1.lowerBorder), int(g1.upperBorder))
                if key not in _LEJA_REF:
                    _LEJA_REF[key] = [float(x) for x in g1.get_1D_level_points(g1.level, 0, 1)]
                ts = _LEJA_REF[key]
            except Exception:  # noqa: BLE001
                ts = [(float(x) - start[d]) / (end[d] - start[d]) for x in grid.coordinate_array[d]]
            if not ts:
                continue
            m = drv.ask("leja %s %s %s" % (fstr(S[d]), fstr(E[d]), ",".join(fstr(t) for t in ts)))
            ctx.count("leja_model_solves")
            try:
                body, leg = m.rsplit(" legendre=", 1)
                mP, mW = body[2:].split(" W ")
                mP = [float(parse_frac(x)) for x in mP.strip("[]").split(",")]
                mW = [float(parse_frac(x)) for x in mW.strip("[]").split(",")]
                cP = [float(x) for x in grid.coordinate_array[d]]
                cW = [float(x) for x in grid.weights[d]]
                scale = max(abs(start[d]), abs(end[d]), 1e-300)
                wscale = max([abs(x) for x in mW] + [1e-300])
                same = (leg == "ok" and len(mP) == len(cP) and len(mW) == len(cW)
                        and all(abs(x - y) <= 1e-12 * scale for x, y in zip(cP, mP))
                        and all(abs(x - y) <= TOL * wscale for x, y in zip(cW, mW)))
            except Exception:  # noqa: BLE001
                same = False
            if not same:
                corr("leja-weights", {"dim": d, "ref_points": ts[:12], "coords": [float(x) for x in grid.coordinate_array[d]][:12],
                                      "weights": [float(x) for x in grid.weights[d]][:12]}, m[:600])
                break

    # ---------------- (2c) complete rule: sum of weights, exactness, integrate
    n_moments = 0
    if complete and cnt_ok and announced > 0:
        degs = [nominal_degree(case, N[d]) for d in range(dim)]
        mids = [(S[d] + E[d]) / 2 for d in range(dim)]
        halves = [(E[d] - S[d]) / 2 for d in range(dim)]
        Pa = np.array(P, dtype=float).reshape((len(P), dim))
        Wa = np.array(W, dtype=float)
        if fam not in HIER:
            sw = float(np.sum(Wa))
            if abs(sw - vol) > TOL * vol:
                viol("sum-weights", {}, {"sum": sw, "volume": vol})
        exps = exponent_sets(rng, degs, thorough)
        # hierarchical Lagrange basis: a level-l basis function has l+2 knots (its ancestors), so the polynomial degree the
        # construction can reach is min(p, l+1); the property text promises min(p, n-1).  Failures on exponents beyond the
        # hierarchy depth are tagged so that they can be told apart from any other loss of exactness.
        depth = [min(int(case["p"]), lv[d] + 1) if fam == "Lagrange" else degs[d] for d in range(dim)]
        exps.sort(key=lambda ks: (any(ks[d] > depth[d] for d in range(dim)), ks))
        reported = set()
        for ks in exps:
            beyond = any(ks[d] > depth[d] for d in range(dim))
            for shifted in (True, False):
                if not shifted and max(ks) > 3:
                    continue          # plain monomials only up to degree 3 per dimension (conditioning)
                if (beyond, shifted) in reported or (beyond, not shifted) in reported:
                    continue
                cs = mids if shifted else [Fr(0)] * dim
                ss = halves if shifted else [Fr(1)] * dim
                exact = float(exact_moment(S, E, ks, cs, ss))
                csf, ssf = np.array([float(x) for x in cs]), np.array([float(x) for x in ss])
                fv = np.prod(((Pa - csf) / ssf) ** np.array(ks, dtype=float), axis=1)
                scale = max(abs(exact), vol * float(np.max(np.abs(fv))) if len(fv) else 0.0, 1e-300)
                n_moments += 1
                if fam in HIER:
                    try:
                        got = float(np.asarray(grid.integrate(mono_function(ks, csf, ssf), lv, start, end)).reshape(-1)[0])
                    except Exception as e:  # noqa: BLE001
                        viol("integrate", {"kind": "exception:" + type(e).__name__}, {"exponents": ks, "exception": repr(e)[:300]})
                        reported.add((beyond, shifted))
                        continue
                    probe = "integrate"
                else:
                    got = float(np.dot(Wa, fv))
                    probe = "exactness"
                if abs(got - exact) > TOL * scale:
                    reported.add((beyond, shifted))
                    viol(probe, {"degree_max": max(ks), "shifted": shifted, "beyond_depth": beyond},
                         {"exponents": ks, "got": got, "exact": exact, "nominal_degrees": degs, "num_points": N,
                          "hierarchy_depth_degrees": depth})
        # grid.integrate (through whichever integrator the grid was constructed with) agrees with sum w_i f(x_i) of
        # get_points_and_weights and with the closed form: the constant, one mixed monomial, the top nominal degree
        ks_list = [tuple(min(degs[d], 2) for d in range(dim))]
        if case.get("integrator") is not None or rng.random() < 0.25:
            ks_list += [tuple([0] * dim), tuple(min(degs[d], 3) for d in range(dim))]
        for ks in (dict.fromkeys(ks_list) if (fam not in HIER and ok) else []):
            csf, ssf = np.zeros(dim), np.ones(dim)
            try:
                got = float(np.asarray(grid.integrate(mono_function(ks, csf, ssf), lv, start, end)).reshape(-1)[0])
                exact = float(exact_moment(S, E, ks, [Fr(0)] * dim, [Fr(1)] * dim))
                fv = np.prod(Pa ** np.array(ks, dtype=float), axis=1)
                ref = float(np.dot(Wa, fv))
                scale = max(abs(exact), vol * float(np.max(np.abs(fv))), 1e-300)
                if abs(got - ref) > TOL * scale or abs(got - exact) > TOL * scale:
                    viol("integrate", {"kind": "value"}, {"exponents": ks, "integrate": got, "sum_w_f": ref, "exact": exact})
                    break
                # model moment
                if model_line is not None:
                    m = drv.ask("mom %s %d %d %s %s %s %s %s %s" % (MODELLED[fam], bd, md, vecstr(A), vecstr(B), vecstr(S), vecstr(E),
                                                                   ",".join(str(x) for x in lv), ",".join(str(k) for k in ks)))
                    try:
                        mv = float(parse_frac(m))
                        if abs(mv - got) > TOL * scale:
                            corr("mom", got, m)
                    except Exception:  # noqa: BLE001
                        corr("mom", got, m)
            except Exception as e:  # noqa: BLE001
                viol("integrate", {"kind": "exception:" + type(e).__name__}, {"exponents": ks, "exception": repr(e)[:300]})
    ctx.count("moments_checked", n_moments)

    # ---------------- (2d) trapezoidal family, boundary off (plain basis): drops exactly the global-boundary points
    if fam == "Trapezoidal" and not bd and not md and cnt_ok:
        on_case = dict(case, boundary=True, modified=False)
        on_case.pop("_grid", None)
        try:
            g_on = make_grid(on_case)
            g_on.setCurrentArea(start, end, lv)
            P_on, W_on = g_on.get_points_and_weights()
            a_f = [float(x) for x in A]
            b_f = [float(x) for x in B]
            expect = [(tuple(float(x) for x in p), float(w)) for p, w in zip(P_on, W_on)
                      if not any(p[d] == a_f[d] or p[d] == b_f[d] for d in range(dim))]
            got = list(zip(P, W))
            if got != expect:
                dbad = None
                for d in range(dim):
                    c_on = [float(x) for x in g_on.coordinate_array[d]]
                    w_on = [float(x) for x in g_on.weights[d]]
                    e_d = [(x, w) for x, w in zip(c_on, w_on) if x != a_f[d] and x != b_f[d]]
                    g_d = list(zip([float(x) for x in grid.coordinate_array[d]], [float(x) for x in grid.weights[d]]))
                    if e_d != g_d:
                        dbad = d
                        break
                viol("trap-boundary-off-drop", {"touch": touch(case, dbad) if dbad is not None else "?",
                                                "level0": (lv[dbad] == 0) if dbad is not None else None},
                     {"dimension": dbad, "returned": got[:6], "boundary_on_minus_global_boundary": expect[:6]})
        except Exception as e:  # noqa: BLE001
            viol("trap-boundary-off-drop", {"kind": "exception:" + type(e).__name__}, {"exception": repr(e)[:300]})
    return ok


# ------------------------------------------------------------------------------------------------ generators
def gen_box(rng, dim):
    A, B = [], []
    for _ in range(dim):
        a = Fr(rng.randint(-8, 8), 4)
        L = Fr(rng.choice([1, 2, 3, 4, 6, 8, 12, 16]), 4)
        if rng.random() < 0.3:
            a, L = Fr(0), Fr(1)      # the unit interval (the only domain Clenshaw-Curtis' boundary logic knows)
        A.append(a)
        B.append(a + L)
    return A, B


def gen_subbox(rng, A, B, pattern=None):
    S, E = [], []
    for d in range(len(A)):
        L = B[d] - A[d]
        pat = pattern or rng.choice(["both", "lower", "upper", "none", "none"])
        if pat == "both":
            j, i = 0, 0
        else:
            j = rng.randint(1 if pat != "none" else 2, 4)
            n = 2 ** j
            i = 0 if pat == "lower" else n - 1 if pat == "upper" else rng.randint(1, n - 2)
        S.append(A[d] + L * i / 2 ** j)
        E.append(A[d] + L * (i + 1) / 2 ** j)
    return S, E


OLD_INTEGRATOR_FAMILIES = ("Trapezoidal", "Simpson", "ClenshawCurtis", "Leja")   # constructors with an `integrator` option
OLD_CAP = 700        # the point-by-point integrator is a python loop: keep those grids small


def gen_levels(rng, dim, lmax, fam, cap=None):
    cap = cap or {1: 4000, 2: 1500, 3: 1200}[dim]
    while True:
        lv = [rng.randint(0, lmax) for _ in range(dim)]
        if rng.random() < 0.25:
            lv[rng.randrange(dim)] = rng.choice([0, 1])     # small levels carry most special cases
        if np.prod([2 ** l + 1 for l in lv]) <= cap:
            return lv


def gen_case(rng, thorough, fam=None):
    fam = fam or rng.choice(["Trapezoidal", "Trapezoidal", "Trapezoidal", "Simpson", "Simpson", "ClenshawCurtis", "Leja",
                             "GaussLegendre", "Lagrange", "BSpline"])
    dim = rng.choice([1, 1, 2, 2, 3])
    lmax = 5 if thorough else 4
    if fam in HIER and dim == 3:
        lmax = 3
    if fam == "Leja":
        lmax = 3 if dim == 3 else 5      # Leja has negative weights at levels 3 (n=7) and 5 (n=11): keep both in every tier
    integrator = "old" if (fam in OLD_INTEGRATOR_FAMILIES and rng.random() < 0.4) else None
    A, B = gen_box(rng, dim)
    S, E = gen_subbox(rng, A, B)
    lv = gen_levels(rng, dim, lmax, fam, OLD_CAP if integrator else None)
    if fam == "Leja" and rng.random() < 0.5:
        lv[rng.randrange(dim)] = rng.choice([3, 5] if dim < 3 else [3])
    case = {"family": fam, "dim": dim, "a": [fstr(x) for x in A], "b": [fstr(x) for x in B],
            "start": [fstr(x) for x in S], "end": [fstr(x) for x in E], "lv": lv,
            "boundary": rng.random() < 0.6, "modified": False}
    if integrator:
        case["integrator"] = integrator
    if fam == "Trapezoidal" and not case["boundary"] and rng.random() < 0.5:
        case["modified"] = True
    if fam == "GaussLegendre":
        case["boundary"] = True        # no boundary flag: the rule is always complete (tagged as boundary=True)
    if fam == "Lagrange":
        case["p"] = rng.choice([1, 2, 3, 4, 5])
    if fam == "BSpline":
        case["p"] = rng.choice([1, 3, 5])
    return case


def canon(case):
    return {k: v for k, v in case.items() if not k.startswith("_")}


def malformed_stream(ctx, drv):
    """inputs the constructors refuse / lines the driver must refuse: never a default answer"""
    from sparseSpACE import Grid as G
    a, b = np.zeros(1), np.ones(1)
    try:
        G.TrapezoidalGrid(a=a, b=b, boundary=True, modified_basis=True)
        impl = "accepted"
    except AssertionError:
        impl = "bad-op"
    m = drv.ask("g1 trap 0 1 0 1/2 2 1 1")
    if impl != m:
        ctx.corr_break("C08/malformed-boundary-and-modified", {"line": "g1 trap 0 1 0 1/2 2 1 1"}, {"impl": impl, "model": m})
    for line in ["", "g1", "g1 trap 0 1 0 1/2 2 1", "g1 trap 0 1 0 1/0 2 1 0", "g1 gauss 0 1 0 1 2 1 0", "tens trap 1 0 0,0 1,1 0 1 2,2",
                 "mom trap 1 0 0 1 0 1 2 1,1", "gl 0 1 1 1,2", "leja 0 1 -", "leja 0 1", "leja 0 1/0 1/2", "gl 0 1 - -", "gl 0 1/0 1 1", "g1 trap 0 1 0 1 -1 1 0", "g1 simp 0 1 0 1 2 0 1", "g1 trap 0 1 1/2 1/2 2 1 0",
                 "tens trap 1 0 - - - - -"]:
        m = drv.ask(line)
        ctx.count("malformed_lines")
        if m != "bad-op":
            ctx.corr_break("C08/malformed-line-accepted", {"line": line}, {"model": m})


def run(ctx):
    thorough = ctx.tier == "thorough"
    ctx.rule = ("local grid families (Trapezoidal incl. boundary off / modified basis, Simpson, ClenshawCurtis, Leja, GaussLegendre, "
                "Lagrange p1-5, BSpline p1,3,5) x dim 1-3 x random dyadic boxes [a,b] x dyadic sub-boxes touching the global boundary on "
                "no/lower/upper/both sides per dimension x level vectors (<=4 quick, <=5 thorough; grids of <= 4000 points) x boundary flag; "
                "each grid object is reused for 3 areas; a case = (family, flags, p, box, sub-box, level vector), distinct by all of these, "
                "non-trivial if the level vector is not all-zero or the sub-box is a proper one")
    ctx.assumptions = [
        "leggauss(n), cos, fmin (Leja points), numpy.linalg.inv/solve are not modelled: Clenshaw-Curtis, Leja, Gauss-Legendre, "
        "Lagrange and B-spline families are validated by the oracle only (no theorem)",
        "isclose(start, a) / end == b are modelled as equality of rationals (dyadic inputs)",
    ]
    drv = ctx.driver("drv_c08")
    malformed_stream(ctx, drv)
    rng = ctx.rng
    n_groups = 1500 if not thorough else 14000
    budget = 80 if not thorough else 500
    # a deterministic sweep first: every family x boundary flag x touching pattern x levels 0..3 in 1-D
    sweep = []
    for fam in FAMILIES:
        for bd in ([True, False] if fam != "GaussLegendre" else [True]):
            for mdf in ([False, True] if (fam == "Trapezoidal" and not bd) else [False]):
                for pat in ["both", "lower", "upper", "none"]:
                    for p in ([2, 3] if fam == "Lagrange" else [3] if fam == "BSpline" else [None]):
                        A, B = ([Fr(0)], [Fr(2)]) if rng.random() < 0.5 else gen_box(rng, 1)
                        S, E = gen_subbox(rng, A, B, pat)
                        for l in range(0, 6 if fam == "Leja" else 4):
                            for integ in ([None, "old"] if fam in OLD_INTEGRATOR_FAMILIES else [None]):
                                c = {"family": fam, "dim": 1, "a": [fstr(A[0])], "b": [fstr(B[0])], "start": [fstr(S[0])],
                                     "end": [fstr(E[0])], "lv": [l], "boundary": bd, "modified": mdf}
                                if p is not None:
                                    c["p"] = p
                                if integ is not None:
                                    c["integrator"] = integ
                                sweep.append(c)
    k = 0
    for c in sweep:
        ok = run_case(ctx, drv, c, rng, thorough)
        account(ctx, c, k)
        k += 1
    for g in range(n_groups):
        if ctx.time_left(budget) < 0:
            ctx.count("stopped_by_time_budget")
            break
        case = gen_case(rng, thorough)
        grid = None
        history = []
        for rep in range(3):     # the same grid object serves several areas, as in the extend-split strategy
            if rep > 0:
                A = [fr(x) for x in case["a"]]
                B = [fr(x) for x in case["b"]]
                S, E = gen_subbox(rng, A, B)
                case = dict(case, start=[fstr(x) for x in S], end=[fstr(x) for x in E],
                            lv=gen_levels(rng, case["dim"], max(case["lv"]) if max(case["lv"]) > 0 else 1, case["family"],
                                          OLD_CAP if case.get("integrator") else None))
            c = canon(case)
            if rng.random() < 0.3:
                c["mode"] = "integrate-first"
                ctx.count("mode_integrate_first")
            if grid is None:
                history = []
            if history:
                c["history"] = list(history)
            if grid is None:
                try:
                    grid = make_grid(c)
                except Exception as e:  # noqa: BLE001
                    ctx.violation("count", {"family": c["family"], "boundary": c["boundary"], "kind": "constructor-exception:" + type(e).__name__},
                                  c, {"exception": repr(e)[:300]})
                    break
            c_run = dict(c, _grid=grid)
            ok = run_case(ctx, drv, c_run, rng, thorough)
            history.append({"start": c["start"], "end": c["end"], "lv": c["lv"], "mode": c.get("mode", "set-area")})
            if not ok:
                ctx.count("failing_cases")
                grid = None          # continue with a fresh object
            account(ctx, c, k)
            k += 1
        if (len(ctx.violations) >= 40) or len(ctx.corr_breaks) >= 40:
            break


def account(ctx, c, k):
    ctx.count("family_" + c["family"])
    ctx.count("integrator_%s_%s" % (c.get("integrator") or "default", c["family"]))
    ctx.count("dim_%d" % c["dim"])
    ctx.count("boundary_%s" % ("on" if c["boundary"] else "off") + ("_modified" if c.get("modified") else ""))
    for d in range(c["dim"]):
        ctx.count("touch_" + touch(c, d))
        ctx.count("level_%d" % c["lv"][d])
    nontriv = any(l > 0 for l in c["lv"]) or any(touch(c, d) != "both" for d in range(c["dim"]))
    ctx.case(canon(c), nontrivial=nontriv, sample=canon(c) if k in (0, 200) else None)


def replay(ctx, rp):
    import random
    case = canon(rp["case"])
    drv = ctx.driver("drv_c08")
    print("replay case:", case)
    ok = run_case(ctx, drv, case, random.Random(0), thorough=True, verbose=True)
    known = [(fid, n) for fid, (f, n) in ctx.known_hits.items()]
    if known:
        print("  matched known finding(s):", known)
        ok = False
    print("replay: %s" % ("property holds and model agrees on this case" if ok else "REPRODUCED"))
    for d in ctx._drivers:
        d.close()
    return 0 if ok else 1
