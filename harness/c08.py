"""C08 -- local tensor quadrature grids honour their exactness and point contracts.

Correspondence: TrapezoidalGrid (boundary on/off, modified basis) and SimpsonGrid (boundary on/off) of the real code
vs. Model/Quad (announced counts, point list, weight list, monomial moments) on random dyadic sub-boxes; Gauss-Legendre
affine map and Leja weights (certified exact solve) vs. the model on the implementation's own reference data.
Oracle: the clauses of the property evaluated on the implementation for ALL local families (trapezoid, Simpson,
Clenshaw-Curtis, Leja, Gauss-Legendre, Lagrange, B-spline, and MixedGrid tensors of different 1-D families with
per-dimension boundary flags): count, containment, sum of weights, exactness up to the nominal degree, and the
trapezoidal boundary-off clause.

Reading (DESIGN.md C08): the sum / exactness clauses speak of the COMPLETE rule (boundary on, modified basis, or
Gauss-Legendre which has no boundary flag); with boundary off only count + containment (+ for the trapezoidal family
the literal "drops exactly the global-boundary points" clause) are demanded; Leja keeps an interpolatory rule on the
points it returns, so its sum / exactness clauses are checked for both flags.  The hierarchical families (Lagrange,
B-spline) are read through `grid.integrate` (their `weights` pair with surpluses).

Hardening (catalogue a-l of AGENT_PROMPT_COMMON.md): every grid object serves several areas (history in the case);
queries are repeated and the returned arrays overwritten before re-querying; a sibling grid (other flags / family, same
box and levels) works before and between the main grid's calls; argument arrays are reused in place / passed as lists,
tuples, numpy scalars; boundary flags as bool / numpy.bool_ / 0-1, per dimension through `set_boundaries` and MixedGrid;
boxes far from the origin and tiny intervals (dyadic); areas built from the grid's own coordinates; every public read
route (getWeight/getCoordinate/get_num_points/levelToNumPointsWithBoundary/get_boundaries) is compared with
get_points_and_weights; `integrate` is observed at its use site (the points at which f is evaluated)."""
import itertools
import math
from fractions import Fraction as Fr

import numpy as np

from common import frac_str, parse_frac

FAMILIES = ["Trapezoidal", "Simpson", "ClenshawCurtis", "Leja", "GaussLegendre", "Lagrange", "BSpline"]
HIER = ("Lagrange", "BSpline")
MODELLED = {"Trapezoidal": "trap", "Simpson": "simp"}
MIXABLE = ["Trapezoidal", "Simpson", "ClenshawCurtis", "Leja", "GaussLegendre"]     # 1-D classes a MixedGrid is built from
TOL = 1e-9


# ------------------------------------------------------------------------------------------------ helpers
def fr(x):
    return x if isinstance(x, Fr) else Fr(x)


def fstr(x):
    return frac_str(fr(x))


def vecstr(v):
    return ",".join(fstr(x) for x in v)


def flags_of(case):
    """per-dimension boundary flags (uniform unless the case carries `bflags`)"""
    return [bool(x) for x in case["bflags"]] if case.get("bflags") else [bool(case["boundary"])] * case["dim"]


def fams_of(case):
    return list(case["fams"]) if case["family"] == "Mixed" else [case["family"]] * case["dim"]


def conv_flag(flag, btype):
    """the same truth value as python bool / numpy.bool_ / int 0-1"""
    if btype == "np":
        return np.bool_(flag)
    if btype == "int":
        return 1 if flag else 0
    return bool(flag)


def make_grid(case):
    from sparseSpACE import Grid as G
    fam = case["family"]
    dim = case["dim"]
    a = np.array([float(fr(x)) for x in case["a"]])
    b = np.array([float(fr(x)) for x in case["b"]])
    flags = flags_of(case)
    btype = case.get("btype", "bool")
    uniform = all(f == flags[0] for f in flags)
    via_setter = case.get("route") == "set_boundaries"
    assert uniform or via_setter or fam == "Mixed", "per-dimension flags need set_boundaries or MixedGrid"
    bd = conv_flag(True if via_setter else flags[0], btype)
    # constructor option `integrator`: None -> IntegratorArbitraryGridScalarProduct (default), 'old' -> the point-by-point
    # IntegratorArbitraryGrid; every other value trips `assert False` in the constructors
    kw = {"integrator": case["integrator"]} if case.get("integrator") is not None else {}
    if fam == "Mixed":
        grids = []
        for d, f1 in enumerate(case["fams"]):
            fl = conv_flag(flags[d], btype)
            if f1 == "Trapezoidal":
                grids.append(G.TrapezoidalGrid1D(a=a[d], b=b[d], boundary=fl, modified_basis=False))
            elif f1 == "Simpson":
                grids.append(G.SimpsonGrid1D(a=a[d], b=b[d], boundary=fl))
            elif f1 == "ClenshawCurtis":
                grids.append(G.ClenshawCurtisGrid1D(a=a[d], b=b[d], boundary=fl))
            elif f1 == "Leja":
                grids.append(G.LejaGrid1D(a=a[d], b=b[d], boundary=fl))
            elif f1 == "GaussLegendre":
                grids.append(G.GaussLegendreGrid1D(a=a[d], b=b[d], boundary=False))
            else:
                raise ValueError(f1)
        return G.MixedGrid(a, b, grids, **kw)
    if fam == "Trapezoidal":
        g = G.TrapezoidalGrid(a=a, b=b, boundary=bd, modified_basis=bool(case.get("modified", False)), **kw)
    elif fam == "Simpson":
        g = G.SimpsonGrid(a=a, b=b, boundary=bd, **kw)
    elif fam == "ClenshawCurtis":
        g = G.ClenshawCurtisGrid(a=a, b=b, boundary=bd, **kw)
    elif fam == "Leja":
        g = G.LejaGrid(a=a, b=b, boundary=bd, **kw)
    elif fam == "GaussLegendre":
        g = G.GaussLegendreGrid(a=a, b=b)
    elif fam == "Lagrange":
        g = G.LagrangeGrid(a=a, b=b, boundary=bd, p=int(case["p"]))
    elif fam == "BSpline":
        g = G.BSplineGrid(a=a, b=b, boundary=bd, p=int(case["p"]))
    else:
        raise ValueError(fam)
    if via_setter:       # the public setter as an alternative route to the same configuration
        g.set_boundaries([conv_flag(f, btype) for f in flags])
    return g


def with_boundary_count(fam1, level):
    """`levelToNumPointsWithBoundary` of one dimension"""
    if fam1 == "Leja":
        return 2 if level == 0 else 2 * (level + 1) - 1
    return 2 ** level + 1


def nominal_degree(case, n, d=0):
    """the degree the property text promises for n points in one dimension"""
    fam = fams_of(case)[d]
    if fam == "Trapezoidal":
        return 1
    if fam == "Simpson":
        return 3 if n >= 3 else 1          # at level 0 the class itself falls back to the trapezoid (reading)
    if fam in ("ClenshawCurtis", "Leja"):
        return n - 1
    if fam == "GaussLegendre":
        return 2 * n - 1
    return min(int(case["p"]), n - 1)


def touch(case, d):
    lo = fr(case["start"][d]) == fr(case["a"][d])
    hi = fr(case["end"][d]) == fr(case["b"][d])
    return "both" if (lo and hi) else "lower" if lo else "upper" if hi else "none"


_FUNCTION_BASE = []
_LEJA_REF = {}


def mono_function(ks, centers, scales):
    """Function object  x -> prod_d ((x_d - c_d)/s_d)^k_d  for grid.integrate"""
    if not _FUNCTION_BASE:
        from sparseSpACE.Function import Function

        class Mono(Function):
            def __init__(self, ks, cs, ss):
                super().__init__()
                self.ks, self.cs, self.ss = np.array(ks, dtype=float), np.array(cs, dtype=float), np.array(ss, dtype=float)

                self.seen = []          # use-site observation: every point the integrator evaluates f at

            def output_length(self):
                return 1

            def eval(self, coordinates):
                self.seen.append(tuple(float(c) for c in coordinates))
                x = (np.asarray(coordinates, dtype=float) - self.cs) / self.ss
                return float(np.prod(x ** self.ks))

            def eval_vectorized(self, coordinates):
                arr = np.asarray(coordinates, dtype=float)
                self.seen.extend(tuple(float(c) for c in row) for row in arr.reshape((-1, arr.shape[-1])))
                x = (arr - self.cs) / self.ss
                return np.prod(x ** self.ks, axis=-1).reshape((*np.shape(coordinates)[:-1], 1))

        _FUNCTION_BASE.append(Mono)
    return _FUNCTION_BASE[0](ks, centers, scales)


def exact_moment(start, end, ks, centers, scales):
    """exact  int_box prod ((x-c)/s)^k  as a Fraction"""
    r = Fr(1)
    for s, e, k, c, sc in zip(start, end, ks, centers, scales):
        lo, hi = (s - c) / sc, (e - c) / sc
        r *= sc * (hi ** (k + 1) - lo ** (k + 1)) / (k + 1)
    return r


def exponent_sets(rng, degs, thorough):
    """exponent vectors to test: every axis monomial up to the nominal degree, the top corner, random mixed ones"""
    dim = len(degs)
    out = {tuple([0] * dim), tuple(degs)}
    for d in range(dim):
        for k in range(degs[d] + 1):
            v = [0] * dim
            v[d] = k
            out.add(tuple(v))
    for _ in range(6 if not thorough else 12):
        out.add(tuple(rng.randint(0, degs[d]) for d in range(dim)))
    return sorted(out)


# ------------------------------------------------------------------------------------------------ one case
def call_args(case, grid, S, E, lv):
    """the arguments of ONE request in the container types the case prescribes.  `reuse_buffers`: a single pair of numpy
    arrays per grid object, overwritten in place for every request (a caller that recycles its arrays, catalogue c)"""
    start = [float(x) for x in S]
    end = [float(x) for x in E]
    at = case.get("argtype", "array")
    if case.get("reuse_buffers"):
        buf = getattr(grid, "_verif_buf", None)
        if buf is None or len(buf[0]) != len(start):
            buf = (np.zeros(len(start)), np.zeros(len(start)), np.zeros(len(start), dtype=np.int64))
            grid._verif_buf = buf
        np.copyto(buf[0], start)
        np.copyto(buf[1], end)
        np.copyto(buf[2], np.array(lv, dtype=np.int64))
        return buf[0], buf[1], buf[2]
    if at == "list":
        s_arg, e_arg = list(start), list(end)
    elif at == "tuple":
        s_arg, e_arg = tuple(start), tuple(end)
    elif at == "npscalar":
        s_arg, e_arg = [np.float64(x) for x in start], [np.float64(x) for x in end]
    else:
        s_arg, e_arg = np.array(start), np.array(end)
    lt = case.get("lvtype", "list")
    lv_arg = tuple(lv) if lt == "tuple" else np.array(lv, dtype=np.int64) if lt == "nparray" else list(lv)
    return s_arg, e_arg, lv_arg


def const_function(dim):
    return mono_function(tuple([0] * dim), np.zeros(dim), np.ones(dim))


def sibling_work(sib, scase):
    """one request on the sibling grid; returns its (points, weights) snapshot"""
    Ss = [fr(x) for x in scase["start"]]
    Es = [fr(x) for x in scase["end"]]
    s_arg, e_arg, lv_arg = call_args(scase, sib, Ss, Es, [int(x) for x in scase["lv"]])
    sib.setCurrentArea(s_arg, e_arg, lv_arg)
    P, W = sib.get_points_and_weights()
    snap = ([tuple(float(x) for x in p) for p in P], [float(w) for w in W])
    try:
        sib.integrate(const_function(scase["dim"]), lv_arg, s_arg, e_arg)
    except Exception:  # noqa: BLE001 -- the sibling is only a disturbance here; it is checked when it is the main grid
        pass
    return snap


def run_case(ctx, drv, case, rng, thorough=False, verbose=False):
    """returns True iff no violation / disagreement was reported for this case"""
    fam = case["family"]
    dim = case["dim"]
    flags = flags_of(case)
    fams = fams_of(case)
    uniform = all(f == flags[0] for f in flags)
    bd = all(flags)
    md = bool(case.get("modified", False))
    lv = [int(x) for x in case["lv"]]
    A = [fr(x) for x in case["a"]]
    B = [fr(x) for x in case["b"]]
    S = [fr(x) for x in case["start"]]
    E = [fr(x) for x in case["end"]]
    start = np.array([float(x) for x in S])
    end = np.array([float(x) for x in E])
    vol = float(np.prod(end - start))
    base_tags = {"family": fam, "boundary": (flags[0] if uniform else "per-dimension"), "modified": md, "dim": dim}
    if fam in HIER:
        base_tags["p"] = int(case["p"])
    if case.get("integrator") is not None:
        base_tags["integrator"] = case["integrator"]
    ok = True
    state = {"viol": False, "corr": False}
    # Leja with boundary off builds the interpolatory rule on the points it keeps (announced = returned since the repair
    # of level_to_num_points_1d), so it is a complete rule of nominal degree n-1 for its n points
    complete = all(flags[d] or md or fams[d] in ("GaussLegendre", "Leja") for d in range(dim))
    pub = canon(case)

    def viol(probe, extra, detail):
        nonlocal ok
        ok = False
        state["viol"] = True
        tags = dict(base_tags)
        tags.update(extra)
        detail = dict(detail, case_index=ctx.evaluations)      # position of the failing case in the run (0 = first)
        ctx.violation(probe, tags, pub, detail)
        if verbose:
            print("  oracle:", probe, tags, detail)

    def corr(obs, impl, model):
        nonlocal ok
        ok = False
        state["corr"] = True
        ctx.corr_break("C08/" + obs, pub, {"impl": str(impl)[:400], "model": str(model)[:400]})
        if verbose:
            print("  disagreement:", obs, "impl", str(impl)[:300], "model", str(model)[:300])

    # ---------------- implementation: the observe_at calls
    grid = case.get("_grid")
    sib = case.get("_sibling")
    scase = case.get("sibling")
    exc = None
    P = W = N = None
    sib_snap = None
    s_arg = e_arg = lv_arg = None
    try:
        if scase is not None and sib is None:
            try:
                sib = make_grid(scase)
            except Exception:  # noqa: BLE001
                sib = None
        if grid is None:
            grid = make_grid(case)
            for h in case.get("history", []):      # replay: bring a fresh object into the state the failing run had
                hS = [fr(x) for x in h["start"]]
                hE = [fr(x) for x in h["end"]]
                hcase = dict(case, argtype=h.get("argtype", "array"), lvtype=h.get("lvtype", "list"))
                try:
                    hs, he, hl = call_args(hcase, grid, hS, hE, [int(x) for x in h["lv"]])
                    if h.get("mode") == "integrate-first":
                        grid.integrate(const_function(dim), hl, hs, he)
                    else:
                        grid.setCurrentArea(hs, he, hl)
                        grid.get_points_and_weights()
                except Exception:  # noqa: BLE001
                    pass
        if sib is not None:       # a sibling object (other flags / family, same box and levels) works BEFORE ...
            try:
                sib_snap = sibling_work(sib, scase)
            except Exception:  # noqa: BLE001 -- a sibling that cannot serve its own request is judged when it is the main grid
                sib = None
                ctx.count("sibling_raised")
        s_arg, e_arg, lv_arg = call_args(case, grid, S, E, lv)
        if case.get("mode") == "integrate-first":
            # let `integrate` itself set the area (as the combination loop does), then read the grid WITHOUT refreshing it
            try:
                grid.integrate(const_function(dim), lv_arg, s_arg, e_arg)
            except Exception:  # noqa: BLE001 -- classified by the explicit calls below
                grid.setCurrentArea(s_arg, e_arg, lv_arg)
        else:
            grid.setCurrentArea(s_arg, e_arg, lv_arg)
        if sib is not None and case.get("sibling_between", True):     # ... and BETWEEN the main grid's calls
            try:
                other = make_grid(scase) if scase.get("fresh_between") else sib
                snap_b = sibling_work(other, scase)
                if other is sib:
                    sib_snap = snap_b
            except Exception:  # noqa: BLE001
                sib = None
                ctx.count("sibling_raised")
        P_raw, W_raw = grid.get_points_and_weights()
        N_raw = grid.levelToNumPoints(lv_arg)
        N = [int(x) for x in N_raw]
        P = [tuple(float(x) for x in p) for p in P_raw]
        W = [float(w) for w in W_raw]
    except Exception as e:  # noqa: BLE001 -- classified below
        exc = e
    model_line = None
    if fam in MODELLED and uniform and drv is not None:
        model_line = drv.ask("tens %s %d %d %s %s %s %s %s" % (MODELLED[fam], bd, md, vecstr(A), vecstr(B), vecstr(S), vecstr(E),
                                                             ",".join(str(x) for x in lv)))
    if exc is not None:
        # which dimension raises?  (only used to tag the finding)
        dbad, tch = None, "?"
        if grid is not None:
            for d in range(dim):
                try:
                    grid.grids[d].set_current_area(start[d], end[d], lv[d])
                except Exception:  # noqa: BLE001
                    dbad = d
                    break
        if dbad is not None:
            tch = touch(case, dbad)
        ctx.count("impl_exception_" + type(exc).__name__)
        viol("count", {"kind": "exception:" + type(exc).__name__, "touch": tch,
                       "level0": (lv[dbad] == 0) if dbad is not None else None},
             {"exception": repr(exc)[:300], "dimension": dbad})
        if model_line is not None:
            corr("exception-vs-model", repr(exc)[:200], model_line[:200])
        case["_outcome"] = 2
        return ok

    # ---------------- (a, c) repeated queries give the same answer; the returned containers are not the grid's state;
    #                         the caller's arguments are left as they were
    if case.get("requery", True):
        try:
            if isinstance(W_raw, np.ndarray) and W_raw.size:
                W_raw *= -3.0
            if isinstance(P_raw, list):
                del P_raw[:]
            if isinstance(N_raw, np.ndarray) and N_raw.size:
                N_raw[:] = 0
            P2, W2 = grid.get_points_and_weights()
            N2 = [int(x) for x in grid.levelToNumPoints(lv_arg)]
            P2 = [tuple(float(x) for x in p) for p in P2]
            W2 = [float(w) for w in W2]
            if P2 != P or W2 != W or N2 != N:
                viol("requery", {"kind": "second-answer-differs"},
                     {"first": {"N": N, "points": P[:4], "weights": W[:4]}, "second": {"N": N2, "points": P2[:4], "weights": W2[:4]}})
        except Exception as e:  # noqa: BLE001
            viol("requery", {"kind": "exception:" + type(e).__name__}, {"exception": repr(e)[:300]})
    if ([float(x) for x in s_arg] != [float(x) for x in S] or [float(x) for x in e_arg] != [float(x) for x in E]
            or [int(x) for x in lv_arg] != lv):
        viol("requery", {"kind": "arguments-modified"}, {"start": [float(x) for x in s_arg], "end": [float(x) for x in e_arg],
                                                         "levelvec": [int(x) for x in lv_arg]})
    # ---------------- (b) the sibling still holds its own grid after the main grid worked
    if sib is not None and sib_snap is not None:
        try:
            Ps, Ws = sib.get_points_and_weights()
            snap2 = ([tuple(float(x) for x in p) for p in Ps], [float(w) for w in Ws])
            if snap2 != sib_snap:
                viol("sibling", {"kind": "sibling-changed"}, {"before": [x[:4] for x in sib_snap], "after": [x[:4] for x in snap2]})
        except Exception as e:  # noqa: BLE001
            viol("sibling", {"kind": "exception:" + type(e).__name__}, {"exception": repr(e)[:300]})

    # ---------------- (2a) count clause
    announced = int(np.prod(N)) if len(N) else 0
    cnt_ok = True
    if len(P) != announced or len(W) != len(P):
        cnt_ok = False
        dbad, kind = None, "points-vs-announced" if len(P) != announced else "weights-vs-points"
        for d in range(dim):
            nc, nw = len(grid.coordinate_array[d]), len(grid.weights[d])
            if nc != N[d] or nw != nc:
                dbad = d
                kind = "points-vs-announced" if nc != N[d] else "weights-vs-points"
                break
        viol("count", {"kind": kind, "touch": touch(case, dbad) if dbad is not None else "?",
                       "level0": (lv[dbad] == 0) if dbad is not None else None},
             {"announced": N, "points": len(P), "weights": len(W), "dimension": dbad})
    # ---------------- (2b) containment
    for p in P:
        if len(p) != dim or any(not (start[d] - 1e-12 * max(1.0, abs(start[d])) <= p[d] <= end[d] + 1e-12 * max(1.0, abs(end[d]))) for d in range(dim)):
            viol("inside", {}, {"point": p, "start": list(start), "end": list(end)})
            break
    # per-dimension coordinates ascending (the cross product structure relies on it; no family returns duplicates)
    for d in range(dim):
        c = [float(x) for x in grid.coordinate_array[d]]
        if any(c[i] >= c[i + 1] for i in range(len(c) - 1)):
            viol("inside", {"kind": "not-strictly-ascending"}, {"dimension": d, "coords": c[:12]})
            break

    # ---------------- (d) every public read route tells the same story as get_points_and_weights
    if cnt_ok and case.get("routes", True):
        try:
            bad = []
            if int(grid.get_num_points()) != len(P):
                bad.append(("get_num_points", int(grid.get_num_points()), len(P)))
            nwb = [int(x) for x in grid.levelToNumPointsWithBoundary(lv_arg)]
            if nwb != [with_boundary_count(fams[d], lv[d]) for d in range(dim)]:
                bad.append(("levelToNumPointsWithBoundary", nwb))
            if [int(x) for x in grid.levelToNumPoints(lv_arg)] != N:
                bad.append(("levelToNumPoints-after-WithBoundary", [int(x) for x in grid.levelToNumPoints(lv_arg)], N))
            if fam in HIER:
                got_p = [getattr(g1d, "p", None) for g1d in grid.grids]
                if any(q != int(case["p"]) for q in got_p):
                    bad.append(("order-p-not-forwarded-to-1D-grids", got_p, int(case["p"])))
            gb = [bool(x) for x in grid.get_boundaries()]
            want = [False if fams[d] == "GaussLegendre" else flags[d] for d in range(dim)]
            if gb != want:
                bad.append(("get_boundaries", gb, want))
            for d in range(dim):
                if [float(x) for x in grid.get_coordinates_dim(d)] != [float(x) for x in grid.get_coordinates()[d]]:
                    bad.append(("get_coordinates_dim", d))
            if announced > 0:
                for _ in range(3):
                    idx = [rng.randrange(N[d]) for d in range(dim)]
                    flat = 0
                    for d in range(dim):
                        flat = flat * N[d] + idx[d]
                    wv = float(grid.getWeight(idx))
                    cv = tuple(float(x) for x in grid.getCoordinate(idx))
                    if cv != P[flat] or abs(wv - W[flat]) > 1e-14 * max(abs(W[flat]), 1e-300):
                        bad.append(("getWeight/getCoordinate", idx, wv, W[flat], cv, P[flat]))
                        break
            if bad:
                viol("routes", {"kind": str(bad[0][0])}, {"mismatch": [str(x) for x in bad[:3]]})
        except Exception as e:  # noqa: BLE001
            viol("routes", {"kind": "exception:" + type(e).__name__}, {"exception": repr(e)[:300]})

    # ---------------- (1) correspondence with the model (trapezoid, Simpson)
    if model_line is not None:
        impl_N = "N [" + ",".join(str(x) for x in N) + "]"
        if fam == "Trapezoidal":   # dyadic inputs, exact arithmetic: compare canonical strings
            impl = "%s P [%s] W [%s]" % (impl_N, ",".join("[" + ",".join(fstr(x) for x in p) + "]" for p in P), ",".join(fstr(w) for w in W))
            if impl != model_line:
                corr("tens", impl, model_line)
        else:
            try:
                mN, rest = model_line.split(" P ")
                mP, mW = rest.split(" W ")
                mP = [tuple(float(parse_frac(x)) for x in q.split(",")) for q in mP.strip("[]").split("],[")] if mP != "[]" else []
                mW = [float(parse_frac(x)) for x in mW.strip("[]").split(",")] if mW != "[]" else []
                same = (mN == impl_N and mP == P and len(mW) == len(W)
                        and all(abs(x - y) <= 1e-13 * max(1.0, abs(y)) for x, y in zip(W, mW)))
            except Exception:  # noqa: BLE001
                same = False
            if not same:
                corr("tens", "%s P %s W %s" % (impl_N, P[:8], W[:8]), model_line)
    elif drv is not None and (fam == "Mixed" or (fam in MODELLED and not uniform)):
        # per-dimension flags / MixedGrid: the 1-D model of every trapezoidal or Simpson dimension
        for d in range(dim):
            if fams[d] not in MODELLED:
                continue
            m = drv.ask("g1 %s %s %s %s %s %d %d %d" % (MODELLED[fams[d]], fstr(A[d]), fstr(B[d]), fstr(S[d]), fstr(E[d]), lv[d],
                                                     flags[d], md and fams[d] == "Trapezoidal"))
            cP = [float(x) for x in grid.coordinate_array[d]]
            cW = [float(x) for x in grid.weights[d]]
            try:
                headp, rest = m.split(" P ")
                mP, mW = rest.split(" W ")
                mn = int(headp.split()[0].split("=")[1])
                mP = [float(parse_frac(x)) for x in mP.strip("[]").split(",")] if mP != "[]" else []
                mW = [float(parse_frac(x)) for x in mW.strip("[]").split(",")] if mW != "[]" else []
                same = (mn == N[d] and mP == cP and len(mW) == len(cW)
                        and all(abs(x - y) <= 1e-13 * max(abs(y), 1e-300) for x, y in zip(cW, mW)))
            except Exception:  # noqa: BLE001
                same = False
            if not same:
                corr("g1", {"dim": d, "n": N[d], "coords": cP[:10], "weights": cW[:10]}, m[:400])
                break

    # Gauss-Legendre: the affine map [-1,1] -> [start,end] of the code vs. the model (leggauss output as exact input)
    if "GaussLegendre" in fams and drv is not None and cnt_ok:
        import numpy.polynomial.legendre as legendre
        for d in range(dim):
            if fams[d] != "GaussLegendre":
                continue
            xi, om = legendre.leggauss(N[d])
            m = drv.ask("gl %s %s %s %s" % (fstr(S[d]), fstr(E[d]), ",".join(fstr(float(x)) for x in xi), ",".join(fstr(float(x)) for x in om)))
            try:
                mP, mW = m[2:].split(" W ")
                mP = [float(parse_frac(x)) for x in mP.strip("[]").split(",")]
                mW = [float(parse_frac(x)) for x in mW.strip("[]").split(",")]
                cP = [float(x) for x in grid.coordinate_array[d]]
                cW = [float(x) for x in grid.weights[d]]
                scale = max(abs(start[d]), abs(end[d]), 1e-300)
                same = (len(mP) == len(cP) and len(mW) == len(cW)
                        and all(abs(x - y) <= 1e-13 * scale for x, y in zip(cP, mP))
                        and all(abs(x - y) <= 1e-13 * max(abs(y), 1e-300) for x, y in zip(cW, mW)))
            except Exception:  # noqa: BLE001
                same = False
            if not same:
                corr("gl-affine-map", {"dim": d, "coords": [float(x) for x in grid.coordinate_array[d]][:6]}, m[:300])
                break

    # Leja: the weights of the code (first row of the inverse of the Legendre collocation matrix, times the length) vs. the
    # model's certified exact solution of the linear system on the implementation's OWN reference points
    if "Leja" in fams and drv is not None and cnt_ok:
        for d in range(dim):
            if fams[d] != "Leja":
                continue
            g1 = grid.grids[d]
            try:     # reference points of the implementation's own construction (fmin), taken from an INDEPENDENT LejaGrid1D on
                     # the unit interval (never from the object under test: reading its internals would hide or disturb cached
                     # state); they depend on the point count only and are computed once per harness run; the kept slice follows
                     # the tested grid's border indices
                nwb = int(g1.num_points_with_boundary)
                if nwb not in _LEJA_REF:
                    from sparseSpACE import Grid as G
                    ref = G.LejaGrid1D(a=0.0, b=1.0, boundary=True)
                    ref.set_current_area(0.0, 1.0, int(g1.level))
                    _LEJA_REF[nwb] = [float(x) for x in ref.coords]
                    assert len(_LEJA_REF[nwb]) == nwb
                ts = _LEJA_REF[nwb][int(g1.lowerBorder):int(g1.upperBorder)]
            except Exception:  # noqa: BLE001
                ts = [(float(x) - start[d]) / (end[d] - start[d]) for x in grid.coordinate_array[d]]
            if not ts:
                continue
            m = drv.ask("leja %s %s %s" % (fstr(S[d]), fstr(E[d]), ",".join(fstr(t) for t in ts)))
            ctx.count("leja_model_solves")
            try:
                body, leg = m.rsplit(" legendre=", 1)
                mP, mW = body[2:].split(" W ")
                mP = [float(parse_frac(x)) for x in mP.strip("[]").split(",")]
                mW = [float(parse_frac(x)) for x in mW.strip("[]").split(",")]
                cP = [float(x) for x in grid.coordinate_array[d]]
                cW = [float(x) for x in grid.weights[d]]
                scale = max(abs(start[d]), abs(end[d]), 1e-300)
                wscale = max([abs(x) for x in mW] + [1e-300])
                same = (leg == "ok" and len(mP) == len(cP) and len(mW) == len(cW)
                        and all(abs(x - y) <= 1e-12 * scale for x, y in zip(cP, mP))
                        and all(abs(x - y) <= TOL * wscale for x, y in zip(cW, mW)))
            except Exception:  # noqa: BLE001
                same = False
            if not same:
                corr("leja-weights", {"dim": d, "ref_points": ts[:12], "coords": [float(x) for x in grid.coordinate_array[d]][:12],
                                      "weights": [float(x) for x in grid.weights[d]][:12]}, m[:600])
                break

    def seen_ok(f, what):
        """(j) use-site: the integrator evaluated f exactly at the returned points (the point-by-point integrator may skip
        zero weights)"""
        seen = sorted(set(f.seen))
        if case.get("integrator") == "old":
            want = sorted(set(p for p, w in zip(P, W) if w != 0))
            good = set(want) <= set(seen) <= set(P)
        else:
            good = seen == sorted(set(P))
        if not good:
            viol("integrate", {"kind": "evaluation-points"}, {"call": what, "evaluated": seen[:6], "returned_points": sorted(set(P))[:6],
                                                              "n_evaluated": len(seen), "n_points": len(P)})
        return good

    # ---------------- (2c) complete rule: sum of weights, exactness, integrate
    n_moments = 0
    Pa = np.array(P, dtype=float).reshape((len(P), dim))
    Wa = np.array(W, dtype=float)
    if complete and cnt_ok and announced > 0:
        degs = [nominal_degree(case, N[d], d) for d in range(dim)]
        mids = [(S[d] + E[d]) / 2 for d in range(dim)]
        halves = [(E[d] - S[d]) / 2 for d in range(dim)]
        if fam not in HIER:
            sw = float(np.sum(Wa))
            if abs(sw - vol) > TOL * vol:
                viol("sum-weights", {}, {"sum": sw, "volume": vol})
        exps = exponent_sets(rng, degs, thorough)
        # hierarchical Lagrange basis: a level-l basis function has l+2 knots (its ancestors), so the polynomial degree the
        # construction can reach is min(p, l+1); the property text promises min(p, n-1).  Failures on exponents beyond the
        # hierarchy depth are tagged so that they can be told apart from any other loss of exactness.
        depth = [min(int(case["p"]), lv[d] + 1) if fam == "Lagrange" else degs[d] for d in range(dim)]
        exps.sort(key=lambda ks: (any(ks[d] > depth[d] for d in range(dim)), ks))
        reported = set()
        for ks in exps:
            beyond = any(ks[d] > depth[d] for d in range(dim))
            for shifted in (True, False):
                if not shifted and max(ks) > 3:
                    continue          # plain monomials only up to degree 3 per dimension (conditioning)
                if (beyond, shifted) in reported or (beyond, not shifted) in reported:
                    continue
                cs = mids if shifted else [Fr(0)] * dim
                ss = halves if shifted else [Fr(1)] * dim
                exact = float(exact_moment(S, E, ks, cs, ss))
                csf, ssf = np.array([float(x) for x in cs]), np.array([float(x) for x in ss])
                fv = np.prod(((Pa - csf) / ssf) ** np.array(ks, dtype=float), axis=1)
                scale = max(abs(exact), vol * float(np.max(np.abs(fv))) if len(fv) else 0.0, 1e-300)
                # floating point is not modelled: a node x is stored with an error of about eps*|x|, which moves the shifted
                # monomial ((x-m)/h)^k by k*eps*|x|/h -- only visible on boxes far from the origin (catalogue e)
                cond = sum(ks[d] * max(abs(start[d]), abs(end[d])) / float(halves[d]) for d in range(dim)) if shifted else float(sum(ks))
                tol = TOL * scale + 8 * np.finfo(float).eps * cond * scale
                n_moments += 1
                if fam in HIER:
                    try:
                        f = mono_function(ks, csf, ssf)
                        if rng.random() < 0.2:
                            f.deactivate_caching()       # (l) a rarely used toggle of the integrand object
                        got = float(np.asarray(grid.integrate(f, lv_arg, s_arg, e_arg)).reshape(-1)[0])
                        if n_moments <= 2:
                            seen_ok(f, "integrate(hierarchical)")
                    except Exception as e:  # noqa: BLE001
                        viol("integrate", {"kind": "exception:" + type(e).__name__}, {"exponents": ks, "exception": repr(e)[:300]})
                        reported.add((beyond, shifted))
                        continue
                    probe = "integrate"
                else:
                    got = float(np.dot(Wa, fv))
                    probe = "exactness"
                if abs(got - exact) > tol:
                    reported.add((beyond, shifted))
                    viol(probe, {"degree_max": max(ks), "shifted": shifted, "beyond_depth": beyond},
                         {"exponents": ks, "got": got, "exact": exact, "nominal_degrees": degs, "num_points": N,
                          "hierarchy_depth_degrees": depth})
        # grid.integrate (through whichever integrator the grid was constructed with) agrees with sum w_i f(x_i) of
        # get_points_and_weights and with the closed form: the constant, one mixed monomial, the top nominal degree
        ks_list = [tuple(min(degs[d], 2) for d in range(dim))]
        if case.get("integrator") is not None or rng.random() < (0.25 if "Leja" not in fams else 0.0):
            ks_list += [tuple([0] * dim), tuple(min(degs[d], 3) for d in range(dim))]     # (Leja: every call re-runs fmin)
        for ks in (dict.fromkeys(ks_list) if (fam not in HIER and not state["viol"]) else []):
            csf, ssf = np.zeros(dim), np.ones(dim)
            try:
                f = mono_function(ks, csf, ssf)
                if rng.random() < 0.2:
                    f.deactivate_caching()
                got = float(np.asarray(grid.integrate(f, lv_arg, s_arg, e_arg)).reshape(-1)[0])
                exact = float(exact_moment(S, E, ks, [Fr(0)] * dim, [Fr(1)] * dim))
                fv = np.prod(Pa ** np.array(ks, dtype=float), axis=1)
                ref = float(np.dot(Wa, fv))
                scale = max(abs(exact), vol * float(np.max(np.abs(fv))), 1e-300)
                if abs(got - ref) > TOL * scale or abs(got - exact) > TOL * scale:
                    viol("integrate", {"kind": "value"}, {"exponents": ks, "integrate": got, "sum_w_f": ref, "exact": exact})
                    break
                if not seen_ok(f, "integrate"):
                    break
                # model moment
                if model_line is not None:
                    m = drv.ask("mom %s %d %d %s %s %s %s %s %s" % (MODELLED[fam], bd, md, vecstr(A), vecstr(B), vecstr(S), vecstr(E),
                                                                   ",".join(str(x) for x in lv), ",".join(str(k) for k in ks)))
                    try:
                        mv = float(parse_frac(m))
                        if abs(mv - got) > TOL * scale:
                            corr("mom", got, m)
                    except Exception:  # noqa: BLE001
                        corr("mom", got, m)
            except Exception as e:  # noqa: BLE001
                viol("integrate", {"kind": "exception:" + type(e).__name__}, {"exponents": ks, "exception": repr(e)[:300]})
                break
    elif cnt_ok and announced > 0 and fam not in HIER:
        # incomplete (boundary-off) nodal rule: no closed form is promised, but `integrate` must be the rule it returns:
        # sum w_i f(x_i) over exactly the returned points (use-site observation of the integrator)
        ks = tuple([1] * dim)
        try:
            f = mono_function(ks, np.zeros(dim), np.ones(dim))
            got = float(np.asarray(grid.integrate(f, lv_arg, s_arg, e_arg)).reshape(-1)[0])
            fv = np.prod(Pa ** np.array(ks, dtype=float), axis=1)
            ref = float(np.dot(Wa, fv))
            scale = max(vol * float(np.max(np.abs(fv))), 1e-300)
            if abs(got - ref) > TOL * scale:
                viol("integrate", {"kind": "value-incomplete-rule"}, {"exponents": ks, "integrate": got, "sum_w_f": ref})
            else:
                seen_ok(f, "integrate(incomplete rule)")
        except Exception as e:  # noqa: BLE001
            viol("integrate", {"kind": "exception:" + type(e).__name__}, {"exponents": ks, "exception": repr(e)[:300]})
    ctx.count("moments_checked", n_moments)

    # ---------------- (2d) trapezoidal dimensions with boundary off (plain basis): exactly the global-boundary points of
    #                       those dimensions are dropped, the remaining points and weights are unchanged
    dims_off = [d for d in range(dim) if fams[d] == "Trapezoidal" and not flags[d] and not md]
    if dims_off and cnt_ok:
        on_case = {k: v for k, v in case.items() if k not in ("_grid", "_sibling", "sibling", "history", "mode")}
        on_flags = [True if d in dims_off else flags[d] for d in range(dim)]
        on_case.update(bflags=on_flags, boundary=all(on_flags), modified=False)
        try:
            g_on = make_grid(on_case)
            g_on.setCurrentArea(start, end, lv)
            P_on, W_on = g_on.get_points_and_weights()
            a_f = [float(x) for x in A]
            b_f = [float(x) for x in B]
            expect = [(tuple(float(x) for x in p), float(w)) for p, w in zip(P_on, W_on)
                      if not any(p[d] == a_f[d] or p[d] == b_f[d] for d in dims_off)]
            got = list(zip(P, W))
            if got != expect:
                dbad = None
                for d in dims_off:
                    c_on = [float(x) for x in g_on.coordinate_array[d]]
                    w_on = [float(x) for x in g_on.weights[d]]
                    e_d = [(x, w) for x, w in zip(c_on, w_on) if x != a_f[d] and x != b_f[d]]
                    g_d = list(zip([float(x) for x in grid.coordinate_array[d]], [float(x) for x in grid.weights[d]]))
                    if e_d != g_d:
                        dbad = d
                        break
                viol("trap-boundary-off-drop", {"family": "Trapezoidal", "boundary": False, "container": fam,
                                                "touch": touch(case, dbad) if dbad is not None else "?",
                                                "level0": (lv[dbad] == 0) if dbad is not None else None},
                     {"dimension": dbad, "returned": got[:6], "boundary_on_minus_global_boundary": expect[:6]})
        except Exception as e:  # noqa: BLE001
            viol("trap-boundary-off-drop", {"kind": "exception:" + type(e).__name__}, {"exception": repr(e)[:300]})
    case["_outcome"] = 2 if state["viol"] else 1 if state["corr"] else 0
    return ok


# ------------------------------------------------------------------------------------------------ generators
def gen_box(rng, dim, extreme=False):
    """dyadic global box per dimension (never cubic by construction).  `extreme` (catalogue e): boxes far from the origin
    (|a| / (b - a) up to 10^4, both signs) and tiny or huge intervals (2^-40 .. 2^10), still exactly representable"""
    A, B = [], []
    for _ in range(dim):
        if extreme and rng.random() < 0.8:
            L = Fr(rng.choice([1, 3, 5]), 1) * Fr(2) ** rng.choice([-40, -30, -20, -10, -3, 0, 4, 10])
            a = L * rng.choice([-1, 1]) * rng.choice([0, 1, 7, 100, 1000, 4096, 10000])
        else:
            a = Fr(rng.randint(-8, 8), 4)
            L = Fr(rng.choice([1, 2, 3, 4, 6, 8, 12, 16]), 4)
            if rng.random() < 0.3:
                a, L = Fr(0), Fr(1)      # the unit interval (the only domain Clenshaw-Curtis' boundary logic knows)
        A.append(a)
        B.append(a + L)
    return A, B


def gen_subbox(rng, A, B, pattern=None, deep=False):
    """dyadic sub-box; `deep`: down to 2^-12 of the box (the relative gap to the boundary stays > 1e-8 >> isclose's 1e-9)"""
    S, E = [], []
    for d in range(len(A)):
        L = B[d] - A[d]
        pat = pattern or rng.choice(["both", "lower", "upper", "none", "none"])
        if pat == "both":
            j, i = 0, 0
        else:
            j = rng.randint(1 if pat != "none" else 2, 12 if deep else 4)
            n = 2 ** j
            i = 0 if pat == "lower" else n - 1 if pat == "upper" else rng.randint(1, n - 2)
        S.append(A[d] + L * i / 2 ** j)
        E.append(A[d] + L * (i + 1) / 2 ** j)
    return S, E


OLD_INTEGRATOR_FAMILIES = ("Trapezoidal", "Simpson", "ClenshawCurtis", "Leja", "Mixed")   # constructors with an `integrator` option
OLD_CAP = 700        # the point-by-point integrator is a python loop: keep those grids small
SETTER_FAMILIES = ("Trapezoidal", "Simpson", "ClenshawCurtis", "Leja")                    # boundary flags also through set_boundaries


def gen_levels(rng, dim, lmax, fam, cap=None):
    cap = cap or {1: 4000, 2: 1500, 3: 1200, 4: 900}[dim]
    while True:
        lv = [rng.randint(0, lmax) for _ in range(dim)]
        if rng.random() < 0.25:
            lv[rng.randrange(dim)] = rng.choice([0, 1])     # small levels carry most special cases
        if np.prod([2 ** l + 1 for l in lv]) <= cap:
            return lv


def gen_case(rng, thorough, fam=None):
    fam = fam or rng.choice(["Trapezoidal", "Trapezoidal", "Trapezoidal", "Simpson", "Simpson", "ClenshawCurtis", "Leja", "Leja",
                             "GaussLegendre", "Lagrange", "BSpline", "Mixed", "Mixed"])
    dim = rng.choice([1, 1, 2, 2, 2, 3, 3, 4]) if fam not in HIER else rng.choice([1, 1, 2, 2, 3])
    if fam == "Mixed" and dim == 1:
        dim = 2
    lmax = 5 if thorough else 4
    if dim >= 3:
        lmax = 3
    if dim == 4:
        lmax = 2
    if fam == "Leja":
        lmax = 3 if dim >= 3 else 5      # Leja has negative weights at levels 3 (n=7) and 5 (n=11): keep both in every tier
    integrator = "old" if (fam in OLD_INTEGRATOR_FAMILIES and rng.random() < 0.35) else None
    extreme = rng.random() < 0.3
    A, B = gen_box(rng, dim, extreme)
    S, E = gen_subbox(rng, A, B, deep=extreme)
    lv = gen_levels(rng, dim, lmax, fam, OLD_CAP if integrator else None)
    if fam == "Leja" and rng.random() < 0.5:
        lv[rng.randrange(dim)] = rng.choice([3, 5] if dim < 3 else [3])
    case = {"family": fam, "dim": dim, "a": [fstr(x) for x in A], "b": [fstr(x) for x in B],
            "start": [fstr(x) for x in S], "end": [fstr(x) for x in E], "lv": lv,
            "boundary": rng.random() < 0.6, "modified": False}
    if integrator:
        case["integrator"] = integrator
    if fam == "Trapezoidal" and not case["boundary"] and rng.random() < 0.5:
        case["modified"] = True
    if fam == "GaussLegendre":
        case["boundary"] = True        # no boundary flag: the rule is always complete (tagged as boundary=True)
    if fam == "Lagrange":
        case["p"] = rng.choice([1, 2, 3, 4, 5])
    if fam == "BSpline":
        case["p"] = rng.choice([1, 3, 5])
    # (d) option forwarding: the flag as numpy.bool_ / 0-1, per dimension through MixedGrid or the public setter
    if fam != "GaussLegendre":
        case["btype"] = rng.choice(["bool", "bool", "np", "int"])
    if fam == "Mixed":
        case["fams"] = [rng.choice(MIXABLE) for _ in range(dim)]
        if len(set(case["fams"])) == 1:
            case["fams"][0] = rng.choice([f for f in MIXABLE if f != case["fams"][0]])
        case["bflags"] = [rng.random() < 0.6 for _ in range(dim)]
        if "Leja" in case["fams"]:
            case["lv"] = [min(l, 3) if dim >= 3 else l for l in case["lv"]]
    elif fam in SETTER_FAMILIES and not case["modified"] and rng.random() < 0.3:
        case["route"] = "set_boundaries"
        if dim >= 2 and rng.random() < 0.6:
            case["bflags"] = [rng.random() < 0.5 for _ in range(dim)]
    if case.get("bflags"):
        case["boundary"] = all(case["bflags"])
    # (c, i) how the caller hands over its arguments
    case["argtype"] = rng.choice(["array", "array", "list", "tuple", "npscalar"])
    case["lvtype"] = rng.choice(["list", "list", "tuple", "nparray"])
    if rng.random() < 0.3:
        case["reuse_buffers"] = True
    return case


def gen_sibling(rng, case):
    """(b) a second grid object, alive at the same time: same box, sub-box and level vector (equal keys), different
    configuration -- other boundary flag / basis / order / integrator, or the sibling family sharing the 1-D base class"""
    sib = {k: v for k, v in case.items() if k in ("family", "dim", "a", "b", "start", "end", "lv", "boundary", "modified", "p",
                                                  "fams", "bflags", "btype")}
    fam = case["family"]
    kind = rng.choice(["flag", "flag", "family", "box"])
    if fam == "Mixed":
        sib["bflags"] = [not f for f in case["bflags"]]
        sib["boundary"] = all(sib["bflags"])
    elif kind == "family" or fam == "GaussLegendre":
        twin = {"Trapezoidal": "Simpson", "Simpson": "Trapezoidal", "Lagrange": "BSpline", "BSpline": "Lagrange",
                "ClenshawCurtis": "Trapezoidal", "Leja": "ClenshawCurtis", "GaussLegendre": "Leja"}[fam]
        sib["family"] = twin
        sib["modified"] = False
        sib.pop("bflags", None)
        if twin in HIER:
            sib["p"] = rng.choice([1, 3])
            sib["boundary"] = True
        if twin == "Leja":
            sib["lv"] = [min(l, 2) for l in sib["lv"]]
    else:
        sib.pop("bflags", None)
        if fam in HIER:
            sib["p"] = rng.choice([q for q in ([1, 2, 3, 4, 5] if fam == "Lagrange" else [1, 3, 5]) if q != case["p"]])
        elif fam == "Trapezoidal" and rng.random() < 0.5:
            sib["boundary"], sib["modified"] = False, not case.get("modified", False)
        else:
            sib["boundary"], sib["modified"] = not case["boundary"], False
    if kind == "box" and fam != "Mixed":
        A, B = gen_box(rng, case["dim"])
        S, E = gen_subbox(rng, A, B)
        sib.update(a=[fstr(x) for x in A], b=[fstr(x) for x in B], start=[fstr(x) for x in S], end=[fstr(x) for x in E])
    if rng.random() < 0.3:
        sib["fresh_between"] = True      # a brand-new sibling is constructed between the main grid's calls
    return sib


def feedback_area(rng, case, grid):
    """(i) the next area is built from the grid's OWN coordinates of the previous request (as the refinement does); only
    for the equidistant families, whose coordinates are dyadic"""
    S, E = [], []
    for d in range(case["dim"]):
        c = sorted(set(float(x) for x in grid.get_coordinates_dim(d)))
        lo, hi = float(fr(case["start"][d])), float(fr(case["end"][d]))
        c = sorted(set(c + [lo, hi]))
        i = rng.randrange(len(c) - 1)
        j = rng.randint(i + 1, len(c) - 1)
        S.append(Fr(c[i]))
        E.append(Fr(c[j]))
    return S, E


def canon(case):
    return {k: v for k, v in case.items() if not k.startswith("_")}


def malformed_stream(ctx, drv):
    """inputs the constructors refuse / lines the driver must refuse: never a default answer"""
    from sparseSpACE import Grid as G
    a, b = np.zeros(1), np.ones(1)
    try:
        G.TrapezoidalGrid(a=a, b=b, boundary=True, modified_basis=True)
        impl = "accepted"
    except AssertionError:
        impl = "bad-op"
    m = drv.ask("g1 trap 0 1 0 1/2 2 1 1")
    if impl != m:
        ctx.corr_break("C08/malformed-boundary-and-modified", {"line": "g1 trap 0 1 0 1/2 2 1 1"}, {"impl": impl, "model": m})
    for line in ["", "g1", "g1 trap 0 1 0 1/2 2 1", "g1 trap 0 1 0 1/0 2 1 0", "g1 gauss 0 1 0 1 2 1 0", "tens trap 1 0 0,0 1,1 0 1 2,2",
                 "mom trap 1 0 0 1 0 1 2 1,1", "gl 0 1 1 1,2", "leja 0 1 -", "leja 0 1", "leja 0 1/0 1/2", "gl 0 1 - -", "gl 0 1/0 1 1", "g1 trap 0 1 0 1 -1 1 0", "g1 simp 0 1 0 1 2 0 1", "g1 trap 0 1 1/2 1/2 2 1 0",
                 "tens trap 1 0 - - - - -"]:
        m = drv.ask(line)
        ctx.count("malformed_lines")
        if m != "bad-op":
            ctx.corr_break("C08/malformed-line-accepted", {"line": line}, {"model": m})


def run(ctx):
    thorough = ctx.tier == "thorough"
    ctx.rule = ("local grid families (Trapezoidal incl. boundary off / modified basis, Simpson, ClenshawCurtis, Leja, GaussLegendre, "
                "Lagrange p1-5, BSpline p1,3,5, MixedGrid of different 1-D families) x dim 1-4 x random dyadic non-cubic boxes [a,b] "
                "(30% far from the origin / tiny or huge) x dyadic sub-boxes touching the global boundary on no/lower/upper/both sides per "
                "dimension (down to 2^-12 of the box) x level vectors (<=4 quick, <=5 thorough; grids of <= 4000 points) x boundary flag "
                "(bool / numpy.bool_ / 0-1; per dimension through set_boundaries and MixedGrid) x integrator option; each grid object is "
                "reused for 3 areas (one of them built from its own coordinates, same or new level vector), 40% with a sibling grid of "
                "other configuration working before and between its calls, arguments as arrays / lists / tuples / numpy scalars / "
                "recycled buffers, queries repeated; a case = (family, flags, p, box, sub-box, level vector, history, sibling), "
                "non-trivial if the level vector is not all-zero or the sub-box is a proper one")
    ctx.assumptions = [
        "leggauss(n), cos, fmin (Leja points), numpy.linalg.inv/solve are not modelled: Clenshaw-Curtis, Gauss-Legendre nodes, "
        "Lagrange and B-spline families are validated by the oracle only; Leja weights and the Gauss-Legendre affine map are tied "
        "to the model on the implementation's own reference data",
        "isclose(start, a) / end == b are modelled as equality of rationals (dyadic inputs; sub-boxes keep a relative gap > 1e-8 "
        "to a boundary they do not touch, above isclose's 1e-9)",
    ]
    drv = ctx.driver("drv_c08")
    malformed_stream(ctx, drv)
    rng = ctx.rng
    n_groups = 1500 if not thorough else 14000
    budget = 72 if not thorough else 480
    # a deterministic sweep first: every family x boundary flag x touching pattern x levels 0..3 in 1-D
    sweep = []
    for fam in FAMILIES:
        for bd in ([True, False] if fam != "GaussLegendre" else [True]):
            for mdf in ([False, True] if (fam == "Trapezoidal" and not bd) else [False]):
                for pat in ["both", "lower", "upper", "none"]:
                    for p in ([2, 3] if fam == "Lagrange" else [3] if fam == "BSpline" else [None]):
                        A, B = ([Fr(0)], [Fr(2)]) if rng.random() < 0.5 else gen_box(rng, 1, rng.random() < 0.3)
                        S, E = gen_subbox(rng, A, B, pat)
                        # Leja: fmin makes every area expensive -- levels 0..3 everywhere, level 5 (n=11, negative weights) on two
                        # touching patterns, the point-by-point integrator where the weights can be negative (levels 3, 5)
                        levels = ([0, 1, 2, 3] + ([5] if pat in ("both", "none") else [])) if fam == "Leja" else range(0, 4)
                        for l in levels:
                            for integ in ([None, "old"] if (fam in OLD_INTEGRATOR_FAMILIES and (fam != "Leja" or l in (3, 5))) else [None]):
                                c = {"family": fam, "dim": 1, "a": [fstr(A[0])], "b": [fstr(B[0])], "start": [fstr(S[0])],
                                     "end": [fstr(E[0])], "lv": [l], "boundary": bd, "modified": mdf}
                                if p is not None:
                                    c["p"] = p
                                if integ is not None:
                                    c["integrator"] = integ
                                if fam != "GaussLegendre":
                                    c["btype"] = ["bool", "np", "int"][(l + len(sweep)) % 3]
                                sweep.append(c)
    # option forwarding, deterministic and FIRST (independent of the time budget and of the machine load): every family with an
    # order p on a non-unit sub-box at levels where the degree-min(p, n-1) clause tells p from the default 3 (n >= 9), plus the
    # modified basis and per-dimension flags of the trapezoidal family
    forward = []
    for fam, orders in (("BSpline", [1, 3, 5, 7]), ("Lagrange", [1, 3, 5])):
        for p in orders:
            for lvs, a_, b_, s_, e_ in (([3], ["-1"], ["3"], ["1/2"], ["3/2"]), ([4], ["-1"], ["3"], ["-1"], ["0"]),
                                        ([3, 1], ["-1", "0"], ["3", "2"], ["1/2", "0"], ["3/2", "1/2"])):
                forward.append({"family": fam, "dim": len(lvs), "a": a_, "b": b_, "start": s_, "end": e_, "lv": lvs,
                                "boundary": True, "modified": False, "p": p})
    forward.append({"family": "Trapezoidal", "dim": 2, "a": ["-1", "0"], "b": ["3", "2"], "start": ["-1", "1/2"], "end": ["0", "1"],
                    "lv": [2, 3], "boundary": False, "modified": True})
    forward.append({"family": "Trapezoidal", "dim": 2, "a": ["-1", "0"], "b": ["3", "2"], "start": ["-1", "1"], "end": ["0", "2"],
                    "lv": [2, 2], "boundary": False, "modified": False, "route": "set_boundaries", "bflags": [False, True], "btype": "np"})
    k = 0
    for c in forward:
        safe_run_case(ctx, drv, c, rng, thorough)
        account(ctx, c, k)
        k += 1
    ctx.extra["forwarding_block_cases"] = len(forward)
    for c in sweep:
        safe_run_case(ctx, drv, c, rng, thorough)
        account(ctx, c, k)
        k += 1
    ctx.extra["sweep_seconds"] = round(budget - ctx.time_left(budget), 1)
    for g in range(n_groups):
        if ctx.time_left(budget) < 0:
            ctx.count("stopped_by_time_budget")
            break
        case = gen_case(rng, thorough)
        sib_case = gen_sibling(rng, case) if rng.random() < 0.4 else None
        grid = sib = None
        history = []
        for rep in range(3):     # the same grid object serves several areas, as in the extend-split strategy
            if rep > 0 and ctx.time_left(budget) < -5:
                break
            if rep > 0:
                A = [fr(x) for x in case["a"]]
                B = [fr(x) for x in case["b"]]
                if grid is not None and case["family"] in ("Trapezoidal", "Simpson", "Lagrange", "BSpline") and rng.random() < 0.35:
                    try:
                        S, E = feedback_area(rng, case, grid)
                        ctx.count("area_from_own_coordinates")
                    except Exception:  # noqa: BLE001
                        S, E = gen_subbox(rng, A, B)
                else:
                    S, E = gen_subbox(rng, A, B, deep=rng.random() < 0.3)
                new_lv = case["lv"] if rng.random() < 0.4 else \
                    gen_levels(rng, case["dim"], max(case["lv"]) if max(case["lv"]) > 0 else 1, case["family"],
                               OLD_CAP if case.get("integrator") else None)
                case = dict(case, start=[fstr(x) for x in S], end=[fstr(x) for x in E], lv=list(new_lv),
                            argtype=rng.choice(["array", "list", "tuple", "npscalar"]) if not case.get("reuse_buffers") else case["argtype"])
            c = canon(case)
            if rng.random() < 0.3:
                c["mode"] = "integrate-first"
                ctx.count("mode_integrate_first")
            if grid is None:
                history = []
                sib = None
            if history:
                c["history"] = list(history)
            if sib_case is not None:
                c["sibling"] = dict(sib_case, start=c["start"], end=c["end"], lv=c["lv"]) if sib_case["a"] == c["a"] else dict(sib_case)
                if c["sibling"]["family"] == "Leja" or "Leja" in c["sibling"].get("fams", []):
                    c["sibling"]["lv"] = [min(l, 2 if c["sibling"]["family"] != c["family"] else 3) for l in c["sibling"]["lv"]]
                ctx.count("with_sibling")
            if grid is None:
                try:
                    grid = make_grid(c)
                    sib = make_grid(c["sibling"]) if sib_case is not None else None
                except Exception as e:  # noqa: BLE001
                    ctx.violation("count", {"family": c["family"], "boundary": c["boundary"], "kind": "constructor-exception:" + type(e).__name__},
                                  c, {"exception": repr(e)[:300]})
                    break
            c_run = dict(c, _grid=grid, _sibling=sib)
            ok = safe_run_case(ctx, drv, c_run, rng, thorough)
            outcome = c_run.get("_outcome", 1)
            history.append({"start": c["start"], "end": c["end"], "lv": c["lv"], "mode": c.get("mode", "set-area"),
                            "argtype": c.get("argtype", "array"), "lvtype": c.get("lvtype", "list")})
            if not ok:
                ctx.count("failing_cases")
            if outcome == 2:
                grid = None          # a failing input was found: continue with a fresh object (a model disagreement alone
                                     # does NOT end the object's history -- the oracle must get its chance on the later requests)
            account(ctx, c, k)
            k += 1
        if len(ctx.violations) >= 40:      # model disagreements alone never end the search for a failing input
            break


def safe_run_case(ctx, drv, case, rng, thorough=False, verbose=False):
    """(k) nothing ends as a harness crash: whatever escapes run_case is recorded with the concrete case"""
    try:
        return run_case(ctx, drv, case, rng, thorough, verbose)
    except Exception as e:  # noqa: BLE001
        import traceback
        ctx.count("harness_exception_" + type(e).__name__)
        ctx.corr_break("C08/exception-outside-the-observed-calls", canon(case), {"exception": repr(e)[:300],
                                                                                "trace": traceback.format_exc()[-1200:]})
        if verbose:
            print("  exception outside the observed calls:", traceback.format_exc()[-1500:])
        return False


def account(ctx, c, k):
    ctx.count("family_" + c["family"])
    ctx.count("integrator_%s_%s" % (c.get("integrator") or "default", c["family"]))
    ctx.count("dim_%d" % c["dim"])
    ctx.count("btype_" + c.get("btype", "bool"))
    ctx.count("argtype_" + ("recycled-buffers" if c.get("reuse_buffers") else c.get("argtype", "array")))
    if c.get("route"):
        ctx.count("route_" + c["route"])
    if c.get("bflags") and len(set(c["bflags"])) > 1:
        ctx.count("flags_differ_per_dimension")
    if any(abs(float(fr(x))) > 50 for x in c["a"]) or any(float(fr(y)) - float(fr(x)) < 1e-3 for x, y in zip(c["a"], c["b"])):
        ctx.count("box_extreme_scale")
    ctx.count("boundary_%s" % ("on" if c["boundary"] else "off") + ("_modified" if c.get("modified") else ""))
    for d in range(c["dim"]):
        ctx.count("touch_" + touch(c, d))
        ctx.count("level_%d" % c["lv"][d])
    nontriv = any(l > 0 for l in c["lv"]) or any(touch(c, d) != "both" for d in range(c["dim"]))
    ctx.case(canon(c), nontrivial=nontriv, sample=canon(c) if k in (0, 200) else None)


def replay(ctx, rp):
    import random
    case = canon(rp["case"])
    drv = ctx.driver("drv_c08")
    print("replay case:", case)
    ok = safe_run_case(ctx, drv, case, random.Random(0), thorough=True, verbose=True)
    known = [(fid, n) for fid, (f, n) in ctx.known_hits.items()]
    if known:
        print("  matched known finding(s):", known)
        ok = False
    print("replay: %s" % ("property holds and model agrees on this case" if ok else "REPRODUCED"))
    for d in ctx._drivers:
        d.close()
    return 0 if ok else 1
