"""C10 -- hierarchical bases interpolate: surpluses reproduce every nodal value.

Correspondence: the basis objects (`LagrangeBasis`, `LagrangeBasisRestricted`, `BSpline`, `HierarchicalNotAKnotBSpline`),
the knot selection of the hierarchical Lagrange grids, the collocation matrices, `HierarchizationLSG` and
`interpolate` of the real implementation vs. Model/Hier (exact rationals, compared at 1e-8).
Oracle (independent of the model): the clauses of the property on the implementation's own outputs -- nodal
round trip of `integrate` + `interpolate` for vector-valued dyadic tables, `HierarchizationLSG` applied directly (both
sides of the 15-point dense/QR switch) and re-multiplied with the tensor collocation operator, the Lagrange cardinal
property, polynomial reproduction off the nodes, derivative vs. finite differences, `get_integral` vs. scipy.quad."""
import itertools
import os
import math
import random
import traceback
from fractions import Fraction

import numpy as np

from common import frac_str

TOL = 1e-8          # model (exact) vs implementation (double)
NODE_TOL = 1e-9     # nodal round trip on the implementation
SWITCH = 15         # `if numPoints[d] >= 15:` in Hierarchization.py

LOCAL = ("LagrangeGrid", "BSplineGrid")
GLOBAL = ("GlobalLagrangeGrid", "GlobalBSplineGrid")


# ---------------------------------------------------------------------------------------------- helpers
def fs(x):
    return frac_str(float(x))


def vec(xs):
    xs = list(xs)
    return ",".join(fs(x) for x in xs) if xs else "-"


def pvec(s):
    return [] if s == "-" else [Fraction(t) for t in s.split(",")]


def near(model, impl, scale=1.0, tol=TOL):
    return abs(float(model) - float(impl)) <= tol * max(1.0, abs(float(model)), scale)


def exc_kind(e):
    return type(e).__name__


def dy(r, lo, hi, den):
    """random dyadic k/den in [lo,hi]"""
    return r.randint(int(lo * den), int(hi * den)) / den


def make_function(table_fn, outlen):
    from sparseSpACE.Function import Function

    class TabF(Function):
        def __init__(self):
            super().__init__()

        def output_length(self):
            return outlen

        def eval(self, c):
            return np.array(table_fn(tuple(float(x) for x in c)), dtype=float)

    return TabF()


def spec_of(b):
    """driver descriptor of an implementation basis object (None: no model -- modified bases)"""
    from sparseSpACE import BasisFunctions as BF
    t = type(b)
    if t is BF.LagrangeBasisRestricted:
        return "R:%s:%d" % (vec(b.knots), b.index)
    if t is BF.LagrangeBasis:
        return "L:%s:%d" % (vec(b.knots), b.index)
    if t is BF.BSpline:
        return "B:%d:%s:%d" % (b.p, vec(b.knots), b.index)
    if t is BF.HierarchicalNotAKnotBSpline:
        return spec_of(b.spline)
    return None


def breakpoints(b):
    """points where the basis function is not smooth"""
    from sparseSpACE import BasisFunctions as BF
    pts = set()
    inner = getattr(b, "spline", b)
    for k in list(inner.knots):
        pts.add(float(k))
    for nm in ("spline2", "spline3"):
        if hasattr(b, nm):
            for k in getattr(b, nm).knots:
                pts.add(float(k))
    return sorted(pts)


def complete_level(levels):
    """deepest level l such that every level <= l of the dyadic tree is completely present"""
    cnt = {}
    for l in levels:
        cnt[int(l)] = cnt.get(int(l), 0) + 1
    if cnt.get(0, 0) != 2:
        return -1
    l = 0
    while cnt.get(l + 1, 0) == 2 ** l:
        l += 1
    return l


def supported_degree(kind, p, levels):
    """polynomial degree the hierarchical basis of a tree reproduces (boundary on)"""
    lc = complete_level(levels)
    if lc < 0:
        return -1
    if kind == "lagrange":
        return min(p, lc + 1)
    return 2 ** lc if lc < math.log2(p + 1) else p


def full_levels(level):
    n = 2 ** level + 1
    lev = [0] * n
    for l2 in range(1, level + 1):
        off = 2 ** (level - l2)
        for j in range(off, n, 2 * off):
            lev[j] = l2
    return lev


def rand_tree(r, a, b, npts):
    """random dyadic refinement tree on [a,b] with `npts` points: sorted points and their levels"""
    pts = [(a, 0), (b, 0)]
    leaves = [(a, b, 0)]
    while len(pts) < npts:
        # strongly graded trees with probability 1/2: prefer the deepest leaves
        if r.random() < 0.5:
            k = max(range(len(leaves)), key=lambda i: (leaves[i][2], r.random()))
            if r.random() < 0.4:
                k = r.randrange(len(leaves))
        else:
            k = r.randrange(len(leaves))
        lo, hi, l = leaves.pop(k)
        if l >= 9:
            leaves.append((lo, hi, l))
            k = min(range(len(leaves)), key=lambda i: leaves[i][2])
            lo, hi, l = leaves.pop(k)
        m = (lo + hi) / 2
        pts.append((m, l + 1))
        leaves += [(lo, m, l + 1), (m, hi, l + 1)]
    pts.sort()
    return [p for p, _ in pts], [l for _, l in pts]


def poly_eval(coeffs, x):
    v = 0.0
    for c in reversed(coeffs):
        v = v * x + c
    return v



def fd_compare(fn, d, x, h, span):
    """compare the claimed derivative `d` of `fn` at `x` with 4th-order central differences.  Several step sizes are
    tried; the numerical derivative counts as converged when two consecutive step sizes agree to 1e-7 (relative to
    the scale of the values).  Returns (status, fd) with status in ok / mismatch / not-converged."""
    def fdiff(hh):
        return (-float(fn(x + 2 * hh)) + 8 * float(fn(x + hh)) - 8 * float(fn(x - hh)) + float(fn(x - 2 * hh))) / (12 * hh)
    last = None
    for hh in (h, h / 2, h / 4, 2 * h):
        try:
            fd1, fd = fdiff(hh), fdiff(hh / 2)
        except Exception:
            return "not-converged", float("nan")
        sc = max(1.0, abs(fd), max(abs(float(fn(x + t))) for t in (-2 * hh, 0, 2 * hh)) / span)
        last = fd
        if abs(fd1 - fd) <= 1e-7 * sc:
            return ("ok" if abs(d - fd) <= 1e-6 * sc else "mismatch"), fd
    return "not-converged", last


def fd_compare_one_sided(fn, d, x, h, span, sign):
    """as `fd_compare` with the 4th-order ONE-SIDED stencil (sign = +1: points x, x+h, ..., x+4h): for the inner limit
    of the derivative at an end of the support of a restricted function"""
    def fdiff(hh):
        hs = sign * hh
        return (-25 * float(fn(x)) + 48 * float(fn(x + hs)) - 36 * float(fn(x + 2 * hs)) + 16 * float(fn(x + 3 * hs))
                - 3 * float(fn(x + 4 * hs))) / (12 * hs)
    last = None
    for hh in (h, h / 2, h / 4, 2 * h):
        fd1, fd = fdiff(hh), fdiff(hh / 2)
        sc = max(1.0, abs(fd), max(abs(float(fn(x + sign * t))) for t in (0, 2 * hh, 4 * hh)) / span)
        last = fd
        if abs(fd1 - fd) <= 1e-7 * sc:
            return ("ok" if abs(d - fd) <= 1e-6 * sc else "mismatch"), fd
    return "not-converged", last


def notaknot_knots(p, level, a, b):
    """knot vector of `GlobalBSplineGrid.compute_1D_quad_weights` / `BSplineGrid1D` for a complete level"""
    h = (b - a) / 2 ** level
    if level < math.log2(p + 1):
        return [a + i * h for i in range(2 ** level + 1)]
    return [a + i * h for i in range(-p, 2 ** level + p + 1)
            if i <= 0 or (p + 1) / 2 <= i <= 2 ** level - (p + 1) / 2 or i >= 2 ** level]

# ---------------------------------------------------------------------------------------------- basis objects
def build_basis(case):
    from sparseSpACE import BasisFunctions as BF
    kn = np.array([float(Fraction(k)) for k in case["knots"]])
    cls, p, i = case["cls"], case["p"], case["index"]
    if cls == "LagrangeBasis":
        return BF.LagrangeBasis(p, i, kn)
    if cls == "LagrangeBasisRestricted":
        return BF.LagrangeBasisRestricted(p, i, kn)
    if cls == "LagrangeBasisRestrictedModified":
        return BF.LagrangeBasisRestrictedModified(p, i, kn, float(kn[0]), float(kn[-1]), case["level"])
    if cls == "BSpline":
        return BF.BSpline(p, i, kn)
    if cls == "HierarchicalNotAKnotBSpline":
        return BF.HierarchicalNotAKnotBSpline(p, i, case["level"], kn)
    if cls == "HierarchicalNotAKnotBSplineModified":
        a, b = [float(Fraction(t)) for t in case["dom"]]
        return BF.HierarchicalNotAKnotBSplineModified(p, i, case["level"], kn, a, b)
    raise ValueError(cls)


def gen_basis_case(r):
    x = r.random()
    den = r.choice([8, 16, 16, 32])
    if x < 0.3:
        cls = "LagrangeBasis"
    elif x < 0.6:
        cls = "LagrangeBasisRestricted"
    elif x < 0.68:
        cls = "LagrangeBasisRestrictedModified"
    elif x < 0.80:
        cls = "BSpline"
    elif x < 0.93:
        cls = "HierarchicalNotAKnotBSpline"
    else:
        cls = "HierarchicalNotAKnotBSplineModified"
    dom = None
    if cls.startswith("Hierarchical"):
        # what the B-spline grids build on a complete level: not-a-knot knot vectors (NON-uniform for p >= 3 at
        # levels >= log2(p+1): the knots next to the boundary are removed)
        p = r.choice([1, 3, 3, 3, 5, 5, 7])
        level = r.choice([1, 2, 3, 3, 4, 4, 5]) if cls.endswith("Spline") else r.choice([2, 3, 3, 4, 4, 5])
        a = r.choice([0, 0, -1, -3])
        b = a + r.choice([1, 1, 2, 8])
        knots = notaknot_knots(p, level, a, b)
        if cls.endswith("Modified"):
            index = r.choice([1, 1, 2 ** level - 1, 2 ** level - 1, r.randrange(1, 2 ** level, 2)])
        else:
            index = r.choice([1, 2 ** level - 1, r.randrange(1, 2 ** level, 2), r.randrange(1, 2 ** level, 2)])
        dom = [a, b]
    elif cls == "BSpline":
        p = r.choice([0, 1, 1, 2, 3, 3, 5])
        n = p + 2 + r.randint(0, 3)
        lo = r.choice([-1, 0, 0])
        cand = sorted(r.sample(range(lo * den, (lo + 2) * den + 1), n))
        knots = [c / den for c in cand]
        index = r.randint(0, n - p - 2)
    elif cls == "LagrangeBasisRestrictedModified":
        n = r.randint(1, 5)
        knots = [0.0] + [k / 16 for k in sorted(r.sample(range(1, 16), n))] + [1.0]
        p = n + 1
        index = r.randint(1, n)
    else:
        n = r.randint(1, 8)
        lo = r.choice([-1, 0, 0])
        cand = sorted(r.sample(range(lo * den, (lo + 2) * den + 1), n))
        knots = [c / den for c in cand]
        p = n - 1
        index = r.randrange(n)
    case = {"kind": "basis", "cls": cls, "p": p, "knots": [fs(k) for k in knots], "index": index}
    if dom is not None:
        case["level"] = level
        case["dom"] = [fs(dom[0]), fs(dom[1])]
    if cls == "LagrangeBasisRestrictedModified":
        case["level"] = r.choice([1, 2]) if len(knots) == 3 else r.choice([2, 3])
    span = (knots[-1] - knots[0]) or 1.0
    # evaluation points: the knots, dyadic points between and outside
    xs = set(knots)
    for _ in range(6):
        xs.add(dy(r, knots[0] - 0.25, knots[-1] + 0.25, 64))
    if dom is not None:
        xs = set(k for k in knots if dom[0] <= k <= dom[1])
        for _ in range(8):
            xs.add(dy(r, dom[0], dom[1], 256))
    case["xs"] = [fs(x) for x in sorted(xs)]
    # a rational quadrature rule for the exact comparison of get_integral, and an interval
    m = r.randint(1, 3)
    case["qc"] = [fs(dy(r, -1, 1, 8)) for _ in range(m)]
    case["qw"] = [fs(dy(r, 0, 2, 8)) for _ in range(m)]
    if dom is not None:
        a = dy(r, dom[0], dom[1], 16)
        b = dy(r, a, dom[1], 16)
    else:
        a = dy(r, knots[0] - 0.25, knots[-1], 16)
        b = dy(r, a, knots[-1] + 0.25, 16)
    case["ab"] = [fs(a), fs(b)]
    return case


def run_basis_case(ctx, drv, case):
    ok = True
    tags = {"cls": case["cls"]}
    try:
        b = build_basis(case)
    except Exception as e:
        ctx.violation("basis-construct", dict(tags, exc=exc_kind(e)), case, {"exception": traceback.format_exc()[-600:]})
        return False
    knots = [float(Fraction(k)) for k in case["knots"]]
    xs = [float(Fraction(x)) for x in case["xs"]]
    spec = spec_of(b)
    lagr = case["cls"].startswith("Lagrange")
    vals = {}
    try:
        for x in xs:
            vals[x] = float(b(x))
    except Exception as e:
        ctx.violation("basis-value", dict(tags, exc=exc_kind(e)), case, {"exception": traceback.format_exc()[-600:]})
        return False
    scale = max(1.0, max(abs(v) for v in vals.values()))
    # ---- correspondence: value, derivative, integral with a rational rule
    if spec is not None:
        for x in xs:
            m = drv.ask("val %s %s" % (spec, fs(x)))
            if m == "bad-op" or not near(Fraction(m), vals[x], scale):
                ctx.corr_break("C10/basis-value", case, {"x": x, "impl": vals[x], "model": m})
                ok = False
                break
        for x in xs:
            try:
                d = float(b.get_first_derivative(x))
            except Exception as e:
                ctx.violation("basis-derivative", dict(tags, exc=exc_kind(e)), case, {"x": x, "exception": str(e)[:200]})
                ok = False
                break
            m = drv.ask("der %s %s" % (spec, fs(x)))
            if m == "bad-op" or not near(Fraction(m), d, scale * 64):
                ctx.corr_break("C10/basis-derivative", case, {"x": x, "impl": d, "model": m})
                ok = False
                break
        a, bb = [float(Fraction(t)) for t in case["ab"]]
        qc = np.array([float(Fraction(t)) for t in case["qc"]])
        qw = np.array([float(Fraction(t)) for t in case["qw"]])
        spanwise_lagrange = case["cls"].startswith("Hierarchical") and spec.startswith("L:")
        try:
            I = float(b.get_integral(a, bb, qc, qw))
            if spanwise_lagrange:
                raise StopIteration   # knot-span-wise rule on a LagrangeBasis: not the model's `lagIntegral`; oracle below
            m = drv.ask("int %s %s %s %s %s" % (spec, fs(a), fs(bb), vec(qc), vec(qw)))
            if m == "bad-op" or not near(Fraction(m), I, scale):
                ctx.corr_break("C10/basis-integral-rule", case, {"impl": I, "model": m})
                ok = False
        except StopIteration:
            pass
        except Exception as e:
            ctx.violation("basis-integral", dict(tags, exc=exc_kind(e), interval="rule"), case, {"exception": str(e)[:200]})
            ok = False
    # ---- oracle: cardinal property of the Lagrange classes
    if lagr:
        own = knots[case["index"]]
        modified = case["cls"].endswith("Modified")
        for j, k in enumerate(knots):
            if modified and (j == 0 or j == len(knots) - 1):
                continue  # the modified functions extrapolate to the domain boundary
            if modified and case.get("level") == 1:
                continue  # constant 1
            v = vals[k]
            if j == case["index"]:
                if abs(v - 1.0) > 1e-9:
                    ctx.violation("basis-cardinal", tags, case, {"knot": k, "value": v, "expected": 1})
                    ok = False
            elif abs(v) > 1e-9:
                ctx.violation("basis-cardinal", tags, case, {"knot": k, "value": v, "expected": 0})
                ok = False
    # ---- oracle: derivative vs 4th-order central differences away from the break points; a numerical derivative
    # that does not converge is itself a failure of the derivative clause (never observed on the unchanged tree)
    bps = breakpoints(b)
    lo, hi = knots[0], knots[-1]
    if "dom" in case:
        lo, hi = [float(Fraction(t)) for t in case["dom"]]
    span = (hi - lo) or 1.0
    gaps = [v - u for u, v in zip(bps, bps[1:]) if v - u > 0]
    h = min([span] + gaps) * 2e-3 if len(bps) > 1 else span * 2e-4
    h = max(h, span * 1e-5)
    r = random.Random(case["index"] * 7919 + len(knots))
    worst = None
    has2 = hasattr(b, "get_second_derivative")
    for _ in range(10):
        x = lo - 0.05 * span + r.random() * 1.1 * span
        if "dom" in case:
            x = lo + r.random() * span
            if not (lo + 8 * h < x < hi - 8 * h):
                continue
        if min(abs(x - k) for k in bps) < 8 * h:
            continue
        try:
            d = float(b.get_first_derivative(x))
        except Exception as e:
            ctx.violation("basis-derivative", dict(tags, exc=exc_kind(e)), case, {"x": x, "exception": str(e)[:200]})
            ok = False
            break
        st, fd = fd_compare(b, d, x, h, span)
        ctx.count("fd_points_checked")
        if st == "not-converged":
            ctx.violation("basis-derivative", dict(tags, kind="finite-differences-do-not-converge"), case,
                          {"x": x, "get_first_derivative": d, "last_finite_difference": fd})
            ok = False
            break
        if st == "mismatch" and worst is None:
            worst = {"x": x, "get_first_derivative": d, "finite_difference": fd}
        # second derivative (exposed by every class) vs finite differences of the first derivative
        if has2 and not case["cls"] == "LagrangeBasisRestrictedModified":
            try:
                d2 = float(b.get_second_derivative(x))
                st2, fd2 = fd_compare(b.get_first_derivative, d2, x, h, span)
            except Exception as e:
                ctx.violation("basis-second-derivative", dict(tags, exc=exc_kind(e)), case, {"x": x, "exception": str(e)[:200]})
                ok = False
                break
            if st2 != "ok":
                ctx.violation("basis-second-derivative", dict(tags, kind=st2), case,
                              {"x": x, "get_second_derivative": d2, "finite_difference_of_first_derivative": fd2})
                ok = False
                break
    if worst is not None:
        ctx.violation("basis-derivative", tags, case, worst)
        ok = False
    # ---- oracle: the derivative AT the knots.  Where the function is one polynomial (LagrangeBasis; the Lagrange-type
    # levels of the hierarchical not-a-knot splines, modified or not) every knot -- the foreign knots, where the value
    # is 0, and the domain ends -- is a smooth point: central differences.  For the restricted Lagrange functions the
    # two ends of the support are foreign knots as well: the code returns the inner limit there (closed support), which is
    # compared with one-sided differences from inside.
    inner_obj = getattr(b, "spline", b)
    poly_everywhere = type(inner_obj).__name__ == "LagrangeBasis" and case["cls"] in (
        "LagrangeBasis", "HierarchicalNotAKnotBSpline", "HierarchicalNotAKnotBSplineModified")
    knot_pts = []
    if poly_everywhere and len(knots) >= 2:
        knot_pts = [(k, 0) for k in knots]
    elif case["cls"] == "LagrangeBasisRestricted" and len(knots) >= 2:
        i0 = case["index"]
        if i0 >= 1:
            knot_pts.append((knots[i0 - 1], +1))
        if i0 + 1 < len(knots):
            knot_pts.append((knots[i0 + 1], -1))
        knot_pts.append((knots[i0], 0 if 0 < i0 < len(knots) - 1 else (+1 if i0 == 0 else -1)))
    if knot_pts:
        gaps_k = [v - u for u, v in zip(knots, knots[1:]) if v - u > 0]
        hk = min(gaps_k) * 2e-3
        for xk, side in knot_pts:
            try:
                dk = float(b.get_first_derivative(xk))
                if side == 0:
                    stk, fdk = fd_compare(b, dk, xk, hk, span)
                else:
                    stk, fdk = fd_compare_one_sided(b, dk, xk, hk, span, side)
            except Exception as e:
                ctx.violation("basis-derivative", dict(tags, exc=exc_kind(e), at="knot"), case, {"x": xk, "exception": str(e)[:200]})
                ok = False
                break
            ctx.count("fd_points_at_knots")
            if stk != "ok":
                ctx.violation("basis-derivative", dict(tags, at="knot") if stk == "mismatch" else dict(tags, at="knot", kind="finite-differences-do-not-converge"),
                              case, {"x": xk, "knot_position": knots.index(xk) if xk in knots else None, "own_index": case["index"],
                                     "get_first_derivative": dk, "finite_difference": fdk, "one_sided": side})
                ok = False
                break
    # ---- oracle: get_integral with the Gauss rule the grids use vs adaptive quadrature of the values
    from scipy import integrate as si
    import numpy.polynomial.legendre as legendre
    deg = case["p"] if not case["cls"].endswith("Modified") else case["p"]
    cg, wg = legendre.leggauss(int(deg / 2) + 1)
    for interval in ("full", "sub"):
        if interval == "full":
            a, bb = lo, hi
        else:
            a, bb = [float(Fraction(t)) for t in case["ab"]]
            if not a < bb:
                continue
        try:
            I = float(b.get_integral(a, bb, cg, wg))
        except Exception as e:
            ctx.violation("basis-integral", dict(tags, exc=exc_kind(e), interval=interval), case, {"exception": str(e)[:200]})
            ok = False
            continue
        pts = [k for k in bps if a < k < bb]
        Iq = si.quad(lambda t: float(b(t)), a, bb, points=pts or None, limit=200, epsabs=1e-13, epsrel=1e-13)[0]
        if abs(I - Iq) > 1e-8 * max(1.0, abs(Iq)):
            ctx.violation("basis-integral", dict(tags, interval=interval), case,
                          {"a": a, "b": bb, "get_integral": I, "quad": Iq})
            ok = False
    ctx.count("basis_" + case["cls"])
    return ok


# ---------------------------------------------------------------------------------------------- grids
_GL_CACHE = {}


def piecewise_integral(bobj, lo, hi, order):
    """integral of a basis object over [lo,hi] by Gauss-Legendre on every piece between its break points (exact for the
    piecewise polynomials of degree <= order; independent of the object's own get_integral and of its interval arguments)"""
    import numpy.polynomial.legendre as legendre
    inner = getattr(bobj, "spline", bobj)
    deg = max(int(order), len(inner.knots) - 1, 1)
    if deg // 2 + 1 not in _GL_CACHE:
        _GL_CACHE[deg // 2 + 1] = legendre.leggauss(deg // 2 + 1)
    cg, wg = _GL_CACHE[deg // 2 + 1]
    # the plain (unmodified) functions vanish outside their support: integrate there only
    tname = type(bobj).__name__
    if tname == "LagrangeBasisRestricted":
        s0, s1 = bobj.get_boundaries()
        lo, hi = max(lo, float(s0)), min(hi, float(s1))
    elif tname in ("BSpline", "HierarchicalNotAKnotBSpline") and type(inner).__name__ == "BSpline":
        lo, hi = max(lo, float(inner.knots[inner.index])), min(hi, float(inner.knots[inner.index + inner.p + 1]))
    if not lo < hi:
        return 0.0
    cuts = sorted(set([lo, hi] + [k for k in breakpoints(bobj) if lo < k < hi]))
    total = 0.0
    for u, v in zip(cuts, cuts[1:]):
        if v <= u:
            continue
        mid, half = (u + v) / 2, (v - u) / 2
        total += half * sum(w * float(bobj(mid + half * c)) for c, w in zip(cg, wg))
    return total


class _Recorder(object):
    """stands in for `integrator.hierarchization` during one integrate and records what it is called with"""

    def __init__(self, inner):
        self.inner = inner
        self.seen = None

    def __call__(self, grid_values, numPoints, grid):
        self.seen = (np.array(grid_values, dtype=float, copy=True), list(numPoints))
        return self.inner(grid_values, numPoints, grid)

    def __getattr__(self, name):
        return getattr(self.inner, name)


def build_grid(case):
    from sparseSpACE import Grid as G
    a = np.array([float(Fraction(t)) for t in case["a"]])
    b = np.array([float(Fraction(t)) for t in case["b"]])
    cls = getattr(G, case["family"])
    bflag = case["boundary"]
    flavour = case.get("bflavor", "bool")
    if flavour == "npbool":
        bflag = np.bool_(bflag)
    elif flavour == "int":
        bflag = int(bflag)
    g = cls(a, b, boundary=bflag, modified_basis=case["modified"], p=case["p"])
    return g, a, b


def grid_levels_local(n_with_boundary_level):
    return full_levels(n_with_boundary_level)


def table_function(case, coords_list):
    """the vector-valued function of the case: a dyadic random table on the grid nodes, or a polynomial"""
    outlen = case["outlen"]
    if case["fkind"] == "table":
        r = random.Random(case["tseed"])
        tab = {}

        def fn(c):
            if c not in tab:
                tab[c] = [r.randint(-40, 40) / 8 for _ in range(outlen)]
            return tab[c]
        # fix the values in node order so that they do not depend on the evaluation order
        for c in coords_list:
            fn(tuple(float(x) for x in c))
        return fn
    coeffs = [[float(Fraction(t)) for t in cs] for cs in case["poly"]]
    if case.get("polynorm"):
        lo = [float(Fraction(t)) for t in case.get("start", case["a"])]
        hi = [float(Fraction(t)) for t in case.get("end", case["b"])]
    else:
        lo, hi = [0.0] * len(coeffs), [1.0] * len(coeffs)

    def pfn(c):
        prod = 1.0
        tot = 0.0
        for d, x in enumerate(c):
            v = poly_eval(coeffs[d], (x - lo[d]) / (hi[d] - lo[d]))
            prod *= v
            tot += v
        return [prod, tot, prod - tot][:outlen]
    return pfn


def run_grid_case(ctx, drv, case, grid_obj=None, report_case=None, step=None):
    """one grid, one function: integrate -> surpluses -> interpolate ; HierarchizationLSG directly ; model"""
    from sparseSpACE import Grid as _G  # noqa: F401  (must be imported before Hierarchization: circular imports)
    from sparseSpACE.Hierarchization import HierarchizationLSG
    from sparseSpACE.ComponentGridInfo import ComponentGridInfo
    fam = case["family"]
    is_global = fam in GLOBAL
    kind = "lagrange" if "Lagrange" in fam else "bspline"
    tags = {"family": fam, "boundary": case["boundary"], "modified": case["modified"], "p": case["p"], "dim": len(case["a"])}
    probe = "global-roundtrip" if is_global else "local-roundtrip"
    ok = True
    dim = len(case["a"])
    # a grid OBJECT may be handed over from the previous step of a history (stale state inside it must not matter);
    # violations are then reported with the whole history as the replayable case
    rcase = case if report_case is None else report_case
    if step is not None:
        tags["history_step"] = step
    try:
        if grid_obj is None:
            g, a, b = build_grid(case)
        else:
            g = grid_obj
            a = np.array([float(Fraction(t)) for t in case["a"]])
            b = np.array([float(Fraction(t)) for t in case["b"]])
        if is_global:
            gp = [[float(Fraction(t)) for t in xs] for xs in case["points"]]
            gl = [list(ls) for ls in case["levels"]]
            g.set_grid(gp, gl)
            lv = [max(ls) for ls in gl]
            start, end = a, b
        else:
            lv = list(case["lv"])
            start = np.array([float(Fraction(t)) for t in case["start"]])
            end = np.array([float(Fraction(t)) for t in case["end"]])
            g.setCurrentArea(start, end, lv)
            tags["full_domain"] = bool(np.all(start == a) and np.all(end == b))
        nodes = [tuple(float(x) for x in pt) for pt in g.getPoints()]
        fn = table_function(case, nodes)
        f = make_function(fn, case["outlen"])
        # use-site observation: what the integrator hands to the hierarchisation at the moment it is used
        rec = _Recorder(g.integrator.hierarchization)
        g.integrator.hierarchization = rec
        try:
            integral_value = g.integrate(f, lv, start, end)
        finally:
            g.integrator.hierarchization = rec.inner
        num_points = [len(g.get_coordinates_dim(d)) for d in range(dim)]
        # rarely used public read-only methods in the middle of the sequence must not disturb anything
        rt = random.Random(case["tseed"] ^ 0x70661)
        for nm, args in (("levelToNumPoints", (lv,)), ("get_num_points", ()), ("get_weights", ()), ("get_points_and_weights", ()),
                         ("is_high_order_grid", ()), ("isNested", ()), ("get_coordinates", ()), ("is_global", ())) + \
                ((("levelToNumPointsWithBoundary", (lv,)), ("get_boundaries", ()), ("get_indexlist", ())) if not is_global else ()):
            if rt.random() < 0.5:
                getattr(g, nm)(*args)
                ctx.count("toggle_calls")
        if is_global:
            surplus = np.array(g.surplus_values[tuple(lv)], dtype=float)
            cgi = ComponentGridInfo(lv, 1)
            interp = lambda pts: g.interpolate(pts, cgi)
        else:
            surplus = np.array(g.surplus_values[(tuple(start), tuple(end), tuple(lv))], dtype=float)
            interp = lambda pts: g.interpolate(pts, start, end, lv)
        table = np.array([fn(c) for c in nodes], dtype=float).T.reshape(case["outlen"], len(nodes))
        scale = max(1.0, float(np.max(np.abs(table))) if table.size else 1.0)
        nodal = np.array(interp(nodes), dtype=float) if nodes else np.zeros((0, case["outlen"]))
        if nodes and rec.seen is not None:
            seen_vals, seen_np = rec.seen
            if seen_vals.shape != table.shape or not np.array_equal(seen_vals, table) or [int(n) for n in seen_np] != [int(n) for n in num_points]:
                ctx.violation("use-site-table", dict(tags), rcase,
                              {"what": "the table handed to HierarchizationLSG inside integrate is not the function at the grid points",
                               "max_diff": float(np.max(np.abs(seen_vals - table))) if seen_vals.shape == table.shape else None,
                               "numPoints_seen": [int(n) for n in seen_np], "numPoints": [int(n) for n in num_points]})
                ok = False
        # option forwarding: the order and the modified flag must arrive at every basis object / 1-D grid
        for d in range(dim):
            objs = [g.get_basis(d, j) for j in range(num_points[d])]
            bad_p = [j for j, o in enumerate(objs) if getattr(o, "p", case["p"]) != case["p"]]
            sub_p = getattr(g.grids[d], "p", case["p"]) if hasattr(g, "grids") else case["p"]
            bad_mod = [j for j, o in enumerate(objs) if kind == "bspline" and type(o).__name__.endswith("Modified") != bool(case["modified"])]
            if bad_p or sub_p != case["p"] or getattr(g, "p", case["p"]) != case["p"] or bad_mod:
                ctx.violation("option-forwarding", dict(tags), rcase,
                              {"dim": d, "basis_with_other_p": bad_p[:5], "subgrid_p": sub_p, "grid_p": getattr(g, "p", None),
                               "basis_with_other_modified_flag": bad_mod[:5]})
                ok = False
                break
        mats, condprod = [], 1.0
        for d in range(dim):
            xs = g.get_coordinates_dim(d)
            mats.append(np.array([[g.get_basis(d, j)(xs[i]) for j in range(num_points[d])] for i in range(num_points[d])], dtype=float))
            if num_points[d] > 1:
                condprod *= min(float(np.linalg.cond(mats[d])), 1e16)
        # rounding allowance: backward-stable pole solves leave a relative residual of order eps * cond per dimension
        relax = max(1.0, 8 * 2.2e-16 * condprod / NODE_TOL)
        if relax > 1.0:
            ctx.count("tolerance_scaled_by_condition")
    except Exception as e:
        ctx.violation(probe, dict(tags, kind="exception"), rcase,
                      {"exception": exc_kind(e), "where": traceback.format_exc().strip().split("\n")[-3].strip()[:160],
                       "message": str(e)[:160]})
        ctx.count("grid_exception_" + fam)
        return False
    ctx.count("grid_%s_dim%d" % (fam, dim))
    for d in range(dim):
        ctx.count("points_ge_15" if num_points[d] >= SWITCH else "points_lt_15")
    n_nodes = len(nodes)
    # ---- oracle 1: interpolation at all nodes returns the table (every component)
    if n_nodes:
        err = float(np.max(np.abs(nodal.T - table)))
        if not err <= NODE_TOL * relax * scale:
            i = int(np.argmax(np.max(np.abs(nodal.T - table), axis=0)))
            ctx.violation(probe, dict(tags, kind="nodal-mismatch"), rcase,
                          {"node": nodes[i], "expected": table[:, i].tolist(), "interpolated": nodal[i].tolist(), "max_error": err})
            ok = False
    # ---- oracle 2: HierarchizationLSG called directly; B (x) ... (x) B applied to its result gives the table back
    if n_nodes:
        try:
            direct = HierarchizationLSG(g)(np.array(table, dtype=float).copy(), num_points, g)
            for n in range(case["outlen"]):
                t = np.array(direct[n]).reshape(num_points)
                for d in range(dim):
                    t = np.moveaxis(np.tensordot(mats[d], t, axes=([1], [d])), 0, d)
                if not np.max(np.abs(t.reshape(-1) - table[n])) <= NODE_TOL * relax * scale:
                    ctx.violation("hierarchization-direct", dict(tags, kind="collocation-residual"), rcase,
                                  {"component": n, "max_error": float(np.max(np.abs(t.reshape(-1) - table[n])))})
                    ok = False
                    break
            h2 = HierarchizationLSG(g)
            buf = np.array(table, dtype=float).copy()
            first = np.array(h2(buf, num_points, g), dtype=float).copy()
            buf[:] = -2.0 * table                      # the caller reuses its array object
            second = np.array(h2(buf, num_points, g), dtype=float)
            lim = 8 * NODE_TOL * relax * max(scale, float(np.max(np.abs(direct))))
            if not (np.max(np.abs(first - direct)) <= lim and np.max(np.abs(second + 2.0 * direct)) <= lim):
                ctx.violation("hierarchization-direct", dict(tags, kind="buffer-reuse"), rcase,
                              {"what": "second call on the same object with the same (overwritten) array object",
                               "first_diff": float(np.max(np.abs(first - direct))), "second_diff": float(np.max(np.abs(second + 2.0 * direct)))})
                ok = False
            if not np.allclose(direct, surplus, rtol=0, atol=1e-9 * scale):
                ctx.violation("hierarchization-direct", dict(tags, kind="differs-from-integrate"), rcase,
                              {"max_diff": float(np.max(np.abs(direct - surplus)))})
                ok = False
            for d in range(dim):
                if num_points[d] > 1:
                    c = np.linalg.cond(mats[d])
                    if not c < 1e10:
                        ctx.violation("pole-system-solvable", dict(tags, kind="ill-conditioned"), rcase, {"dim": d, "cond": float(c)})
                        ok = False
        except Exception as e:
            ctx.violation("hierarchization-direct", dict(tags, kind="exception"), rcase,
                          {"exception": exc_kind(e), "message": str(e)[:200]})
            ok = False
    # ---- correspondence with the model (families whose basis objects have a model)
    r = random.Random(case["tseed"] ^ 0x5bd1)
    offpts = []
    for _ in range(case.get("noff", 6)):
        offpts.append(tuple(float(start[d]) + (float(end[d]) - float(start[d])) * (r.randint(0, 64) / 64 if r.random() < 0.8 else r.random())
                            for d in range(dim)))
    try:
        off = np.array(interp(offpts), dtype=float) if (offpts and n_nodes) else None
    except Exception as e:
        ctx.violation(probe, dict(tags, kind="exception", at="off-node interpolate"), rcase,
                      {"exception": exc_kind(e), "message": str(e)[:200],
                       "where": traceback.format_exc().strip().split("\n")[-3].strip()[:160]})
        return False
    if n_nodes and offpts:
        try:
            key = tuple(lv) if is_global else (tuple(start), tuple(end), tuple(lv))
            s0 = np.array(g.surplus_values[key], dtype=float, copy=True)
            ret = interp(nodes)
            again = np.array(ret, dtype=float, copy=True)
            try:
                ret[...] = 12345.0               # the caller scribbles over the returned array
            except Exception:
                pass
            third = np.array(interp(nodes), dtype=float)
            pts = [tuple(y) for y in offpts]
            keep = list(pts)
            r1 = np.array(interp(pts), dtype=float)
            unchanged = pts == keep
            pts[:] = keep[::-1]                  # the caller overwrites its point list in place
            r2 = np.array(interp(pts), dtype=float)
            tiny = 1e-12 * max(scale, float(np.max(np.abs(off))))
            bad = None
            if not (np.array_equal(again, nodal) and np.array_equal(third, nodal)):
                bad = "repeated interpolate at the nodes gives another answer"
            elif not unchanged:
                bad = "interpolate modified the caller's point list"
            elif not (np.max(np.abs(r1 - off)) <= tiny and np.max(np.abs(r2 - off[::-1])) <= tiny):
                bad = "interpolate at a re-used (overwritten) point list of the same length gives stale values"
            elif not np.array_equal(np.array(g.surplus_values[key], dtype=float), s0):
                bad = "interpolate modified the stored surpluses"
            if bad:
                ctx.violation("repeat-query", dict(tags), rcase, {"what": bad})
                ok = False
            ctx.count("repeat_queries")
        except Exception as e:
            ctx.violation("repeat-query", dict(tags, kind="exception"), rcase, {"exception": exc_kind(e), "message": str(e)[:200]})
            ok = False
    specs = [[spec_of(g.get_basis(d, j)) for j in range(num_points[d])] for d in range(dim)]
    have_model = n_nodes > 0 and mats is not None and all(s is not None for sd in specs for s in sd)
    if have_model:
        drv.ask("reset")
        for d in range(dim):
            ans = drv.ask("dim %s %s" % (vec(g.get_coordinates_dim(d)), ";".join(specs[d])))
            if ans != "ok":
                ctx.corr_break("C10/dim-accepted", rcase, {"dim": d, "model": ans})
                return False
        for d in range(dim):
            rows = drv.ask("colloc %d" % d).split(";")
            mm = np.array([[float(Fraction(t)) for t in row.split(",")] for row in rows])
            if mm.shape != mats[d].shape or not np.allclose(mm, mats[d], rtol=0, atol=TOL * max(1.0, float(np.max(np.abs(mm))))):
                ctx.corr_break("C10/collocation-matrix", rcase, {"dim": d, "impl": mats[d].tolist()[:4], "model": mm.tolist()[:4]})
                ok = False
        for n in range(case["outlen"]):
            s = drv.ask("hier " + vec(table[n]))
            if s in ("none", "bad-op"):
                ctx.corr_break("C10/surpluses", rcase, {"component": n, "model": s, "impl": surplus[n].tolist()[:8]})
                ok = False
                continue
            ms = pvec(s)
            sm = np.array([float(x) for x in ms])
            if sm.shape != surplus[n].shape or not np.allclose(sm, surplus[n], rtol=0, atol=TOL * relax * max(scale, float(np.max(np.abs(sm))))):
                ctx.corr_break("C10/surpluses", rcase, {"component": n, "impl": surplus[n].tolist()[:8], "model": sm.tolist()[:8]})
                ok = False
                continue
            if n == 0 or n_nodes <= 200:
                mn = pvec(drv.ask("nodes " + s))
                if [float(x) for x in mn] != table[n].tolist():
                    ctx.corr_break("C10/model-nodal-identity", rcase, {"component": n})
                    ok = False
            for k, y in enumerate(offpts):
                mv = drv.ask("interp %s %s" % (s, vec(y)))
                if mv == "bad-op" or not near(Fraction(mv), off[k][n], scale, TOL * relax):
                    ctx.corr_break("C10/interpolate-off-node", rcase, {"point": y, "component": n, "impl": float(off[k][n]), "model": mv})
                    ok = False
                    break
        ctx.count("model_compared")
    elif n_nodes:
        ctx.count("oracle_only_no_model")
    # ---- knot selection of the hierarchical Lagrange grids vs the model
    if kind == "lagrange" and not case["modified"] and n_nodes and mats is not None:
        for d in range(dim):
            if is_global:
                xs_all, ls_all = gp[d], gl[d]
                bd = 1 if case["boundary"] else 0
            else:
                xs_all = list(np.linspace(start[d], end[d], 2 ** lv[d] + 1))
                ls_all = full_levels(lv[d])
                bd = 1
            ans = drv.ask("hk %d %d %s %s" % (case["p"], bd, vec(xs_all), ",".join(str(int(l)) for l in ls_all)))
            impl = {}
            coords_d = list(g.get_coordinates_dim(d))
            for j in range(num_points[d]):
                bobj = g.get_basis(d, j)
                impl[fs(coords_d[j])] = "%s:%s:%d" % (fs(coords_d[j]), vec(bobj.knots), bobj.index)
            model = {t.split(":")[0]: t for t in ans.split(";")} if ans not in ("assert", "bad-op") else {}
            model = {k: v for k, v in model.items() if k in impl}
            if model != impl:
                ctx.corr_break("C10/knot-selection", rcase, {"dim": d, "impl": sorted(impl.values())[:6], "model": ans[:300]})
                ok = False
            # the refinement-TREE construction (`RTree.ofPoints`, `RTree.grid`) the theorems `collocation_unitriangular`
            # and `hier_lagrange_solvable` speak about: the point set must be a valid tree and carry the same knots
            if bd == 1:
                tans = drv.ask("tk %d %s %s" % (case["p"], vec(xs_all), ",".join(str(int(l)) for l in ls_all)))
                tmodel = {t.split(":")[0]: t for t in tans.split(";")} if tans not in ("no-tree", "bad-op") else {}
                if tmodel != impl:
                    ctx.corr_break("C10/tree-knot-selection", rcase, {"dim": d, "impl": sorted(impl.values())[:6], "model": tans[:300]})
                    ok = False
                ctx.count("tree_model_compared")
            # level-triangular structure of the collocation matrix (hypothesis of `unitriangular_unique`)
            lev_of = {fs(x): int(l) for x, l in zip(xs_all, ls_all)}
            lv_d = [lev_of[fs(x)] for x in coords_d]
            M = mats[d]
            for i in range(num_points[d]):
                for j in range(num_points[d]):
                    want = 1.0 if i == j else (0.0 if lv_d[j] >= lv_d[i] else None)
                    if want is not None and abs(M[i, j] - want) > 1e-12:
                        ctx.corr_break("C10/level-triangular", rcase, {"dim": d, "i": i, "j": j, "entry": float(M[i, j])})
                        ok = False
    # ---- oracle 3: polynomial reproduction off the nodes (complete basis: boundary on)
    if case["fkind"] == "poly" and n_nodes and off is not None:
        exact = np.array([fn(y) for y in offpts], dtype=float)
        sc = max(scale, float(np.max(np.abs(exact))))
        err = float(np.max(np.abs(off - exact)))
        within = bool(case["within_supported"])
        if not err <= 1e-8 * relax * sc:
            k = int(np.argmax(np.max(np.abs(off - exact), axis=1)))
            ctx.violation("poly-reproduction" if within else "poly-literal-degree",
                          dict(tags, within_supported=within, reason=case.get("reason", "")), rcase,
                          {"point": offpts[k], "expected": exact[k].tolist(), "interpolated": off[k].tolist(),
                           "degrees": case["degrees"], "points_per_dim": num_points})
            ok = False
        ctx.count("poly_within" if within else "poly_literal_only")
    # ---- 1-D weights = integrals of the basis functions over the CURRENT area [start,end] (not the whole domain, not the
    # support); grid.integrate = integral of the interpolant over the area = sum surplus * product of those integrals
    if n_nodes:
        try:
            total_basis = sum(num_points)
            all_of_them = total_basis <= 24
            rw = random.Random(case["tseed"] ^ 0x3a17)
            exact_w = []
            wbad = None
            for d in range(dim):
                lo_d, hi_d = float(start[d]), float(end[d])
                wd = np.array(g.weights[d], dtype=float)
                idxs = list(range(num_points[d])) if all_of_them else sorted(rw.sample(range(num_points[d]), min(6 if (not is_global and not tags.get('full_domain', True)) else 3, num_points[d])))
                ex = {}
                for j in idxs:
                    ex[j] = piecewise_integral(g.get_basis(d, j), lo_d, hi_d, case["p"])
                    ctx.count("weights_checked")
                    if wbad is None and (len(wd) != num_points[d] or abs(wd[j] - ex[j]) > 1e-9 * max(1.0, abs(ex[j]), hi_d - lo_d) * 10):
                        wbad = {"dim": d, "basis": j, "coordinate": float(g.get_coordinates_dim(d)[j]), "weight": float(wd[j]) if j < len(wd) else None,
                                "integral_of_basis_over_area": ex[j], "area": [lo_d, hi_d], "class": type(g.get_basis(d, j)).__name__}
                exact_w.append(ex)
            if wbad is not None:
                ctx.violation("grid-weight", dict(tags), rcase, wbad)
                ok = False
            elif all_of_them:
                # tensor contraction of the surpluses with the exact 1-D integrals
                t = np.array(surplus, dtype=float).reshape([case["outlen"]] + [int(n) for n in num_points])
                for d in range(dim - 1, -1, -1):
                    t = np.tensordot(t, np.array([exact_w[d][j] for j in range(num_points[d])]), axes=([d + 1], [0]))
                got = np.atleast_1d(np.array(integral_value, dtype=float)).reshape(-1)
                vol = float(np.prod([float(end[d]) - float(start[d]) for d in range(dim)]))
                wsc = max(1.0, float(np.max(np.abs(surplus)))) * max(vol, 1e-300)
                if got.shape != t.reshape(-1).shape or not np.max(np.abs(got - t.reshape(-1))) <= 1e-8 * relax * wsc * max(1.0, float(np.prod(num_points))) :
                    ctx.violation("grid-integral", dict(tags), rcase,
                                  {"integrate": got.tolist(), "integral_of_interpolant": t.reshape(-1).tolist()})
                    ok = False
                ctx.count("grid_integral_checked")
        except Exception as e:
            ctx.violation("grid-weight", dict(tags, kind="exception"), rcase, {"exception": exc_kind(e), "message": str(e)[:200],
                                                                                "where": traceback.format_exc().strip().split("\n")[-3].strip()[:160]})
            ok = False
    # ---- the basis objects the grid built: first derivative vs finite differences and vs the model
    if n_nodes:
        rr = random.Random(case["tseed"] ^ 0x77)
        for _ in range(3):
            d = rr.randrange(dim)
            j = rr.randrange(num_points[d])
            bobj = g.get_basis(d, j)
            if not hasattr(bobj, "get_first_derivative"):
                continue
            lo_d, hi_d = float(start[d]), float(end[d])
            bps = [k for k in breakpoints(bobj)] + [lo_d, hi_d]
            span = hi_d - lo_d
            inside = sorted(set(k for k in bps if lo_d <= k <= hi_d))
            gaps = [v - u for u, v in zip(inside, inside[1:]) if v - u > 0]
            if not gaps:
                continue
            hh = min(gaps) * 2e-3
            x = lo_d + rr.random() * span
            if min(abs(x - k) for k in bps) < 8 * hh:
                continue
            btags = {"cls": type(bobj).__name__, "family": fam, "p": case["p"]}
            try:
                dv = float(bobj.get_first_derivative(x))
                st, fd = fd_compare(bobj, dv, x, hh, span)
            except Exception as e:
                ctx.violation("basis-derivative", dict(btags, exc=exc_kind(e)), rcase, {"dim": d, "basis": j, "x": x, "exception": str(e)[:200]})
                ok = False
                continue
            ctx.count("grid_basis_derivative_checked")
            if st != "ok":
                ctx.violation("basis-derivative", dict(btags, kind=st) if st != "mismatch" else btags, rcase,
                              {"dim": d, "basis": j, "x": x, "get_first_derivative": dv, "finite_difference": fd})
                ok = False
            sp = spec_of(bobj)
            if sp is not None:
                xq = round(x * 1024) / 1024
                mv = drv.ask("der %s %s" % (sp, fs(xq)))
                try:
                    di = float(bobj.get_first_derivative(xq))
                    if mv == "bad-op" or not near(Fraction(mv), di, max(1.0, abs(di))):
                        ctx.corr_break("C10/grid-basis-derivative", rcase, {"dim": d, "basis": j, "x": xq, "impl": di, "model": mv})
                        ok = False
                except Exception as e:
                    ctx.violation("basis-derivative", dict(btags, exc=exc_kind(e)), rcase, {"dim": d, "basis": j, "x": xq, "exception": str(e)[:200]})
                    ok = False
    # ---- interpolate_grid (tensor-grid variant inside the anchored lines)
    if case.get("check_interpolate_grid") and n_nodes:
        try:
            if is_global:
                ig = g.interpolate_grid([list(g.get_coordinates_dim(d)) for d in range(dim)], cgi)
            else:
                ig = g.interpolate_grid([list(g.get_coordinates_dim(d)) for d in range(dim)], start, end, lv)
            if not np.max(np.abs(np.array(ig).T - table)) <= NODE_TOL * relax * scale:
                ctx.violation("interpolate-grid", dict(tags, kind="nodal-mismatch", outlen=case["outlen"]), rcase,
                              {"max_error": float(np.max(np.abs(np.array(ig).T - table)))})
                ok = False
        except Exception as e:
            ctx.violation("interpolate-grid", {"kind": exc_kind(e), "global": is_global}, rcase, {"message": str(e)[:200]})
            ok = False
    # ---- toggle then second run: `levelToNumPointsWithBoundary` switches the boundary flag of the 1-D grids temporarily
    if not is_global and n_nodes and grid_obj is None:
        try:
            before = ([int(n) for n in num_points], [list(map(float, g.get_coordinates_dim(d))) for d in range(dim)])
            g.levelToNumPointsWithBoundary(lv)
            g.setCurrentArea(start, end, lv)
            after = ([len(g.get_coordinates_dim(d)) for d in range(dim)], [list(map(float, g.get_coordinates_dim(d))) for d in range(dim)])
            if before != after:
                ctx.violation("toggle-second-run", dict(tags), rcase, {"numPoints_first": before[0], "numPoints_second": after[0]})
                ok = False
        except Exception as e:
            ctx.violation("toggle-second-run", dict(tags, kind="exception"), rcase, {"exception": exc_kind(e), "message": str(e)[:200]})
            ok = False
    # (last block: it re-integrates the grid with another function and thereby replaces the stored surpluses)
    # ---- modified B-spline basis (the in-library consumer of the B-spline derivatives): with the boundary functions
    # extrapolated through the second derivative the basis is complete for linear functions (p = 1, 3; for p >= 5 the
    # construction of the unchanged code does not achieve this -- counted, not judged)
    if case["modified"] and kind == "bspline" and n_nodes and offpts:
        lev_lists = ([list(ls) for ls in case["levels"]] if is_global else [full_levels(l) for l in lv])
        if all(complete_level(ls) >= 2 for ls in lev_lists):
            rl = random.Random(case["tseed"] ^ 0x1f3)
            c0 = rl.randint(-8, 8) / 4
            cs = [rl.choice([-2, -1, 1, 2, 3]) / 2 for _ in range(dim)]
            lin = lambda c: [c0 + sum(cs[d] * c[d] for d in range(dim))]
            try:
                g.integrate(make_function(lin, 1), lv, start, end)
                got = np.array(interp(offpts), dtype=float)[:, 0]
                want = np.array([lin(y)[0] for y in offpts])
                lsc = max(1.0, float(np.max(np.abs(want))))
                good = bool(np.max(np.abs(got - want)) <= 1e-8 * relax * lsc)
                if case["p"] in (1, 3):
                    ctx.count("modified_linear_checked")
                    if not good:
                        k = int(np.argmax(np.abs(got - want)))
                        ctx.violation("modified-linear-reproduction", dict(tags), rcase,
                                      {"point": offpts[k], "expected": float(want[k]), "interpolated": float(got[k]),
                                       "function": {"c0": c0, "c": cs}})
                        ok = False
                else:
                    ctx.count("modified_p_ge5_linear_reproduced" if good else "modified_p_ge5_linear_not_reproduced")
            except Exception as e:
                ctx.violation("modified-linear-reproduction", dict(tags, kind="exception"), rcase, {"exception": exc_kind(e), "message": str(e)[:200]})
                ok = False
    return ok


def gen_poly(r, case, per_dim_levels, per_dim_n):
    """choose degrees: normally within what the basis supports; sometimes the literal min(p, n-1)"""
    kind = "lagrange" if "Lagrange" in case["family"] else "bspline"
    p = case["p"]
    sup = [supported_degree(kind, p, ls) for ls in per_dim_levels]
    lit = [min(p, n - 1) for n in per_dim_n]
    degs = [r.randint(0, max(0, s)) if r.random() < 0.3 else max(0, s) for s in sup]
    within = True
    reason = ""
    gaps = [d for d in range(len(sup)) if lit[d] > sup[d]]
    if gaps and r.random() < 0.35:
        d = r.choice(gaps)
        degs[d] = lit[d]
        within = False
        full = complete_level(per_dim_levels[d]) == max(per_dim_levels[d])
        reason = "lagrange-ancestor-knots" if (full and kind == "lagrange") else "incomplete-level"
    case["fkind"] = "poly"
    case["degrees"] = degs
    case["within_supported"] = within
    case["reason"] = reason
    case["poly"] = [[fs(r.randint(-8, 8) / 4) for _ in range(k)] + [fs(r.choice([-2, -1, 1, 2]) / 2)] for k in degs]
    case["outlen"] = r.choice([1, 2, 3])


def graded_tree(r, a, b, npts, mode):
    """dyadic refinement tree with `npts` points, graded towards a ('left'), towards b ('right'), towards the
    middle ('mid') or random"""
    if mode == "random":
        return rand_tree(r, a, b, npts)
    pts = [(a, 0), (b, 0)]
    leaves = [(a, b, 0)]
    target = {"left": a, "right": b, "mid": (a + b) / 2 + (b - a) / 64}[mode]
    while len(pts) < npts:
        cand = [i for i in range(len(leaves)) if leaves[i][2] < 9]
        if r.random() < 0.75:
            k = min(cand, key=lambda i: (min(abs(leaves[i][0] - target), abs(leaves[i][1] - target)), -leaves[i][2]))
        else:
            k = r.choice(cand)
        lo, hi, l = leaves.pop(k)
        m = (lo + hi) / 2
        pts.append((m, l + 1))
        leaves += [(lo, m, l + 1), (m, hi, l + 1)]
    pts.sort()
    return [q for q, _ in pts], [l for _, l in pts]


def gen_history_case(r, thorough):
    """ONE grid object used for several successive grids with EQUAL point counts (>= 15 in one dimension: the QR branch)
    but different shape, then the first one again"""
    is_global = r.random() < 0.8
    fam = r.choice(GLOBAL if is_global else LOCAL)
    p = r.choice([1, 2, 3, 5]) if "Lagrange" in fam else r.choice([1, 3, 5])
    dim = r.choice([1, 1, 2])
    boundary = True if not is_global else (r.random() < 0.8)
    a = [r.choice([0, 0, -1]) for _ in range(dim)]
    b = [a[d] + r.choice([1, 2, 8]) for d in range(dim)]
    base = {"kind": "grid", "family": fam, "p": p, "boundary": boundary, "modified": False,
            "a": [fs(x) for x in a], "b": [fs(x) for x in b], "noff": 3, "fkind": "table", "check_interpolate_grid": False}
    nsteps = r.randint(2, 3)
    steps = []
    if is_global:
        ns = [r.randint(15, 20) if d == 0 else r.choice([3, 4, 5, 15, 16]) for d in range(dim)]
        if boundary is False:
            ns = [n + 2 for n in ns]           # interior point count stays >= 15
        modes = ["left", "right", "mid", "random"]
        r.shuffle(modes)
        for k in range(nsteps):
            points, levels = [], []
            for d in range(dim):
                xs, ls = graded_tree(r, float(a[d]), float(b[d]), ns[d], modes[(k + d) % 4])
                points.append([fs(x) for x in xs])
                levels.append([int(l) for l in ls])
            steps.append(dict(base, points=points, levels=levels, tseed=r.randrange(1 << 30), outlen=r.choice([2, 3])))
    else:
        lv = [4 if d == 0 else r.choice([1, 2]) for d in range(dim)]
        for k in range(nsteps):
            start, end = [], []
            for d in range(dim):
                kk = r.choice([1, 2, 4])
                i = r.randrange(kk)
                w = (b[d] - a[d]) / kk
                start.append(a[d] + i * w)
                end.append(a[d] + (i + 1) * w)
            steps.append(dict(base, start=[fs(x) for x in start], end=[fs(x) for x in end], lv=lv,
                              tseed=r.randrange(1 << 30), outlen=r.choice([2, 3])))
    steps.append(dict(steps[0], tseed=r.randrange(1 << 30)))   # the first grid again
    return {"kind": "history", "family": fam, "p": p, "steps": steps}


def run_history_case(ctx, drv, case):
    steps = case["steps"]
    try:
        g, _, _ = build_grid(steps[0])
    except Exception as e:
        ctx.violation("history-construct", {"family": case["family"], "exc": exc_kind(e)}, case, {"message": str(e)[:200]})
        return False
    ok = True
    for k, st in enumerate(steps):
        ok = run_grid_case(ctx, drv, st, grid_obj=g, report_case=case, step=k) and ok
        ctx.count("history_steps")
    ctx.count("history_" + case["family"])
    return ok


def tree_with_max_level(r, a, b, L, extra):
    """dyadic refinement tree whose deepest level is exactly L: one random path down to level L plus `extra` random
    refinements of leaves above level L"""
    pts = [(a, 0), (b, 0)]
    leaves = []
    lo, hi = a, b
    for l in range(1, L + 1):
        m = (lo + hi) / 2
        pts.append((m, l))
        if r.random() < 0.5:
            leaves.append((m, hi, l))
            hi = m
        else:
            leaves.append((lo, m, l))
            lo = m
    leaves.append((lo, hi, L))
    for _ in range(extra):
        cand = [i for i in range(len(leaves)) if leaves[i][2] < L]
        if not cand:
            break
        lo, hi, l = leaves.pop(r.choice(cand))
        m = (lo + hi) / 2
        pts.append((m, l + 1))
        leaves += [(lo, m, l + 1), (m, hi, l + 1)]
    pts.sort()
    return [q for q, _ in pts], [l for _, l in pts]


def gen_siblings_case(r, thorough):
    """TWO grid objects alive at the same time with EQUAL level vectors (global grids: the key of `surplus_values`;
    local grids: equal area and level vector), different family / order / function / box / tree"""
    is_global = r.random() < 0.8
    dim = r.choice([1, 2, 2])
    cases = []
    if is_global:
        L = [r.randint(2, 4) for _ in range(dim)]
        for _ in range(2):
            fam = r.choice(GLOBAL)
            p = r.choice([1, 2, 3, 5]) if "Lagrange" in fam else r.choice([1, 3, 5])
            a = [r.choice([0, 0, -1, -3]) for _ in range(dim)]
            b = [a[d] + r.choice([1, 2, 8]) for d in range(dim)]
            points, levels = [], []
            for d in range(dim):
                xs, ls = tree_with_max_level(r, float(a[d]), float(b[d]), L[d], r.randint(0, 5))
                points.append([fs(x) for x in xs])
                levels.append([int(l) for l in ls])
            cases.append({"kind": "grid", "family": fam, "p": p, "boundary": r.random() < 0.8, "modified": False,
                          "a": [fs(x) for x in a], "b": [fs(x) for x in b], "points": points, "levels": levels,
                          "tseed": r.randrange(1 << 30), "fkind": "table", "outlen": r.choice([1, 2, 3])})
        if r.random() < 0.3:      # identical point counts: a foreign surplus array then fits silently
            cases[1]["points"], cases[1]["levels"] = cases[0]["points"], cases[0]["levels"]
            cases[1]["a"], cases[1]["b"], cases[1]["boundary"] = cases[0]["a"], cases[0]["b"], cases[0]["boundary"]
            cases[1]["outlen"] = cases[0]["outlen"]
    else:
        a = [r.choice([0, -1]) for _ in range(dim)]
        b = [a[d] + r.choice([1, 2]) for d in range(dim)]
        lv = [r.randint(1, 3) for _ in range(dim)]
        kk = r.choice([1, 2, 4])
        start = [a[d] + r.randrange(kk) * (b[d] - a[d]) / kk for d in range(dim)]
        end = [start[d] + (b[d] - a[d]) / kk for d in range(dim)]
        ol = r.choice([1, 2, 3])
        for _ in range(2):
            fam = r.choice(LOCAL)
            p = r.choice([1, 2, 3, 5]) if "Lagrange" in fam else r.choice([1, 3, 5])
            cases.append({"kind": "grid", "family": fam, "p": p, "boundary": True, "modified": False,
                          "a": [fs(x) for x in a], "b": [fs(x) for x in b], "start": [fs(x) for x in start],
                          "end": [fs(x) for x in end], "lv": lv, "tseed": r.randrange(1 << 30), "fkind": "table", "outlen": ol})
    return {"kind": "siblings", "A": cases[0], "B": cases[1], "tseed2": r.randrange(1 << 30)}


def run_siblings_case(ctx, drv, case):
    """A integrate, B integrate, A interpolate, B interpolate, A integrate another function, B interpolate, A interpolate;
    every interpolation must return the table of ITS OWN object's last integration (and agree with a fresh object)"""
    from sparseSpACE import Grid as _G  # noqa: F401
    from sparseSpACE.ComponentGridInfo import ComponentGridInfo
    tags = {"familyA": case["A"]["family"], "familyB": case["B"]["family"],
            "global": case["A"]["family"] in GLOBAL, "dim": len(case["A"]["a"])}

    class Obj:
        pass

    def setup(sub):
        o = Obj()
        o.sub = sub
        o.g, a, b = build_grid(sub)
        o.dim = len(sub["a"])
        if sub["family"] in GLOBAL:
            gp = [[float(Fraction(t)) for t in xs] for xs in sub["points"]]
            gl = [list(ls) for ls in sub["levels"]]
            o.g.set_grid(gp, gl)
            o.lv = [max(ls) for ls in gl]
            o.start, o.end = a, b
            cgi = ComponentGridInfo(o.lv, 1)
            o.interp = lambda pts: o.g.interpolate(pts, cgi)
        else:
            o.lv = list(sub["lv"])
            o.start = np.array([float(Fraction(t)) for t in sub["start"]])
            o.end = np.array([float(Fraction(t)) for t in sub["end"]])
            o.g.setCurrentArea(o.start, o.end, o.lv)
            o.interp = lambda pts: o.g.interpolate(pts, o.start, o.end, o.lv)
        o.nodes = [tuple(float(x) for x in pt) for pt in o.g.getPoints()]
        rr = random.Random(sub["tseed"] ^ 0x5bd1)
        o.off = [tuple(dy(rr, float(o.start[d]), float(o.end[d]), 64) for d in range(o.dim)) for _ in range(3)]
        return o

    def integrate(o, tseed):
        fn = table_function(dict(o.sub, tseed=tseed), o.nodes)
        o.table = np.array([fn(c) for c in o.nodes], dtype=float).reshape(len(o.nodes), o.sub["outlen"])
        o.g.integrate(make_function(fn, o.sub["outlen"]), o.lv, o.start, o.end)
        # what a fresh object of the same kind returns off the nodes for the same table
        f = setup(o.sub)
        f.g.integrate(make_function(fn, o.sub["outlen"]), f.lv, f.start, f.end)
        o.fresh_off = np.array(f.interp(o.off), dtype=float) if o.nodes else None
        num_points = [len(o.g.get_coordinates_dim(d)) for d in range(o.dim)]
        cp = 1.0
        for d in range(o.dim):
            xs = o.g.get_coordinates_dim(d)
            if num_points[d] > 1:
                M = np.array([[o.g.get_basis(d, j)(xs[i]) for j in range(num_points[d])] for i in range(num_points[d])], dtype=float)
                cp *= min(float(np.linalg.cond(M)), 1e16)
        o.relax = max(1.0, 8 * 2.2e-16 * cp / NODE_TOL)

    def observe(o, who, step):
        if not o.nodes:
            return True
        scale = max(1.0, float(np.max(np.abs(o.table))))
        vals = np.array(o.interp(o.nodes), dtype=float)
        if vals.shape != o.table.shape or not np.max(np.abs(vals - o.table)) <= NODE_TOL * o.relax * scale:
            err = float(np.max(np.abs(vals - o.table))) if vals.shape == o.table.shape else None
            ctx.violation("sibling-roundtrip", dict(tags, observed=who, step=step, kind="nodal-mismatch"), case,
                          {"max_error": err, "shape": list(vals.shape), "expected_shape": list(o.table.shape)})
            return False
        offv = np.array(o.interp(o.off), dtype=float)
        if not np.max(np.abs(offv - o.fresh_off)) <= 1e-8 * o.relax * max(scale, float(np.max(np.abs(o.fresh_off)))):
            ctx.violation("sibling-roundtrip", dict(tags, observed=who, step=step, kind="differs-from-fresh-object"), case,
                          {"point": o.off[int(np.argmax(np.max(np.abs(offv - o.fresh_off), axis=1)))],
                           "max_diff": float(np.max(np.abs(offv - o.fresh_off)))})
            return False
        return True

    step = "setup"
    try:
        A, B = setup(case["A"]), setup(case["B"])
        step = "A.integrate"
        integrate(A, case["A"]["tseed"])
        step = "B.integrate"
        integrate(B, case["B"]["tseed"])
        ok = True
        for k, (o, who) in enumerate([(A, "A"), (B, "B")]):
            step = "%s.interpolate after both integrated" % who
            ok = observe(o, who, step) and ok
        step = "A.integrate again"
        integrate(A, case["tseed2"])
        for o, who in [(B, "B"), (A, "A")]:
            step = "%s.interpolate after A integrated again" % who
            ok = observe(o, who, step) and ok
    except Exception as e:
        # local boundary-off grids etc. are not generated here: an exception is a failure of the round trip
        ctx.violation("sibling-roundtrip", dict(tags, step=step, kind="exception"), case,
                      {"exception": exc_kind(e), "message": str(e)[:200],
                       "where": traceback.format_exc().strip().split("\n")[-3].strip()[:160]})
        return False
    ctx.count("siblings_global" if tags["global"] else "siblings_local")
    ctx.count("siblings_same_family" if tags["familyA"] == tags["familyB"] else "siblings_cross_family")
    return ok


def extreme_box(r, dim):
    """boxes far from the origin (|a| / (b - a) up to 1e4, both signs) and tiny boxes (width down to 2^-40), dyadic so
    that every grid point stays exactly representable"""
    a, b = [], []
    for _ in range(dim):
        if r.random() < 0.5:
            w = 2.0 ** (-r.randint(0, 8))
            k = r.randint(100, 10000) * r.choice([-1, 1])
            a.append(k * w)
            b.append(k * w + w * r.choice([1, 1, 2]))
        else:
            w = 2.0 ** (-r.randint(20, 40))
            k = r.choice([0, 0, 1, -1, 3, -5])
            a.append(k * w)
            b.append(k * w + w)
    return a, b


def gen_local_case(r, thorough):
    fam = r.choice(LOCAL)
    p = r.choice([1, 2, 3, 5, 1, 2, 3, 5, 4, 6, 7, 8, 9]) if fam == "LagrangeGrid" else r.choice([1, 3, 5, 1, 3, 5, 1, 3, 5, 1, 3, 5, 7, 9])
    dim = r.choice([1, 1, 2, 2, 3])
    boundary = r.random() < 0.8
    modified = (not boundary) and fam == "BSplineGrid" and r.random() < 0.4
    a = [r.choice([0, 0, -1]) for _ in range(dim)]
    b = [a[d] + r.choice([1, 1, 2, 3]) for d in range(dim)]
    extreme = r.random() < 0.15
    if extreme:
        a, b = extreme_box(r, dim)
    start, end = [], []
    for d in range(dim):
        if r.random() < 0.4:
            s, e = a[d], b[d]
        else:
            k = r.choice([2, 4, 8])
            i = r.randrange(k)
            w = (b[d] - a[d]) / k
            s, e = a[d] + i * w, a[d] + (i + 1) * w
        start.append(s)
        end.append(e)
    budget = 1300 if thorough else 350
    if "BSpline" in fam and p >= 7:
        budget = 100          # the Cox-de Boor recursion costs 2^p calls per evaluation (code and model)
    while True:
        lv = [r.randint(0, 5 if dim == 1 else (4 if dim == 2 else 3)) for _ in range(dim)]
        if np.prod([2 ** l + 1 for l in lv]) <= budget:
            break
    case = {"kind": "grid", "family": fam, "p": p, "boundary": boundary, "modified": modified,
            "a": [fs(x) for x in a], "b": [fs(x) for x in b], "start": [fs(x) for x in start], "end": [fs(x) for x in end],
            "lv": lv, "tseed": r.randrange(1 << 30), "noff": 5, "bflavor": r.choice(["bool", "bool", "npbool", "int"])}
    if extreme:
        case["polynorm"] = True
    if boundary and r.random() < 0.45:
        gen_poly(r, case, [full_levels(l) for l in lv], [2 ** l + 1 for l in lv])
    else:
        case["fkind"] = "table"
        case["outlen"] = r.choice([1, 2, 3])
    case["check_interpolate_grid"] = r.random() < 0.1
    return case


def gen_global_case(r, thorough):
    fam = r.choice(GLOBAL)
    p = r.choice([1, 2, 3, 5, 1, 2, 3, 5, 4, 6, 7, 8, 9]) if fam == "GlobalLagrangeGrid" else r.choice([1, 3, 5, 1, 3, 5, 1, 3, 5, 1, 3, 5, 7, 9])
    dim = r.choice([1, 1, 2, 2, 3])
    boundary = r.random() < 0.7
    modified = (not boundary) and r.random() < 0.4
    a = [r.choice([0, 0, -1, -3]) for _ in range(dim)]
    b = [a[d] + r.choice([1, 1, 2, 9]) for d in range(dim)]
    extreme = r.random() < 0.15
    if extreme:
        a, b = extreme_box(r, dim)
    budget = 1300 if thorough else 320
    if "BSpline" in fam and p >= 7:
        budget = 100          # the Cox-de Boor recursion costs 2^p calls per evaluation (code and model)
    while True:
        ns = []
        for d in range(dim):
            x = r.random()
            if x < 0.3:
                ns.append(r.randint(13, 17))          # both sides of the dense/QR switch
            elif x < 0.45 and dim <= 2:
                ns.append(r.randint(18, 33))
            else:
                ns.append(r.randint(3, 12))
        if np.prod(ns) <= budget:
            break
    points, levels = [], []
    for d in range(dim):
        if r.random() < 0.25:
            l = max(1, min(5, int(math.log2(max(2, ns[d] - 1)))))
            xs = list(np.linspace(a[d], b[d], 2 ** l + 1))
            ls = full_levels(l)
        else:
            xs, ls = rand_tree(r, float(a[d]), float(b[d]), ns[d])
        points.append([fs(x) for x in xs])
        levels.append([int(l) for l in ls])
    case = {"kind": "grid", "family": fam, "p": p, "boundary": boundary, "modified": modified,
            "a": [fs(x) for x in a], "b": [fs(x) for x in b], "points": points, "levels": levels,
            "tseed": r.randrange(1 << 30), "noff": 5, "bflavor": r.choice(["bool", "bool", "npbool", "int"])}
    if extreme:
        case["polynorm"] = True
    if boundary and r.random() < 0.45:
        gen_poly(r, case, levels, [len(x) for x in points])
    else:
        case["fkind"] = "table"
        case["outlen"] = r.choice([1, 2, 3])
    case["check_interpolate_grid"] = r.random() < 0.1
    return case


# ---------------------------------------------------------------------------------------------- malformed stream
def run_malformed(ctx, drv):
    """inputs the implementation rejects / the driver must reject (never a default value)"""
    from sparseSpACE import BasisFunctions as BF
    ok = True
    # index outside the knot list: IndexError in the implementation, rejected by the driver
    try:
        BF.LagrangeBasis(2, 3, np.array([0.0, 0.5, 1.0]))
        impl = "accepted"
    except IndexError:
        impl = "rejected"
    if drv.ask("val L:0,1/2,1:3 1/4") != "bad-op" or impl != "rejected":
        ctx.corr_break("C10/malformed-index", {"kind": "malformed"}, {"impl": impl})
        ok = False
    # BSpline index assertion
    try:
        BF.BSpline(3, 2, np.array([0.0, 1.0, 2.0, 3.0, 4.0, 5.0]))
        impl = "accepted"
    except AssertionError:
        impl = "rejected"
    if drv.ask("val B:3:0,1,2,3,4,5:2 1/2") != "bad-op" or impl != "rejected":
        ctx.corr_break("C10/malformed-bspline-index", {"kind": "malformed"}, {"impl": impl})
        ok = False
    if drv.ask("tk 2 0,1/4,1/2,1 0,1,2,0") != "no-tree" or drv.ask("tk 2 0,1/2,1 0,2,0") != "no-tree":
        ctx.corr_break("C10/malformed-tree-accepted", {"kind": "malformed"}, {})
        ok = False
    for line in ("val", "val X:0,1:0 1", "tk 0 0,1 0,0", "tk 2 0 0", "der L:0,1:0", "hier 1,2", "interp 1 1", "dim 0,1 L:0,1:5", "hk 0 1 0,1 0,0",
                 "int L:0,1:0 0 1 0,1 2", "colloc 7", "nodes a,b", "val L:0,1/0:0 1"):
        if drv.ask(line) != "bad-op":
            ctx.corr_break("C10/malformed-line-not-rejected", {"kind": "malformed", "line": line}, {})
            ok = False
    drv.ask("reset")
    ctx.count("malformed_lines", 13)
    return ok


# ---------------------------------------------------------------------------------------------- entry points
def run_case(ctx, drv, case):
    if case["kind"] == "basis":
        return run_basis_case(ctx, drv, case)
    if case["kind"] == "history":
        return run_history_case(ctx, drv, case)
    if case["kind"] == "siblings":
        return run_siblings_case(ctx, drv, case)
    return run_grid_case(ctx, drv, case)


def canon(case):
    return {k: v for k, v in case.items() if k not in ("noff",)}


def run(ctx):
    thorough = ctx.tier == "thorough"
    ctx.rule = ("(a) basis objects: random strictly increasing dyadic knot lists (1-8 knots, BSpline p 0-5), value / first derivative / "
                "get_integral compared with the exact model and with finite differences / scipy.quad; (b) local LagrangeGrid/BSplineGrid "
                "(p in 1,2,3,5; boundary on/off; dim 1-3; level vectors; dyadic sub-boxes) and (c) GlobalLagrangeGrid/GlobalBSplineGrid on random "
                "dyadic refinement trees (3-33 points per dimension, 30% with 13-17 points around the dense/QR switch), each with a vector-valued "
                "dyadic table or a tensor polynomial; a case is distinct by its full description and non-trivial if the grid has >= 3 nodes or the "
                "basis >= 2 knots; (d) object histories: ONE grid object (hence one HierarchizationLSG inside its integrator) used for 2-3 successive "
                "grids of equal point counts (15-20 in dimension 0: QR branch) but different shape (graded left / right / middle / random; local: "
                "successive sub-areas with equal level vector), then the first one again, every step with the full oracle, the model and a fresh "
                "HierarchizationLSG; (e) siblings: two grid objects alive (both subclasses and the same one; global: equal level vectors, different "
                "tree / box / order / function; local: equal area and level vector), A integrate, B integrate, A and B interpolate, A integrate another "
                "function, B and A interpolate -- each must return its own table and agree with a fresh object")
    ctx.assumptions = [
        "numpy.linalg.solve / qr + solve_triangular are modelled as one exact rational solve (Gaussian elimination, proved sound)",
        "that the hierarchical bases span the polynomials of degree <= min(p, complete level + 1) resp. the not-a-knot B-spline degree is validated by the oracle, not proved",
        "B-spline values/derivatives are modelled exactly (Cox-de Boor as coded) but no theorem is stated about them; Gauss-Legendre nodes are inputs",
    ]
    drv = ctx.driver("drv_c10")
    r = ctx.rng
    run_malformed(ctx, drv)
    # the time budget is counted from HERE (the Lean build / audit before it may take long after a fresh restore and
    # must not eat the exploration); a minimum number of cases is run regardless of the time
    import signal
    import time
    t_run = time.time()
    left = lambda b: b - (time.time() - t_run)
    budget = 70 if not thorough else 530
    n_basis = 120 if not thorough else 700
    min_basis = 120
    min_grid = 120 if not thorough else 500
    case_limit = 120          # seconds for ONE case; a slower case is reported, never silently absorbed
    state = {"drv": drv}

    class CaseTimeout(Exception):
        pass

    def on_alarm(signum, frame):
        raise CaseTimeout()

    def guarded(case):
        t0 = time.time()
        old_handler = signal.signal(signal.SIGALRM, on_alarm)
        signal.setitimer(signal.ITIMER_REAL, case_limit)
        try:
          try:
            return run_case(ctx, state["drv"], case)
          except CaseTimeout:
            raise
          except Exception as e:
            # an exception of the implementation on a valid input is a violation with this case as replay, never a
            # harness crash; an exception of the harness itself is reported WITH the case
            import common
            tb = traceback.extract_tb(e.__traceback__)
            in_impl = bool(tb) and os.path.realpath(tb[-1].filename).startswith(os.path.realpath(common.REPO))
            info = {"exception": exc_kind(e), "message": str(e)[:200], "where": "%s:%d %s" % (os.path.basename(tb[-1].filename), tb[-1].lineno, tb[-1].line) if tb else ""}
            if in_impl:
                ctx.violation("exception-on-valid-input", {"kind": case.get("kind"), "family": case.get("family", case.get("cls"))}, case, info)
            else:
                ctx.corr_break("C10/harness-exception", case, dict(info, traceback=traceback.format_exc()[-1500:]))
            return False
        except CaseTimeout:
            ctx.corr_break("C10/case-time-limit", case, {"limit_s": case_limit})
            state["drv"] = ctx.driver("drv_c10")     # the old connection may be in the middle of an answer
            return False
        finally:
            signal.setitimer(signal.ITIMER_REAL, 0)
            signal.signal(signal.SIGALRM, old_handler)
            dt = time.time() - t0
            if dt > 10:
                ctx.count("case_slower_than_10s")
            ctx.extra["slowest_case_s"] = round(max(ctx.extra.get("slowest_case_s", 0.0), dt), 2)

    nb = ng = 0
    for i in range(n_basis):
        case = gen_basis_case(r)
        guarded(case)
        nb += 1
        ctx.case(canon(case), nontrivial=len(case["knots"]) >= 2, sample=case if i < 1 else None)
        if nb >= min_basis and left(budget * 0.35) < 0:
            break
    stopped_early = False
    while ng < min_grid or left(budget) > 0:
        if ng % 12 == 3:
            case = gen_history_case(r, thorough)      # object histories (at least 12 in quick: min_grid / 12)
        elif ng % 12 == 7:
            case = gen_siblings_case(r, thorough)     # two objects alive, equal level vectors, interleaved use
        else:
            case = gen_local_case(r, thorough) if ng % 2 == 0 else gen_global_case(r, thorough)
        guarded(case)
        small = {kk: (vv if kk not in ("points", "levels", "steps", "A", "B") else (len(vv) if not isinstance(vv, dict) else vv.get("family"))) for kk, vv in case.items()}
        ctx.case(canon(case), nontrivial=True, sample=small if ng < 3 else None)
        ng += 1
        if (len(ctx.violations) + len(ctx.corr_breaks)) >= 40:
            stopped_early = True
            break
    ctx.extra["basis_cases"] = nb
    ctx.extra["grid_cases"] = ng
    if not stopped_early and (nb < min_basis or ng < min_grid):
        ctx.corr_break("C10/exploration-too-small", {"kind": "malformed"}, {"basis_cases": nb, "grid_cases": ng})


def replay(ctx, rp):
    case = rp["case"]
    drv = ctx.driver("drv_c10")
    if case.get("kind") == "malformed":
        ok = run_malformed(ctx, drv)
    else:
        ok = run_case(ctx, drv, case)
    good = ok and not ctx.violations and not ctx.corr_breaks
    print("replay: %s" % ("property holds and model agrees on this case" if good else
                          ("REPRODUCED (listed known finding only)" if not ctx.violations and not ctx.corr_breaks else "REPRODUCED")))
    for v in ctx.violations[:4]:
        print("  violation:", v["probe"], v["tags"], str(v["detail"])[:400])
    for c in ctx.corr_breaks[:4]:
        print("  disagreement:", c["observable"], str(c["detail"])[:400])
    if ctx.known_hits:
        for fid, (f, n) in ctx.known_hits.items():
            print("  known finding:", fid, f["what"])
    for d in ctx._drivers:
        d.close()
    return 0 if (ok and not ctx.violations and not ctx.corr_breaks) else 1
