"""C19 -- classification assigns the arg-max density class under the learning scaling.

Correspondence: `Classification` objects (real learning: standard / dimension-wise combination; or scripted
density callables with many exact ties) are driven through `__init__`, learning, and a history of
`__call__` / `test_data` / `evaluate` calls; after EVERY step the observable state and results are compared with
the Lean model `Model/Classify` (driver `drv_c19`).  The learned densities are an oracle of the model: the rows
are READ from the implementation's classificators at the returned scaled positions and fed to the model, which
must then predict classes, kept / removed / omitted samples, summaries, stored classes and the error kinds.

Oracle (independent of the model): the clauses of the property evaluated directly on the implementation --
position = (x - lo) * 0.99 / (hi - lo) + 0.005 with lo / hi fixed at learning, recomputed in exact fractions;
removed <=> a coordinate outside [0.0049, 0.9951]; removed samples reported; class = label of the FIRST
maximal density at that position; unlabelled samples excluded from the summary; wrong / total / percentage;
stored scaling and earlier results unchanged by later calls; re-evaluation of earlier data at the end of the
history gives the same classes; `evaluate()` stays consistent after `test_data`; `test_data` collects the set-aside and the
tested samples in `_omitted_data` / `_testing_data`.
"""
import contextlib
import copy
import io
import itertools
import os
import json
import re
import time
from fractions import Fraction as F

import numpy as np

from common import frac_str

LO_T, HI_T, WIDTH = F(1, 200), F(199, 200), F(99, 100)
THR_LO, THR_HI = F(49, 10000), F(9951, 10000)
AMBIG = F(1, 10 ** 9)


# ------------------------------------------------------------------------------------------------ helpers
def quiet(f):
    buf = io.StringIO()
    with contextlib.redirect_stdout(buf):
        res = f()
    return res, buf.getvalue()


def fmt_pt(p):
    return ",".join(frac_str(float(x)) for x in p)


def fmt_data(rows):
    """rows: list of (coords, label)"""
    if not rows:
        return "-"
    return ";".join(fmt_pt(p) + ":" + str(int(l)) for p, l in rows)


def parse_data(s):
    if s == "-":
        return []
    out = []
    for it in s.split(";"):
        parts = it.split(":")
        out.append(([F(x) for x in parts[0].split(",")],) + tuple(int(x) for x in parts[1:]))
    return out


def parse_nats(s):
    return [] if s == "-" else [int(x) for x in s.split(",")]


def fields(line, keys):
    """'ok A x B y' -> {'A': 'x', 'B': 'y'}"""
    toks = line.split(" ")
    out = {}
    i = 1
    while i < len(toks):
        if toks[i] in keys:
            k = toks[i]
            vals = []
            i += 1
            while i < len(toks) and toks[i] not in keys:
                vals.append(toks[i])
                i += 1
            out[k] = " ".join(vals)
        else:
            i += 1
    return out


def near(a, b, tol=1e-9):
    return abs(float(a) - float(b)) <= tol * max(1.0, abs(float(b)))


def pts_close(p, q, tol=1e-9):
    return len(p) == len(q) and all(near(a, b, tol) for a, b in zip(p, q))


def multiset_close(a, b):
    """two lists of (coords, label) are equal as multisets up to rounding"""
    if len(a) != len(b):
        return False
    rest = list(b)
    for p, l in a:
        for k, (q, m) in enumerate(rest):
            if l == m and pts_close(p, q):
                del rest[k]
                break
        else:
            return False
    return True


def err_kind(e):
    m = str(e)
    t = type(e).__name__
    if t == "AttributeError" and "needs to be performed" in m:
        return "notPerformed"
    if "empty dataset" in m and ("classificate" in m or "test" in m):
        return "emptyInput"
    if "could not be broadcast" in m or "scaling factor needs to have the same dimension" in m:
        return "dimMismatch"
    if "scaling doesn't match" in m:
        return "scalingMismatch"
    if "out of bounds. Please only" in m:
        return "allOutOfBounds"
    if "have to be the same amount" in m:
        return "lengthMismatch"
    if "Nothing to evaluate" in m:
        return "nothingToEvaluate"
    if t == "ZeroDivisionError":
        return "divZero"
    if "empty or classless" in m:
        return "emptyLearning"
    if "Invalid dataset range" in m:
        return "invalidRange"
    if "same object twice" in m:
        return "twice"
    if t == "IndexError" and "index 1 is out of bounds for axis 0 with size 1" in m:
        return "indexError1D"
    if (t == "IndexError" and "index 0 is out of bounds for axis 0 with size 0" in m) or (t == "AxisError" and "axis 1 is out of bounds" in m):
        return "emptyClassify"     # `_classificate` on an empty sample array
    return "other:" + t + ":" + m[:80]


class Scripted:
    """a scripted 'classificator': piecewise constant on a G x .. x G partition of the scaled unit cube, values
    from a small table of dyadics (many exact ties between classes)"""

    def __init__(self, table, g):
        self.table = table
        self.g = g

    def cell(self, p):
        c = 0
        for x in p:
            k = int(np.floor(float(x) * self.g))
            k = min(max(k, 0), self.g - 1)
            c = c * self.g + k
        return c

    def __call__(self, points):
        pts = np.asarray(points, dtype=float)
        if pts.size == 0:
            return np.zeros((0, 1))
        return np.array([[self.table[self.cell(p) % len(self.table)]] for p in pts])

    def boundary_close(self, p):
        return any(abs(float(x) * self.g - round(float(x) * self.g)) < 1e-7 for x in p)


# ------------------------------------------------------------------------------------------------ generation
def dy(r, lo, hi, bits):
    """random dyadic in [lo, hi] with `bits` fractional bits"""
    n = 1 << bits
    return r.randint(int(np.ceil(lo * n)), int(np.floor(hi * n))) / n


def add_history_flags(r, case, dim, ncls, off, size):
    """process history that is part of the replay: what the CALLER does with its own arrays and with returned objects,
    a second call of the learning routine, and a sibling object that is alive (and works) at the same time"""
    case["clobber_ctor"] = r.random() < 0.3          # the caller overwrites the arrays it built the constructor DataSet from
    case["perform_twice"] = r.random() < 0.1
    if r.random() < 0.2 and dim >= 2:
        n = r.randint(20, 40)
        sdata = [[off[d] + size[d] * dy(r, 0, 1, 6) for d in range(dim)] + [i % ncls] for i in range(n)]
        case["sibling"] = {"data": sdata, "p": r.choice([1.0, 0.75]),
                           "batch": [[off[d] + size[d] * dy(r, 0, 1, 6) for d in range(dim)] + [r.randrange(ncls)] for _ in range(r.randint(3, 8))]}


def add_op_flags(r, case):
    for op in case["ops"]:
        op["repeat"] = r.choice([0, 0, 1, 2])          # the same request again, immediately: same answer, nothing stored changes
        op["clobber"] = r.random() < 0.3               # afterwards the caller overwrites its batch arrays / the DataSet / the result
        op["poke"] = r.choice([None, None, None, "testing", "learning", "omitted", "classes", "range", "factor"])
        op["sib"] = r.random() < 0.5                   # the sibling object works before this request
        op["print_output"] = r.random() < 0.3          # test_data(print_output=True, print_incorrect_points=...)
        op["print_eval"] = r.random() < 0.15           # print_evaluation() / get_number_of_sparse_grid_points() / get_time_used() first


def gen_intgrid_case(ctx):
    """integer-valued features 0..16 (value 8 = exactly the centre of the learned range = scaled coordinate 0.5, a grid
    line of every component grid), standard learning with levels 3..5 so that the scheme contains component grids with
    >= 200 points (the per-point interpolation branch); later data sit on the grid lines 0.5 / 0.25 / 0.75 as well"""
    r = ctx.rng
    ncls = r.choice([2, 3, 3])
    centers = r.sample([[8, 4], [8, 12], [3, 8], [12, 8], [4, 4], [12, 12]], ncls)
    data = [[0.0, 0.0, 0], [16.0, 16.0, 1 % ncls]]
    for i in range(r.randint(45, 80)):
        c = i % ncls
        data.append([float(min(16, max(0, centers[c][d] + r.randint(-3, 3)))) for d in range(2)] + [c])
    case = {"stream": "learned", "family": "intgrid", "dim": 2, "data": data, "range": None, "p": r.choice([1.0, 0.75, 0.5]),
            "even": r.random() < 0.5, "shuffle": None,
            "learn": {"kind": "std", "masslumping": True, "lambd": r.choice([0.0, 0.0, 0.01]), "lmin": 3, "lmax": 5,
                      "one_vs_others": False},
            "ops": [], "reeval_learning": r.random() < 0.5}
    add_history_flags(r, case, 2, ncls, [0.0, 0.0], [16.0, 16.0])
    vals = [8.0, 8.0, 8.0, 4.0, 12.0, 2.0, 14.0, 6.0, 10.0]
    for _ in range(r.randint(2, 3)):
        rows = []
        for _ in range(r.randint(6, 12)):
            x = r.random()
            if x < 0.4:
                p = [r.choice(vals), r.randint(0, 32) / 2.0]
            elif x < 0.8:
                p = [r.randint(0, 32) / 2.0, r.choice(vals)]
            else:
                p = [r.randint(0, 256) / 16.0, r.randint(0, 256) / 16.0]
            rows.append(p + [r.choice(list(range(ncls)) + [-1])])
        case["ops"].append({"op": r.choice(["call", "test"]), "mode": "gridline", "data": rows, "pre": None,
                            "print_removed": True, "reeval": True})
    if r.random() < 0.25:
        # 3-D variant: levels 3..4, component grids (3,3,4) = 735 points and (3,3,3) = 343 points
        case["dim"] = 3
        case["data"] = [row[:2] + [float(r.choice([0, 4, 8, 8, 12, 16]))] + [row[-1]] for row in data]
        case["data"][0][2], case["data"][1][2] = 0.0, 16.0
        case["learn"]["lmax"] = 4
        case.pop("sibling", None)
        for op in case["ops"]:
            op["data"] = [row[:2] + [float(r.choice([8, 8, 4, 12, 3.5, 10.25]))] + [row[-1]] for row in op["data"]]
    add_op_flags(r, case)
    return case


def gen_case(ctx, k_case):
    r = ctx.rng
    thorough = ctx.tier == "thorough"
    if k_case < 2 or r.random() < 0.04:
        return gen_intgrid_case(ctx)
    stream = "learned" if r.random() < 0.45 else "scripted"
    dim = r.choice([2] * 12 + [3, 3, 1, 4])
    ncls = r.choice([2, 2, 3, 3, 4])
    n = r.randint(40, 120) if stream == "learned" else r.randint(6, 60)
    # affine placement of the data (offset and size dyadic) so that lo / hi are not 0 / 1
    off = [r.choice([0.0, 0.0, -3.0, 0.5, 10.0, -0.125]) for _ in range(dim)]
    size = [r.choice([1.0, 1.0, 2.0, 0.5, 8.0, 0.25]) for _ in range(dim)]
    extreme = r.random() < 0.12
    if extreme:
        # scale extremes (dyadic): tiny / huge ranges, boxes far from the origin on both sides (|a| / (b - a) up to 2^13)
        for d in range(dim):
            size[d] = 2.0 ** r.choice([-40, -30, -20, -10, 0, 10, 20])
            off[d] = size[d] * r.choice([0.0, 8192.0, -8192.0, 1024.0, -4096.0, 0.5])
    overlap = r.random() < 0.4
    centers = [[r.choice([0.25, 0.75, 0.5]) for _ in range(dim)] for _ in range(ncls)]
    spread = 0.35 if overlap else 0.15
    labelmode = "contiguous"
    x = r.random()
    if x < 0.06:
        labelmode = "noncontiguous"
    labs = list(range(ncls))
    if labelmode == "noncontiguous":
        labs = sorted(r.sample(range(0, 7), ncls))
        if labs == list(range(ncls)):
            labs[-1] += 1
    data = []
    for i in range(n):
        c = i % ncls if r.random() < 0.8 else r.randrange(ncls)
        p = []
        for d in range(dim):
            u = min(1.0, max(0.0, centers[c][d] + dy(r, -spread, spread, 7)))
            p.append(off[d] + size[d] * u)
        lab = labs[c]
        if r.random() < 0.05:
            lab = -1
        data.append(p + [lab])
    if r.random() < 0.01:   # nothing labelled: refused by the constructor
        for row in data:
            row[-1] = -1
    if r.random() < 0.05 and not extreme:   # a constant dimension (scaler's zero-width convention; far from the origin it only measures float cancellation)
        d0 = r.randrange(dim)
        for row in data:
            row[d0] = off[d0]
    rng_given = None
    if r.random() < 0.25:
        lo = [off[d] + size[d] * r.choice([0.0, 0.0, -0.25, 0.125]) for d in range(dim)]
        hi = [off[d] + size[d] * r.choice([1.0, 1.0, 1.25, 0.875]) for d in range(dim)]
        rng_given = [lo, hi]
        if r.random() < 0.04:          # invalid user range: refused by the constructor
            d0 = r.randrange(dim)
            hi[d0] = lo[d0] - r.choice([0.0, 1.0])
    p = r.choice([0.5, 0.75, 0.75, 0.625, 0.875, 0.25, 1.0, 1.0, 0.0, 1.5])
    even = r.random() < 0.6
    shuffle_seed = r.randrange(10 ** 6) if r.random() < 0.4 else None
    if stream == "learned":
        kind = r.choice(["std", "std", "dimwise"])
        lmin = r.choice([1, 1, 2])
        learn = {"kind": kind, "masslumping": r.random() < 0.7, "lambd": r.choice([0.0, 0.0, 0.01, 0.1]),
                 "lmin": lmin, "lmax": lmin + r.choice([1, 2] if not thorough else [1, 2, 3]),
                 "one_vs_others": (labelmode == "contiguous" and r.random() < 0.15)}
        if kind == "dimwise":
            learn["max_evaluations"] = r.choice([16, 32, 64])
        # further options, every one through every route (testing part at learning, __call__, test_data, evaluate)
        learn["reuse_old_values"] = r.random() < 0.15
        if kind == "std":
            learn["pre_scaled_data"] = r.random() < 0.1
        else:
            # (numeric_calculation=True is not exercised: the nquad integrals of the R matrix take 10-40 s per learning even at levels 1..2)
            if dim <= 2 and r.random() < 0.15:
                learn.update({"rebalancing": True, "lmax": learn["lmin"] + 1, "max_evaluations": min(32, learn["max_evaluations"])})
        if dim == 4 or (dim == 3 and kind == "dimwise"):
            learn["lmin"], learn["lmax"] = 1, 2          # (3-D dimension-wise learning at levels 2..4 takes ~45 s)
    else:
        g = r.choice([2, 3, 4])
        learn = {"kind": "scripted", "g": g,
                 "tables": [[r.choice([0.0, 0.5, 1.0, 1.0, 1.5, 2.0, -0.5]) for _ in range(g ** dim)] for _ in range(6)]}
    case = {"stream": stream, "dim": dim, "data": data, "range": rng_given, "p": p, "even": even,
            "shuffle": shuffle_seed, "learn": learn, "ops": [], "reeval_learning": r.random() < 0.5}
    add_history_flags(r, case, dim, ncls, off, size)
    if rng_given is None and not extreme and r.random() < 0.15:      # (an owner's shift of a tiny range would push |a| / (b - a) to 1e9)
        # the owner has scaled the data set before handing it over (scale_range / scale_factor / shift_value, scalar and array)
        kind = r.choice(["range", "range", "factor", "factor", "shift"])
        if kind == "range":
            case["owner"] = {"kind": "range", "range": r.choice([[0.0, 1.0], [0.0, 1.0], [-1.0, 1.0], [0.25, 0.75]])}
        elif kind == "factor":
            case["owner"] = {"kind": "factor", "f": r.choice([2.0, 0.5, 4.0, [r.choice([2.0, 0.5, 0.25, 8.0]) for _ in range(dim)]])}
        else:
            case["owner"] = {"kind": "shift", "s": r.choice([1.0, -3.5, [r.choice([0.5, -2.0, 16.0]) for _ in range(dim)]])}
    # later calls
    labelled = [row for row in data if row[-1] >= 0]
    if not labelled:
        return case
    if rng_given:
        lo, hi = rng_given
    else:
        lo = [min(row[d] for row in labelled) for d in range(dim)]
        hi = [max(row[d] for row in labelled) for d in range(dim)]
    w = [(hi[d] - lo[d]) if hi[d] > lo[d] else 1.0 for d in range(dim)]
    nops = r.randint(1, 6 if not thorough else 10)

    def coord(d, where):
        if where == "in":
            return lo[d] + w[d] * dy(r, 0, 1, 8)
        if where == "edge":
            return r.choice([lo[d], hi[d]])
        if where == "band":      # outside the data range but inside the coded tolerance (w / 9900)
            return r.choice([lo[d] - w[d] / 16384, hi[d] + w[d] / 16384, lo[d] - w[d] / 9900 * (1 - 1e-4),
                             hi[d] + w[d] / 9900 * (1 - 1e-4)])
        if where == "justout":
            return r.choice([lo[d] - w[d] / 8192, hi[d] + w[d] / 8192, lo[d] - w[d] / 9900 * (1 + 1e-4),
                             hi[d] + w[d] / 9900 * (1 + 1e-4)])
        return r.choice([lo[d] - w[d] * dy(r, 0.125, 4, 4), hi[d] + w[d] * dy(r, 0.125, 4, 4)])

    def sample(kind):
        p = [coord(d, "in") for d in range(dim)]
        if kind != "in":
            for d in r.sample(range(dim), r.randint(1, dim)):
                p[d] = coord(d, kind)
        return p

    for _ in range(nops):
        x = r.random()
        if x < 0.12:
            case["ops"].append({"op": "evaluate"})
            continue
        op = "call" if r.random() < 0.5 else "test"
        if r.random() < 0.15:
            # a set derived from the object's own data is fed back
            case["ops"].append({"op": op, "mode": "own", "data": [], "pre": None, "print_removed": r.random() < 0.8, "reeval": r.random() < 0.6,
                                "own": {"src": r.choice(["testing", "testing", "learning"]),
                                        "how": r.choice(["all", "all", "piece0", "piece1", "removed", "remaining"]),
                                        "p": r.choice([0.5, 0.25, 0.75]), "fracs": [r.random() for _ in range(r.randint(1, 4))]}})
            continue
        mode = r.choice(["inside", "inside", "partly", "partly", "partly", "outside", "unlabelled", "tight", "empty",
                         "wrongdim", "prescaled", "prescaled-other"])
        m = r.randint(1, 12)
        rows = []
        pre = None
        if mode == "empty":
            rows = []
        elif mode == "wrongdim":
            rows = [[dy(r, 0, 1, 6) for _ in range(dim + 1)] + [r.choice(labs)] for _ in range(m)]
        elif mode in ("prescaled", "prescaled-other"):
            # a data set its owner scaled with scale_range; same widths as the learning range -> same factors
            if mode == "prescaled":
                sh = [r.choice([0.0, 0.25, -0.5]) * w[d] for d in range(dim)]
                rows = [[lo[d] + sh[d] for d in range(dim)] + [r.choice(labs)], [hi[d] + sh[d] for d in range(dim)] + [r.choice(labs)]]
                rows += [[lo[d] + sh[d] + w[d] * dy(r, 0, 1, 6) for d in range(dim)] + [r.choice(labs + [-1])] for _ in range(m)]
                pre = [0.005, 0.995]
            else:
                rows = [sample("in") + [r.choice(labs)] for _ in range(m + 1)]
                pre = r.choice([[0.005, 0.995], [0.0, 1.0]])
        else:
            for _ in range(m):
                if mode == "inside":
                    kind = r.choice(["in", "in", "in", "edge"])
                elif mode == "partly":
                    kind = r.choice(["in", "in", "edge", "out", "band", "justout"])
                elif mode == "outside":
                    kind = r.choice(["out", "out", "justout"])
                elif mode == "tight":
                    kind = r.choice(["band", "justout", "edge"])
                else:
                    kind = r.choice(["in", "in", "out"])
                lab = -1 if mode == "unlabelled" else r.choice(labs + labs + [-1])
                rows.append(sample(kind) + [lab])
            if mode != "unlabelled" and r.random() < 0.3 and labelled:
                rows.append(list(r.choice(labelled)))      # a learning / testing sample again
        case["ops"].append({"op": op, "mode": mode, "data": rows, "pre": pre, "print_removed": r.random() < 0.8,
                            "reeval": r.random() < 0.6})
    # the independent re-evaluation of the classificators (which touches their internal grid state) is done at randomly
    # chosen steps and always at the last one; pure attribute reads are compared after every step
    for op in reversed(case["ops"]):
        if op["op"] != "evaluate":
            op["reeval"] = True
            break
    add_op_flags(r, case)
    return case


# ------------------------------------------------------------------------------------------------ one case
class Runner:
    def __init__(self, ctx, drv, case):
        self.ctx, self.drv, self.case = ctx, drv, case
        self.ok = True
        self.nontrivial = False
        self.ambiguous = False
        self.stop = False
        self.model_on = True       # switched off at the first disagreement: the oracle goes on alone

    def corr(self, obs, impl, model):
        self.ok = False
        self.model_on = False
        self.ctx.corr_break("C19/" + obs, self.case, {"impl": str(impl)[:500], "model": str(model)[:500]})

    def cmp(self, obs, impl, model):
        if impl != model:
            self.corr(obs, impl, model)
            return False
        return True

    def viol(self, probe, tags, detail):
        self.ok = False if self.ctx.violation(probe, tags, self.case, detail) else self.ok

    def cmp_data(self, obs, impl_rows, model_rows, tol=1e-9):
        """impl_rows: list of (coords, label...) floats; model_rows: parsed fractions"""
        good = len(impl_rows) == len(model_rows) and all(
            pts_close(a[0], b[0], tol) and tuple(int(v) for v in a[1:]) == tuple(b[1:]) for a, b in zip(impl_rows, model_rows))
        if not good:
            self.corr(obs, [(list(map(float, a[0])),) + tuple(a[1:]) for a in impl_rows][:8],
                      [(list(map(float, b[0])),) + tuple(b[1:]) for b in model_rows][:8])
        return good

    # -------------------------------------------------------------------------------------------- set-up
    def run(self):
        import sparseSpACE.DEMachineLearning as deml
        ctx, drv, case = self.ctx, self.drv, self.case
        dim = case["dim"]
        data = case["data"]
        X = np.array([row[:-1] for row in data], dtype=np.float64).reshape(len(data), dim)
        y = np.array([row[-1] for row in data], dtype=np.int64)
        labelled = [row for row in data if row[-1] >= 0]
        rng_given = case["range"]
        kw = {}
        if rng_given:
            kw["data_range"] = (np.array(rng_given[0], dtype=np.float64), np.array(rng_given[1], dtype=np.float64))
        Xc, yc = X.copy(), y.copy()
        ds = deml.DataSet((Xc, yc), "c19")
        # a constructor data set that its OWNER has already scaled (marked `is_scaled()`): the coordinates the owner hands over
        # are the data; the learning scaling must be fitted to THEM, and later batches arrive in the same coordinates
        self.owner_map = None
        owner = case.get("owner")
        if owner and len(data):
            if owner["kind"] == "range":
                from sklearn import preprocessing
                sc_o = preprocessing.MinMaxScaler(feature_range=tuple(owner["range"])).fit(X)
                self.owner_map = lambda A: sc_o.transform(A)
                ds.scale_range(tuple(owner["range"]))
            elif owner["kind"] == "factor":
                fo = np.array(owner["f"], dtype=np.float64) if isinstance(owner["f"], list) else float(owner["f"])
                self.owner_map = lambda A: A * fo
                ds.scale_factor(fo)
            else:
                so = np.array(owner["s"], dtype=np.float64) if isinstance(owner["s"], list) else float(owner["s"])
                self.owner_map = lambda A: A + so
                ds.shift_value(so)
            ctx.count("owner_prescaled_" + owner["kind"] + ("_array" if isinstance(owner.get("f", owner.get("s")), list) else ""))
            if not ds.is_scaled():
                self.corr("owner-prescaling", "scaled", "not marked as scaled")
            data = [[float(v) for v in ds[0][i]] + [int(ds[1][i])] for i in range(len(data))]
            labelled = [row for row in data if row[-1] >= 0]
        if case["shuffle"] is not None:
            np.random.seed(case["shuffle"])
        impl_err = None
        try:
            clf, _ = quiet(lambda: deml.Classification(ds, split_percentage=case["p"], split_evenly=case["even"],
                                                       shuffle_data=case["shuffle"] is not None, **kw))
        except Exception as e:  # noqa: BLE001
            impl_err = err_kind(e)
        if case.get("clobber_ctor") and impl_err is None:
            # the caller reuses its arrays (and the DataSet it handed over) for something else
            Xc[:] = 7.0e5
            yc[:] = 0
            try:
                ds[0][:] = -3.0e5
                ds[1][:] = 0
            except Exception:  # noqa: BLE001
                pass
            if rng_given:
                keep = [np.array(v, copy=True) for v in clf._data_range]
                for v in kw["data_range"]:
                    v[:] = v * 3.0 - 1.0
                if any(not np.array_equal(v, w) for v, w in zip(clf._data_range, keep)):
                    # the caller overwriting its own data_range arrays is not an evaluate/test call: outside C19's
                    # quantifier ("every sequence of later evaluate/test calls") -> counted, not a violation (lead's ruling)
                    ctx.count("kept_by_reference_constructor-data_range")
                    for v, w in zip(clf._data_range, keep):
                        v[:] = w
            ctx.count("clobber_ctor")
        rstr = "-" if not rng_given else fmt_pt(rng_given[0]) + "|" + fmt_pt(rng_given[1])
        m1 = drv.ask("stage1 %s %s" % (rstr, fmt_data([(row[:-1], row[-1]) for row in data])))
        if impl_err is not None:
            ctx.count("init_error_" + impl_err.split(":")[0])
            legit = (impl_err == "emptyLearning" and not labelled) or \
                    (impl_err == "invalidRange" and rng_given and any(h <= l for l, h in zip(*rng_given)))
            if impl_err == "indexError1D":
                self.viol("removal-1d", {"dim": dim, "where": "init"}, {"error": impl_err})
            elif not legit:
                self.viol("init-raises", {"error": impl_err.split(":")[0]}, {"error": impl_err})
            self.cmp("init-error", "err " + impl_err, "ok" if m1.startswith("ok") else m1)
            return
        # ---- oracle on the initialised object (independent of the model)
        impl_lo, impl_hi = clf.get_dataset_range()
        impl_f = clf.get_scale_factor()
        if rng_given:
            olo, ohi = [F(v) for v in rng_given[0]], [F(v) for v in rng_given[1]]
        else:
            olo = [min(F(row[d]) for row in labelled) for d in range(dim)]
            ohi = [max(F(row[d]) for row in labelled) for d in range(dim)]
        of = [WIDTH / ((ohi[d] - olo[d]) if ohi[d] != olo[d] else 1) for d in range(dim)]
        if not (len(impl_lo) == dim and all(near(impl_lo[d], olo[d]) and near(impl_hi[d], ohi[d]) and near(impl_f[d], of[d]) for d in range(dim))):
            self.viol("learning-scaling", {"given": bool(rng_given)}, {"impl": [list(impl_lo), list(impl_hi), list(impl_f)],
                                                                       "expected": [list(map(float, olo)), list(map(float, ohi)), list(map(float, of))]})
        self.olo, self.of = olo, of
        om = clf.get_omitted_data()
        impl_om = [] if om.is_empty() else [(list(p), int(l)) for p, l in zip(om[0], om[1])]
        unl = [row for row in data if row[-1] == -1]
        exp_om = [([float(v) for v in q[0]], -1) for q in self.positions(unl)]
        if len(impl_om) != len(unl) or any(not pts_close(a[0], b[0]) or a[1] != -1 for a, b in zip(impl_om, exp_om)):
            self.viol("unlabelled-set-aside", {"where": "init"}, {"omitted": impl_om[:5], "expected": exp_om[:5]})
        ld, td = clf.get_learning_data(), clf.get_testing_data()
        iL = [] if ld.is_empty() else [(list(p), int(l)) for p, l in zip(ld[0], ld[1])]
        iT = [] if td.is_empty() else [(list(p), int(l)) for p, l in zip(td[0], td[1])]
        pos_l = self.positions(labelled)
        self.pos_lab = [([float(v) for v in q[0]], row) for q, row in zip(pos_l, labelled)]
        exp_in = [([float(v) for v in q[0]], row[-1]) for q, row in zip(pos_l, labelled) if q[1] or not rng_given]
        if rng_given and any(q[2] < AMBIG for q in pos_l):
            ctx.count("ambiguous_float")
        elif not multiset_close(iL + iT, exp_in):
            self.viol("split-partition", {"given": bool(rng_given)}, {"learning": len(iL), "testing": len(iT), "labelled_in_range": len(exp_in)})
        if any(not (0.0049 <= v <= 0.9951) for p, _ in iL + iT for v in p):
            self.viol("learning-data-in-range", {}, {})
        ctx.count("split_%s" % ("even" if case["even"] else "uneven"))
        ctx.count("testing_empty" if not iT else "testing_nonempty")
        self.initial_testing_empty = not iT
        # ---- model
        mT = []
        if not m1.startswith("ok"):
            self.corr("init-error", "ok", m1)
        else:
            f1 = fields(m1, {"SC", "F", "K", "U", "O"})
            sc = [[F(v) for v in ax.split(",")] for ax in f1["SC"].split(";")]
            if not (len(sc) == dim and all(near(impl_lo[d], sc[d][0]) and near(impl_hi[d], sc[d][1]) and near(impl_f[d], sc[d][2])
                                           for d in range(dim))):
                self.corr("scaling", (list(impl_lo), list(impl_hi), list(impl_f)), f1["SC"])
            self.cmp_data("omitted-init", impl_om, parse_data(f1["O"]))
            flags = parse_nats(f1["K"])
            kept_rows = [row for row, fl in zip(labelled, flags) if fl]
            if kept_rows:
                Xk = np.array([row[:-1] for row in kept_rows], dtype=np.float64).reshape(len(kept_rows), dim)
                perm = None
                if case["shuffle"] is not None:
                    rs = np.random.RandomState(case["shuffle"])
                    idxs = np.arange(len(kept_rows))
                    rs.shuffle(idxs)
                    perm = [int(i) for i in idxs]
                    Xk = Xk[idxs]
                mv = list(set(np.where(Xk == np.amin(Xk, axis=0))[0]) | set(np.where(Xk == np.amax(Xk, axis=0))[0]))
                m2 = drv.ask("stage2 %s %s %s %d" % ("-" if perm is None else ",".join(map(str, perm)),
                                                     ",".join(str(int(i)) for i in mv) if mv else "-", frac_str(case["p"]), 1 if case["even"] else 0))
                if not m2.startswith("ok"):
                    self.corr("init-split", "ok", m2)
                else:
                    f2 = fields(m2, {"L", "T"})
                    mL, mT = parse_data(f2["L"]), parse_data(f2["T"])
                    self.cmp_data("learning-data", iL, mL)
                    self.cmp_data("testing-data", iT, mT)
            elif iL or iT:
                self.corr("init-kept", len(iL) + len(iT), 0)
        if not iL:
            ctx.count("skipped_empty_learning")
            return
        # ---------------------------------------------------------------------------------------- learning
        learn_labels = sorted(set(l for _, l in iL))
        self.class_labels = [int(v) for v in ld.get_labels()]
        if self.class_labels != learn_labels:
            ctx.count("label_set_order_not_ascending")
        k = len(learn_labels)
        lk = case["learn"]
        t0 = time.time()
        try:
            if lk["kind"] == "scripted":
                self.scripted = [Scripted(lk["tables"][c % len(lk["tables"])], lk["g"]) for c in range(k)]
                quiet(lambda: clf._process_performed_classification([(s, None) for s in self.scripted], time.time(), False))
            elif lk["kind"] == "std":
                self.scripted = None
                quiet(lambda: clf.perform_classification(masslumping=lk["masslumping"], lambd=lk["lambd"], minimum_level=lk["lmin"],
                                                         maximum_level=lk["lmax"], one_vs_others=lk["one_vs_others"],
                                                         reuse_old_values=lk.get("reuse_old_values", False),
                                                         pre_scaled_data=lk.get("pre_scaled_data", False), print_metrics=False))
            else:
                self.scripted = None
                quiet(lambda: clf.perform_classification_dimension_wise(masslumping=lk["masslumping"], lambd=lk["lambd"],
                                                                        minimum_level=lk["lmin"], maximum_level=lk["lmax"],
                                                                        max_evaluations=lk["max_evaluations"],
                                                                        one_vs_others=lk.get("one_vs_others", False),
                                                                        reuse_old_values=lk.get("reuse_old_values", False),
                                                                        numeric_calculation=lk.get("numeric_calculation", False),
                                                                        rebalancing=lk.get("rebalancing", False), print_metrics=False))
        except Exception as e:  # noqa: BLE001
            ctx.count("learning_failed_" + type(e).__name__)
            self.viol("learning-raises", {"kind": lk["kind"], "error": type(e).__name__}, {"error": str(e)[:300]})
            return
        ctx.count("learn_" + lk["kind"])
        for opt in ("reuse_old_values", "pre_scaled_data", "numeric_calculation", "rebalancing", "one_vs_others"):
            if lk.get(opt):
                ctx.count("option_%s_%s" % (lk["kind"], opt))
        ctx.count("learn_seconds_x100", int(100 * (time.time() - t0)))
        self.clf = clf
        self.cls = clf.get_density_estimation_results()[0]
        if len(self.cls) != k:
            self.viol("one-classificator-per-class", {}, {"classificators": len(self.cls), "classes": k})
            return
        self.check_trained_on(iL)
        if case.get("perform_twice"):
            # the learning routine called a second time: refused, nothing changes
            before = (list(clf.get_calculated_classes_testset()), len(clf._densities_testset), len(clf._classificators))
            try:
                quiet(lambda: clf.perform_classification(print_metrics=False))
                self.viol("second-learning-accepted", {}, {})
            except Exception as e:  # noqa: BLE001
                if err_kind(e) != "twice":
                    self.viol("learning-raises", {"kind": "second", "error": type(e).__name__}, {"error": str(e)[:200]})
            if before != (list(clf.get_calculated_classes_testset()), len(clf._densities_testset), len(clf._classificators)):
                self.viol("second-learning-changed-state", {}, {})
            ctx.count("perform_twice")
        self.sibling = None
        if case.get("sibling") and lk["kind"] != "scripted":
            self.make_sibling(case["sibling"], lk)
        self.table = {}
        if self.model_on:
            if iT and len(clf._densities_testset) >= len(iT):
                rows = self.stored_rows(len(iT))       # pure attribute read: the rows `_classificate` stored
                self.feed([b[0] for b in mT], rows, [p for p, _ in iT])
            mp = drv.ask("perform")
            fp = fields(mp, {"K", "C", "D"})
            self.cmp("perform", "ok K %d C %s D %d" % (k, self.fmt_classes(clf.get_calculated_classes_testset()), len(clf._densities_testset)),
                     "ok K %s C %s D %s" % (fp.get("K"), fp.get("C"), fp.get("D")) if mp.startswith("ok") else mp)
        # oracle: the stored classes of the test part are the first arg-max at the stored positions
        for (p, _), c in zip(iT, list(clf.get_calculated_classes_testset())):
            if not case.get("reeval_learning", True):
                break
            j, amb, row = self.expected_class(p)
            if not amb and not self.class_ok(int(c), j):
                self.viol("class-is-argmax", {"op": "learning", "mode": "testing-part", "pre": False, "dim": dim},
                          {"position": p, "densities": row, "class": int(c), "expected": j})
                break
        if len(clf.get_calculated_classes_testset()) == len(iT):
            self.independent_class_check([p for p, _ in iT], list(clf.get_calculated_classes_testset()),
                                         {"op": "learning", "mode": "testing-part", "pre": False, "dim": dim})
        if len(clf.get_calculated_classes_testset()) != len(iT):
            self.viol("stored-classes-count", {}, {"classes": len(clf.get_calculated_classes_testset()), "testing": len(iT)})
        self.history = []      # (op, raw rows, kept indices, classes)
        self.n_tests = 0
        self.check_evaluate("after-learning")
        self.snapshot_scaling = (np.array(impl_lo).copy(), np.array(impl_hi).copy(), np.array(impl_f).copy())
        self.check_stored()
        if self.ambiguous:
            ctx.count("ambiguous_float")
            return
        for op in case["ops"]:
            op = self.eff_op(op)
            if self.stop:
                break
            if op["op"] == "evaluate":
                self.check_evaluate("history")
                self.check_evaluate_repeat()
                ctx.count("op_evaluate")
            else:
                self.do_op(op)
        if getattr(self, "sibling", None) is not None:
            self.sibling_work("end")
        if not self.stop:
            self.recheck_earlier()

    # -------------------------------------------------------------------------------------------- pieces
    def fmt_classes(self, arr):
        arr = list(arr)
        return "-" if not arr else ",".join(str(int(c)) for c in arr)

    def stored_rows(self, n):
        """the last `n` rows of `_densities_testset` (no evaluation of the classificators)"""
        de = self.clf._densities_testset
        return [[float(np.asarray(v).reshape(-1)[0]) for v in row] for row in de[len(de) - n:]] if n else []

    def dens_rows(self, pts):
        """density of every class at the given scaled positions, read from the implementation"""
        pts = np.asarray(pts, dtype=float)
        cols = [np.asarray(c(pts)).reshape(len(pts)) for c in self.cls]
        return [[float(col[i]) for col in cols] for i in range(len(pts))]

    def feed(self, exact_pts, rows, float_pts):
        """rows of the density oracle, keyed by the exact scaled position.  The same position must always give the same
        row -- up to the rounding of the batched interpolation (the latest row then replaces the earlier one) and up to
        jumps of the density between two float roundings of the same exact position (the implementation scales learning
        data with the scaler's formula and later data with shift / scale / shift); a row that cannot be reproduced at
        its own float position is a violation (history-dependent densities)."""
        batch = {}
        for p, row, fp in zip(exact_pts, rows, float_pts):
            key = tuple(p)
            if key in batch and batch[key] != row and not all(near(x, y2, 1e-9) for x, y2 in zip(batch[key], row)):
                # the same exact position twice in ONE batch at two float roundings (a constructor sample scaled by the scaler's
                # formula and its copy scaled by shift / scale / shift) on a jump of the density oracle: the model can hold
                # one row per position only
                self.ambiguous = True
            batch[key] = row
            if key in self.table:
                row0, fp0 = self.table[key]
                if row0 == row:
                    continue
                if not all(near(a, b, 1e-9) for a, b in zip(row0, row)):
                    again = self.dens_rows(np.array([fp0]))[0]
                    if list(fp0) != list(fp) and all(near(a, b, 1e-9) for a, b in zip(row0, again)):
                        self.ctx.count("density_discontinuous_at_rounded_position")
                    else:
                        self.viol("density-not-a-function-of-position", {}, {"position": [float(v) for v in p], "first": row0, "now": row, "again": again})
                        continue
                else:
                    self.ctx.count("density_rounding_differs_between_batches")
            m = max(row)
            if any(v != m and abs(v - m) <= 1e-12 * max(1.0, abs(m)) for v in row):
                self.ambiguous = True      # arg-max decided below the rounding of the interpolation
            self.table[key] = (row, list(fp))
            r = self.drv.ask("dens %s %s" % (",".join(frac_str(v) for v in p), ",".join(frac_str(v) for v in row)))
            if r != "ok":
                self.corr("dens-line", "ok", r)

    def positions(self, rows):
        """oracle: exact position of every sample in the learning scaling, in-range flag, margin to the thresholds"""
        out = []
        for row in rows:
            p = [(F(row[d]) - self.olo[d]) * self.of[d] + LO_T for d in range(len(self.olo))]
            inr = all(THR_LO <= v <= THR_HI for v in p)
            margin = min(min(abs(v - THR_LO), abs(v - THR_HI)) for v in p)
            out.append((p, inr, margin))
        return out

    def expected_class(self, pos_float):
        """independently recomputed arg-max (first maximum) at the independently computed position;
        returns (index, ambiguous)"""
        row = self.dens_rows(np.array([pos_float]))[0]
        m = max(row)
        j = row.index(m)
        amb = any(i != j and v != m and abs(v - m) <= 1e-9 * max(1.0, abs(m)) for i, v in enumerate(row))
        if self.scripted is not None and any(s.boundary_close(pos_float) for s in self.scripted):
            amb = True
        return j, amb, row

    def independent_rows(self, pts):
        """densities recomputed WITHOUT the implementation's interpolation routines: for every class the combination
        sum_g c_g sum_i alpha_{g,i} phi_{g,i}(x) over the stored surpluses of every component grid with plain nodal hat
        functions (regular grids without boundary points: nodes i / 2^l, i = 1 .. 2^l - 1, first dimension slowest).
        Only for standard (non-adaptive) learning; returns None otherwise."""
        if self.case["learn"]["kind"] != "std":
            return None
        pts = np.asarray(pts, dtype=float)
        cols = []
        for combi, op in zip(*self.clf.get_density_estimation_results()):
            if getattr(op.grid, "boundary", True):
                return None
            res = np.zeros(len(pts))
            for cg in combi.scheme:
                lvl = np.asarray(cg.levelvector, dtype=int)
                alphas = np.asarray(op.surpluses[tuple(cg.levelvector)], dtype=float).flatten()
                idx = np.array(list(itertools.product(*[range(1, 2 ** int(l)) for l in lvl])), dtype=float)
                if len(idx) != len(alphas):
                    return None
                phi = np.prod(np.maximum(0.0, 1.0 - np.abs(pts[:, None, :] * (2.0 ** lvl)[None, None, :] - idx[None, :, :])), axis=2)
                res += cg.coefficient * (phi @ alphas)
            cols.append(res)
        return [[float(col[i]) for col in cols] for i in range(len(pts))]

    def independent_class_check(self, positions, classes, tags):
        """the class assigned at each (implementation) position must be the class of the first maximum of the independently
        recomputed densities; arg-max decided by less than 1e-7 (relative) is ambiguous"""
        rows = self.independent_rows(positions) if len(positions) else None
        if rows is None:
            return
        for p, c, row in zip(positions, classes, rows):
            m = max(row)
            j = row.index(m)
            scale = max(1.0, max(abs(v) for v in row))
            if any(i != j and abs(v - m) <= 1e-7 * scale for i, v in enumerate(row)):
                self.ctx.count("ambiguous_near_tie_independent")
                continue
            self.ctx.count("independent_density_checks")
            if not self.class_ok(int(c), j, tags):
                impl = self.dens_rows(np.array([p]))[0]
                self.viol("class-is-argmax-independent-density", dict(tags or {}),
                          {"position": [float(v) for v in p], "class": int(c), "expected_index": j,
                           "expected_label": self.class_labels[j] if j < len(self.class_labels) else None,
                           "densities_from_surpluses_and_nodal_hats": row, "densities_from_classificators": impl})
                return

    def class_ok(self, c, j, tags=None):
        """`c` is the class the implementation assigned, `j` the index of the first maximal density.  The property asks for
        the CLASS of that density, i.e. the label the j-th classificator was trained on; returning the bare index is the
        recorded finding `class-is-label` whenever index and label differ."""
        lab = self.class_labels[j] if j < len(self.class_labels) else None
        if c == lab:
            return True
        if c == j and c not in self.class_labels:     # a bare index that is not itself a label of the data set
            self.viol("class-is-label", {"labels": "noncontiguous" if self.class_labels != list(range(len(self.class_labels))) else "contiguous"},
                      {"returned_class": c, "label_of_argmax_density": lab, "labels_of_classificators": self.class_labels})
            return True
        return False

    def check_state(self, where):
        clf = self.clf
        st = "T %d C %s D %d O %d P %d K %d" % (clf._testing_data.get_length(), self.fmt_classes(clf.get_calculated_classes_testset()),
                                                len(clf._densities_testset), clf._omitted_data.get_length(),
                                                1 if clf._performed_classification else 0, len(clf._classificators))
        if self.model_on:
            self.cmp("state-" + where, st, self.drv.ask("state"))

    def check_stored(self):
        """stored classes are the first arg-max of the stored densities, entry by entry"""
        clf = self.clf
        cl = list(clf.get_calculated_classes_testset())
        de = clf._densities_testset
        if len(cl) != len(de):
            self.viol("stored-densities-aligned", {}, {"classes": len(cl), "densities": len(de)})
            return
        for i, (c, row) in enumerate(zip(cl, de)):
            row = [float(np.asarray(v).reshape(-1)[0]) for v in row]
            if not self.class_ok(int(c), row.index(max(row))):
                self.viol("stored-densities-aligned", {}, {"index": i, "class": int(c), "row": row})
                return

    def summary_ok(self, ev, labels, classes):
        wrong = sum(1 for a, b in zip(labels, classes) if int(a) != int(b))
        total = len(classes)
        bad = []
        if ev.get("Wrong mappings") != wrong:
            bad.append(("wrong", ev.get("Wrong mappings"), wrong))
        if ev.get("Total mappings") != total:
            bad.append(("total", ev.get("Total mappings"), total))
        if total:
            pc = 1.0 - wrong / total
            if abs(ev.get("Percentage correct") - pc) > 1e-12:
                bad.append(("percentage", ev.get("Percentage correct"), pc))
            if ev.get("Percentage correct (str)") != "%2.2f%%" % (pc * 100):
                bad.append(("percentage-str", ev.get("Percentage correct (str)"), "%2.2f%%" % (pc * 100)))
        return bad

    def check_evaluate(self, where):
        clf = self.clf
        try:
            ev = clf.evaluate()
            impl = "ok %d %d" % (ev["Wrong mappings"], ev["Total mappings"])
        except Exception as e:  # noqa: BLE001
            ev = None
            impl = "err " + err_kind(e)
        if self.model_on:
            m = self.drv.ask("evaluate")
            mm = m
            if m.startswith("ok"):
                t = m.split(" ")
                mm = "ok %s %s" % (t[1], t[2])
                if ev is not None and not near(ev["Percentage correct"], F(t[3]), 1e-12):
                    self.corr("evaluate-percentage", ev["Percentage correct"], t[3])
            self.cmp("evaluate-" + where, impl, mm)
        self.ctx.count("evaluate_" + impl.split(" ")[0] + ("" if ev is not None else "_" + impl.split(" ")[1]))
        td = clf.get_testing_data()
        classes = list(clf.get_calculated_classes_testset())
        if ev is not None:
            bad = self.summary_ok(ev, list(td[1]), classes)
            if bad or len(classes) != td.get_length():
                self.viol("evaluate-summary", {"where": where}, {"failed": bad})
        elif self.n_tests > 0 and impl in ("err lengthMismatch", "err nothingToEvaluate"):
            # the object has classified test data, but its own summary can no longer be produced
            self.viol("evaluate-after-test", {"error": impl.split(" ")[1]},
                      {"stored_classes": len(classes), "testing_data_length": td.get_length(), "successful_test_data_calls": self.n_tests})
        elif impl == "err nothingToEvaluate" and td.is_empty() and not classes:
            pass   # split percentage 1: nothing was set apart for testing
        else:
            self.viol("evaluate-raises", {"error": impl}, {"where": where})

    def eff_op(self, op):
        """later batches are given in the coordinates of the constructor data (the owner's, if the owner scaled them)"""
        if self.owner_map is None or not op.get("data") or len(op["data"][0]) - 1 != len(self.olo):
            return op
        A = np.array([row[:-1] for row in op["data"]], dtype=np.float64)
        B = self.owner_map(A)
        return dict(op, data=[[float(v) for v in B[i]] + [op["data"][i][-1]] for i in range(len(A))])

    def make_input(self, op, name="later"):
        """the DataSet handed to the later call and the rows (constructor coordinates, label) it stands for.
        `own`: a set DERIVED from the object's own data -- get_testing_data() / get_learning_data(), a piece or a removal of
        it; such sets are already expressed in the learning scaling and marked so: they must be used as they are, i.e. every
        sample at the learning-scaling position of the constructor sample it came from."""
        import sparseSpACE.DEMachineLearning as deml
        own = op.get("own")
        if own:
            src = self.clf.get_testing_data() if own["src"] == "testing" else self.clf.get_learning_data()
            d = src
            if not src.is_empty():
                n = src.get_length()
                if own["how"] in ("piece0", "piece1"):
                    d = src.split_pieces(own["p"])[0 if own["how"] == "piece0" else 1]
                elif own["how"] in ("removed", "remaining"):
                    idx = sorted(set(min(n - 1, int(f * n)) for f in own["fracs"]))
                    removed = src.remove_samples(idx)
                    d = removed if own["how"] == "removed" else src
            rows = []
            if not d.is_empty():
                free = list(self.pos_lab)
                for p, l in zip(d[0], d[1]):
                    for k, (q, row) in enumerate(free):
                        if int(l) == row[-1] and pts_close(list(p), q):
                            rows.append(list(row))
                            del free[k]
                            break
                    else:
                        return d, None
            return d, rows
        rows = op["data"]
        dim_in = len(rows[0]) - 1 if rows else 0
        if rows:
            Xn = np.array([row[:-1] for row in rows], dtype=np.float64).reshape(len(rows), dim_in)
            yn = np.array([row[-1] for row in rows], dtype=np.int64)
            d = deml.DataSet((Xn, yn), name)
        else:
            d = deml.DataSet((np.array([]), np.array([])), name)
        if op.get("pre") is not None:
            d.scale_range((op["pre"][0], op["pre"][1]))
        return d, rows

    def do_op(self, op):
        ctx, drv, clf = self.ctx, self.drv, self.clf
        d, rows = self.make_input(op)
        if rows is None:
            self.viol("derived-set-positions", {"src": op["own"]["src"], "how": op["own"]["how"]},
                      {"what": "a sample of the object's own derived set is not the learning-scaling image of a constructor sample"})
            return
        if op.get("own"):
            op = dict(op, data=rows)
            ctx.count("own_%s_%s" % (op["own"]["src"], op["own"]["how"]))
        dim_in = len(rows[0]) - 1 if rows else 0
        pre = op.get("pre")
        prestr = "-" if pre is None else "%s,%s" % (F(str(pre[0])), F(str(pre[1])))
        dstr = fmt_data([(row[:-1], row[-1]) for row in rows])
        before_classes = list(clf.get_calculated_classes_testset())
        before_sizes = (clf._omitted_data.get_length(), clf._testing_data.get_length())
        before_results = copy.deepcopy([(h["classes"], h["coords"]) for h in self.history])
        live_results = [(h["classes_live"], h["coords_live"]) for h in self.history]
        if op.get("sib") and self.sibling is not None:
            self.sibling_work("before-" + op["op"])
        if op.get("print_eval"):
            self.rare_toggles()
        impl_err = None
        p_out = bool(op.get("print_output")) and op["op"] == "test"
        try:
            if op["op"] == "call":
                res, out = quiet(lambda: clf(d, print_removed=op["print_removed"]))
            else:
                res, out = quiet(lambda: clf.test_data(d, print_output=p_out, print_removed=op["print_removed"],
                                                       print_incorrect_points=p_out and op.get("repeat", 0) > 0))
        except Exception as e:  # noqa: BLE001
            impl_err = err_kind(e)
            out = ""
        if p_out and impl_err is None:
            # the printed summary is the returned one
            g = re.search(r"Number of wrong mappings: (\d+)\s+Number of total mappings: (\d+)\s+Percentage of correct mappings: (\S+)", out)
            want = (res["Wrong mappings"], res["Total mappings"], res["Percentage correct (str)"])
            if not g or (int(g.group(1)), int(g.group(2)), g.group(3)) != want:
                self.viol("printed-summary", {"op": "test"}, {"printed": g.groups() if g else None, "returned": want})
            ctx.count("test_print_output")
        ctx.count("op_%s_%s" % (op["op"], op.get("mode")))
        ctx.count("result_%s_%s" % (op["op"], impl_err.split(":")[0] if impl_err else "ok"))
        samedim = dim_in == len(self.olo)
        pos = self.positions(rows) if (rows and samedim) else []
        tags = {"op": op["op"], "mode": op.get("mode"), "pre": pre is not None, "dim": len(self.olo)}
        if p_out:
            tags["print_incorrect_points"] = op.get("repeat", 0) > 0
        mpts = drv.ask("pts %s %s" % (prestr, dstr)) if self.model_on else ""
        # ---- exceptions: compare the kind with the model; decide which are violations of the property text
        if impl_err == "scalingMismatch" and op.get("own") and op["own"]["src"] == "testing" and self.initial_testing_empty:
            # the object had no test set of its own: `_testing_data` IS the first tested batch, which carries that batch's
            # scaling attributes (range = its own extremes, origin = its own minimum); handing it back is refused, nothing
            # is classified and nothing changes -- recorded, not a violation (no sample gets a wrong position)
            ctx.count("own_testing_born_from_batch_refused")
            self.after_op(before_classes, before_results, live_results, 0)
            return
        if impl_err is not None:
            if self.model_on and not (p_out and impl_err.startswith("other:")):
                self.cmp("op-error", "err " + impl_err, drv.ask("%s %s %s" % (op["op"], prestr, dstr)))
            n_in = sum(1 for _, inr, mg in pos if inr)
            n_amb = sum(1 for _, inr, mg in pos if mg < AMBIG)
            n_lab_in = sum(1 for (_, inr, mg), row in zip(pos, rows) if inr and row[-1] >= 0)
            legit = (impl_err == "emptyInput" and not rows) or (impl_err == "dimMismatch" and not samedim) or \
                    (impl_err == "allOutOfBounds" and pre is None and n_in == 0) or \
                    (impl_err == "scalingMismatch" and pre is not None) or \
                    (impl_err == "allOutOfBounds" and pre is not None) or \
                    (impl_err == "emptyClassify" and op["op"] == "test" and n_lab_in == 0)
            if impl_err == "indexError1D":
                n_out = sum(1 for _, inr, mg in pos if not inr)
                self.viol("removal-1d", {"dim": len(self.olo), "where": op["op"]}, {"error": impl_err, "out_of_range": n_out})
            elif not legit and n_amb == 0:
                self.viol("call-raises", dict(tags, error=impl_err.split(":")[0] + (":" + impl_err.split(":")[1] if impl_err.startswith("other") else "")),
                          {"error": impl_err, "in_range": n_in})
            if p_out and impl_err.startswith("other:"):
                self.stop = True      # raised while printing, after the classes were stored: the rest of the history is void
                return
            self.after_op(before_classes, before_results, live_results, 0)
            return
        self.nontrivial = True
        # ---- what the implementation kept: the input data set now holds the kept samples in the scaling used
        kept_impl = [(list(p), int(l)) for p, l in zip(d[0], d[1])]
        n_new = 0
        if op["op"] == "call":
            ret_pts = [list(p) for p in res[0]]
            ret_cls = [int(c) for c in res[1]]
            if len(ret_pts) != len(kept_impl) or len(ret_cls) != len(ret_pts) or any(not pts_close(a, b[0], 0) for a, b in zip(ret_pts, kept_impl)):
                self.viol("returned-samples", tags, {"returned": len(ret_pts), "kept": len(kept_impl), "classes": len(ret_cls)})
                return
            classes_now = ret_cls
        else:
            used_impl = [(p, l) for p, l in kept_impl if l >= 0]
            n_new = len(used_impl)
            allc = list(clf.get_calculated_classes_testset())
            if len(allc) != len(before_classes) + n_new:
                n_new = max(0, len(allc) - len(before_classes))
            classes_now = [int(c) for c in allc[len(allc) - n_new:]] if n_new else []
            self.n_tests += 1
            # tested samples join the object's test set: they may come back in a later own-derived batch
            lab_rows = [row for (pp, inr, mg), row in zip(pos, rows) if inr and row[-1] >= 0] if pos else []
            if len(lab_rows) == len(used_impl):
                self.pos_lab += [(list(pq), list(row)) for (pq, _), row in zip(used_impl, lab_rows)]
        # removed samples as reported on stdout / log
        reported = [(list(map(float, g.group(1).split())), int(g.group(2))) for g in
                    re.finditer(r"^\d+ : \[([^\]]*)\] \| class (-?\d+)$", out.replace("\n ", " "), re.M)]
        n_removed = len(rows) - len(kept_impl)
        # ---- oracle
        self.oracle_op(op, rows, pos, kept_impl, classes_now, res, reported, n_removed, tags)
        if op["op"] == "test":
            # bookkeeping: set-aside samples are collected, tested samples join the object's test set (pure attribute reads)
            n_unl = sum(1 for _, l in kept_impl if l == -1)
            now = (clf._omitted_data.get_length(), clf._testing_data.get_length())
            if now != (before_sizes[0] + n_unl, before_sizes[1] + n_new):
                self.viol("test-bookkeeping", {"op": "test"}, {"omitted_testing_before": before_sizes, "now": now,
                                                                "set_aside": n_unl, "tested": n_new})
        # ---- model: the exact coordinates the samples get; feed the density rows read from the implementation
        if self.model_on:
            self.model_op(op, rows, prestr, dstr, mpts, kept_impl, classes_now, res, reported)
        if self.stop:
            return
        self.history.append({"op": op, "classes": list(classes_now), "coords": [list(p) for p, _ in kept_impl],
                             "classes_live": res[1] if op["op"] == "call" else None,
                             "coords_live": res[0] if op["op"] == "call" else None})
        self.after_op(before_classes, before_results, live_results, n_new)
        self.post_op(op, d, rows, kept_impl, classes_now, res)

    def post_op(self, op, d, rows, kept_impl, classes_now, res):
        """object history after a successful request: the same request again (same answer, nothing stored changes), the caller
        overwriting its own arrays / the DataSet it handed in / the returned result, the caller writing into what getters return"""
        ctx, clf = self.ctx, self.clf
        want = list(classes_now)
        for _ in range(op.get("repeat", 0)):
            stored = (list(clf.get_calculated_classes_testset()), len(clf._densities_testset), clf._testing_data.get_length(),
                      clf._omitted_data.get_length())
            d2, rows2 = self.make_input(op, "repeat")
            if rows2 is None or (op.get("own") and rows2 != rows):
                break
            try:
                r2, _ = quiet(lambda: clf(d2, print_removed=False))
            except Exception as e:  # noqa: BLE001
                self.viol("repeated-request", {"how": "raises", "op": op["op"]}, {"error": str(e)[:200]})
                break
            got = [int(c) for c, l in zip(r2[1], d2[1]) if op["op"] == "call" or l >= 0]
            pts2 = [list(q) for q, l in zip(r2[0], d2[1]) if op["op"] == "call" or l >= 0]
            pts1 = [list(q) for q, l in kept_impl if op["op"] == "call" or l >= 0]
            if got != want or pts2 != pts1:
                self.viol("repeated-request", {"how": "differs", "op": op["op"]}, {"first": want[:30], "again": got[:30]})
            if stored != (list(clf.get_calculated_classes_testset()), len(clf._densities_testset), clf._testing_data.get_length(),
                          clf._omitted_data.get_length()):
                self.viol("repeated-request", {"how": "changed-stored-state", "op": op["op"]}, {})
            ctx.count("repeated_requests")
        if op.get("clobber") and not op.get("own"):
            for arr, val in ((d[0], 4.0e5), (d[1], 0)):
                try:
                    arr[:] = val
                except Exception:  # noqa: BLE001
                    pass
            if op["op"] == "call" and self.history:
                try:
                    res[0][:] = -1.0
                    res[1][:] = 0
                except Exception:  # noqa: BLE001
                    pass
                self.history[-1]["classes_live"] = None      # (the caller itself has overwritten this result)
            ctx.count("clobber_batch")
            self.check_stored()
        if op.get("poke"):
            self.poke_getter(op["poke"])

    def poke_getter(self, which):
        """the caller writes into what a getter returned; the object's own state must not follow (it is restored afterwards so that
        the rest of the history is judged on the intact object)"""
        clf = self.clf
        internal = {"testing": clf._testing_data, "learning": clf._learning_data, "omitted": clf._omitted_data,
                    "original": clf._original_data}
        if which in internal:
            ds_int = internal[which]
            if ds_int.is_empty():
                return
            snap = (np.array(ds_int[0], copy=True), np.array(ds_int[1], copy=True))
            g = getattr(clf, "get_%s_data" % which)()
            try:
                g[0][:] = g[0] + 1.0
                g[1][:] = 0
            except Exception:  # noqa: BLE001
                return
            changed = not (np.array_equal(ds_int[0], snap[0]) and np.array_equal(ds_int[1], snap[1]))
            if changed:
                ds_int[0][:] = snap[0]
                ds_int[1][:] = snap[1]
        elif which == "classes":
            snap = np.array(clf._calculated_classes_testset, copy=True)
            g = clf.get_calculated_classes_testset()
            if len(g) == 0:
                return
            g[:] = 99
            changed = not np.array_equal(clf._calculated_classes_testset, snap)
            if changed:
                clf._calculated_classes_testset[:] = snap
        else:
            arrs = list(clf._data_range) if which == "range" else [clf._scale_factor]
            snap = [np.array(a, copy=True) for a in arrs]
            g = clf.get_dataset_range() if which == "range" else [clf.get_scale_factor()]
            for a in g:
                try:
                    a[:] = a * 2.0 + 1.0
                except Exception:  # noqa: BLE001
                    return
            changed = any(not np.array_equal(a, b) for a, b in zip(arrs, snap))
            if changed:
                for a, b in zip(arrs, snap):
                    a[:] = b
        self.ctx.count("poke_" + which)
        if changed:
            # writing into an array a getter returned is not an evaluate/test call: outside C19's quantifier -> counted only
            self.ctx.count("getter_returns_internal_state_" + which)

    def rare_toggles(self):
        """rarely used public calls in the middle of a history: no exception on a learned object with a test set, no change"""
        clf = self.clf
        stored = (list(clf.get_calculated_classes_testset()), len(clf._densities_testset))
        try:
            quiet(lambda: clf.get_number_of_sparse_grid_points()) if self.scripted is None else None
            clf.get_time_used()
            if not clf._testing_data.is_empty() and clf._testing_data.get_length() == len(clf._calculated_classes_testset):
                _, out = quiet(lambda: clf.print_evaluation(print_incorrect_points=True))
                ev = clf.evaluate()
                g = re.search(r"Number of wrong mappings: (\d+)\s+Number of total mappings: (\d+)", out)
                if not g or (int(g.group(1)), int(g.group(2))) != (ev["Wrong mappings"], ev["Total mappings"]):
                    self.viol("printed-summary", {"op": "print_evaluation"}, {"printed": g.groups() if g else None})
        except Exception as e:  # noqa: BLE001
            self.viol("rare-call-raises", {"error": type(e).__name__}, {"error": str(e)[:200]})
        if stored != (list(clf.get_calculated_classes_testset()), len(clf._densities_testset)):
            self.viol("rare-call-changed-state", {}, {})
        self.ctx.count("rare_toggles")

    def check_evaluate_repeat(self):
        """evaluate() twice in a row: the same summary, nothing stored changes"""
        clf = self.clf
        stored = (list(clf.get_calculated_classes_testset()), len(clf._densities_testset), clf._testing_data.get_length())
        outs = []
        for _ in range(2):
            try:
                ev = clf.evaluate()
                outs.append({k: v for k, v in ev.items() if k != "Time used"})
            except Exception as e:  # noqa: BLE001
                outs.append("err " + err_kind(e))
        if outs[0] != outs[1]:
            self.viol("repeated-request", {"how": "differs", "op": "evaluate"}, {"first": str(outs[0])[:200], "again": str(outs[1])[:200]})
        if stored != (list(clf.get_calculated_classes_testset()), len(clf._densities_testset), clf._testing_data.get_length()):
            self.viol("repeated-request", {"how": "changed-stored-state", "op": "evaluate"}, {})
        self.check_stored()

    def check_trained_on(self, iL):
        """the j-th classificator was trained on the learning samples of the j-th label (the association the returned class
        relies on): its DensityEstimation object holds exactly those samples"""
        try:
            ops = self.clf.get_density_estimation_results()[1]
        except Exception:  # noqa: BLE001
            return
        if self.scripted is not None or any(o is None for o in ops):
            return
        for j, o in enumerate(ops):
            lab = self.class_labels[j] if j < len(self.class_labels) else None
            want = [(p, 0) for p, l in iL if l == lab]
            dat = np.asarray(o.data)
            cls = getattr(o, "classes", None)
            if cls is not None:
                dat = dat[np.asarray(cls) > 0]      # one-vs-others: the samples of the class itself carry the positive weight
            got = [(list(q), 0) for q in dat]
            if not multiset_close(got, want):
                self.viol("classificator-trained-on-its-class", {"kind": self.case["learn"]["kind"], "one_vs_others": cls is not None},
                          {"classificator": j, "label": lab, "its_samples": len(got), "samples_of_the_label": len(want)})
                return
        self.ctx.count("trained_on_checks")

    def make_sibling(self, spec, lk):
        """a second Classification object, learned with the same levels (equal level-vector keys) on other data, alive while
        the first one is used"""
        import sparseSpACE.DEMachineLearning as deml
        dim = len(self.olo)
        Xs = np.array([row[:-1] for row in spec["data"]], dtype=np.float64).reshape(len(spec["data"]), dim)
        ys = np.array([row[-1] for row in spec["data"]], dtype=np.int64)
        try:
            sib, _ = quiet(lambda: deml.Classification(deml.DataSet((Xs, ys), "sibling"), split_percentage=spec["p"], shuffle_data=False))
            if lk["kind"] == "std":
                quiet(lambda: sib.perform_classification(masslumping=lk["masslumping"], lambd=lk["lambd"], minimum_level=lk["lmin"],
                                                         maximum_level=lk["lmax"], print_metrics=False))
            else:
                quiet(lambda: sib.perform_classification_dimension_wise(masslumping=lk["masslumping"], lambd=lk["lambd"],
                                                                        minimum_level=lk["lmin"], maximum_level=lk["lmax"],
                                                                        max_evaluations=lk["max_evaluations"], print_metrics=False))
        except Exception as e:  # noqa: BLE001
            self.viol("sibling-raises", {"error": type(e).__name__}, {"error": str(e)[:200]})
            return
        self.sibling = {"clf": sib, "spec": spec, "first": None}
        self.ctx.count("sibling_objects")
        self.sibling_work("after-learning")
        # the first object must not have noticed: the scaling it stores and its stored classes / densities are re-read
        self.after_op(list(self.clf.get_calculated_classes_testset()), [], [], 0) if hasattr(self, "snapshot_scaling") else None

    def sibling_work(self, where):
        import sparseSpACE.DEMachineLearning as deml
        sb = self.sibling
        rows = sb["spec"]["batch"]
        Xb = np.array([row[:-1] for row in rows], dtype=np.float64)
        yb = np.array([row[-1] for row in rows], dtype=np.int64)
        try:
            r, _ = quiet(lambda: sb["clf"](deml.DataSet((Xb, yb), "sb"), print_removed=False))
        except Exception as e:  # noqa: BLE001
            if sb["first"] != "err":
                if sb["first"] is None and "out of bounds" in str(e):
                    sb["first"] = "err"
                else:
                    self.viol("sibling-interference", {"how": "raises"}, {"where": where, "error": str(e)[:200]})
            return
        got = ([list(q) for q in r[0]], [int(c) for c in r[1]])
        if sb["first"] is None:
            sb["first"] = got
        elif sb["first"] != got:
            self.viol("sibling-interference", {"how": "sibling-result-changed"}, {"where": where, "first": str(sb["first"][1])[:100], "now": str(got[1])[:100]})
        self.ctx.count("sibling_work")

    def model_op(self, op, rows, prestr, dstr, mpts, kept_impl, classes_now, res, reported):
        ctx, drv, clf = self.ctx, self.drv, self.clf
        if not mpts.startswith("ok"):
            self.corr("internal-scaling", "ok", mpts)
            return
        mp = parse_data(mpts[3:])
        idx = self.match(kept_impl, [(b[0], b[1]) for b in mp])
        if idx is None:
            self.corr("kept-samples", kept_impl[:6], [(list(map(float, b[0])), b[1]) for b in mp][:6])
            return
        used_idx = idx if op["op"] == "call" else [i for i in idx if rows[i][-1] >= 0]
        if used_idx:
            pts_used = [kept_impl[idx.index(i)][0] for i in used_idx]
            if op["op"] == "test" and len(clf._densities_testset) >= len(used_idx):
                rows_impl = self.stored_rows(len(used_idx))      # appended by `test_data`: pure attribute read
            else:
                rows_impl = self.dens_rows(np.array(pts_used))   # `__call__` deletes its rows again: re-evaluate the same batch
            self.feed([mp[i][0] for i in used_idx], rows_impl, pts_used)
        m = drv.ask("%s %s %s" % (op["op"], prestr, dstr))
        if self.ambiguous:
            ctx.count("ambiguous_float")
            self.stop = True
            return
        if not m.startswith("ok"):
            self.corr("op-result", "ok", m)
            return
        if op["op"] == "call":
            fm = fields(m, {"E", "R", "D"})
            self.cmp_data("call-evaluated", [(p, c) for (p, _), c in zip(kept_impl, classes_now)], parse_data(fm["E"]))
        else:
            fm = fields(m, {"U", "O", "R", "S", "C", "D"})
            used_impl = [(p, l) for p, l in kept_impl if l >= 0]
            if len(used_impl) == len(classes_now):
                self.cmp_data("test-used", [(p, l, c) for (p, l), c in zip(used_impl, classes_now)], parse_data(fm["U"]))
            else:
                self.corr("test-used-count", len(classes_now), len(used_impl))
            self.cmp_data("test-omitted", [(p, l) for p, l in kept_impl if l == -1], parse_data(fm["O"]))
            sm = fm["S"].split(" ")
            self.cmp("test-summary", "%d %d" % (res["Wrong mappings"], res["Total mappings"]), "%s %s" % (sm[0], sm[1]))
            if not near(res["Percentage correct"], F(sm[2]), 1e-12):
                self.corr("test-percentage", res["Percentage correct"], sm[2])
            self.cmp("test-stored-classes", self.fmt_classes(clf.get_calculated_classes_testset()), fm["C"])
        self.cmp("densities-length", str(len(clf._densities_testset)), fm["D"])
        if op["print_removed"]:
            self.cmp_data("reported-removed", reported, parse_data(fm["R"]), 1e-5)
        self.check_state("after-" + op["op"])

    def match(self, kept, cand):
        """kept (floats) must be a subsequence of cand (exact) up to rounding; returns the indices"""
        idx = []
        j = 0
        for p, l in kept:
            while j < len(cand) and not (pts_close(p, cand[j][0]) and l == cand[j][1]):
                j += 1
            if j == len(cand):
                return None
            idx.append(j)
            j += 1
        return idx

    def oracle_op(self, op, rows, pos, kept_impl, classes_now, res, reported, n_removed, tags):
        ctx = self.ctx
        if any(mg < AMBIG for _, _, mg in pos):
            ctx.count("ambiguous_float")
            return
        exp_kept = [i for i, (_, inr, _) in enumerate(pos) if inr]
        # (a) position in the learning scaling + removed <=> out of range
        exp_rows = [([float(v) for v in pos[i][0]], rows[i][-1]) for i in exp_kept]
        good = len(exp_rows) == len(kept_impl) and all(pts_close(a[0], b[0]) and a[1] == b[1] for a, b in zip(kept_impl, exp_rows))
        if not good:
            # distinguish: wrong set (removal) or wrong coordinates (scaling)
            probe = "removed-iff-out-of-range" if len(exp_rows) != len(kept_impl) else "position-in-learning-scaling"
            if op.get("pre") is not None:
                probe = "prescaled-accepted-position"   # a data set scaled by its owner was accepted as it is
            self.viol(probe, dict(tags, band=any(r for r in [op.get("mode") == "tight"])),
                      {"kept_impl": kept_impl[:6], "expected": exp_rows[:6], "n_impl": len(kept_impl), "n_expected": len(exp_rows)})
            return
        ctx.count("samples_kept", len(exp_kept))
        ctx.count("samples_removed", len(rows) - len(exp_kept))
        # (b) removed samples are reported
        if op["print_removed"]:
            exp_removed = [([float(v) for v in pos[i][0]], rows[i][-1]) for i in range(len(rows)) if not pos[i][1]]
            rep_ok = len(reported) == len(exp_removed) and all(pts_close(a[0], b[0], 1e-5) and a[1] == b[1] for a, b in zip(reported, exp_removed))
            if not rep_ok:
                self.viol("removed-reported", tags, {"reported": reported[:6], "expected": exp_removed[:6]})
        # (c) class = label of the first maximal density at that position
        if op["op"] == "call":
            used = exp_kept
        else:
            used = [i for i in exp_kept if rows[i][-1] >= 0]
        if len(used) != len(classes_now):
            self.viol("classified-count", tags, {"classified": len(classes_now), "expected": len(used)})
            return
        kept_pos = {i: kept_impl[n][0] for n, i in enumerate(exp_kept)}
        self.independent_class_check([kept_pos[i] for i in used], classes_now, tags)
        for i, c in zip(used, classes_now):
            if not op.get("reeval", True):
                break
            j, amb, row = self.expected_class([float(v) for v in pos[i][0]])
            if not self.class_ok(c, j, tags):
                if amb:
                    ctx.count("ambiguous_near_tie")
                    continue
                # the position the implementation computed differs from the exactly rounded one by float rounding only
                # (verified above); if the density oracle itself jumps between the two, this is not classification's business
                j2, amb2, row2 = self.expected_class(kept_pos[i])
                if amb2 or self.class_ok(c, j2, tags):
                    ctx.count("density_discontinuous_at_rounded_position")
                    continue
                self.viol("class-is-argmax", tags, {"sample": rows[i], "position": [float(v) for v in pos[i][0]], "densities": row,
                                                   "class": c, "expected_index": j, "expected_label": self.class_labels[j]})
                return
            if row.count(max(row)) > 1:
                ctx.count("exact_tie_samples")
        # (d) unlabelled set aside + summary
        if op["op"] == "test":
            labels = [rows[i][-1] for i in used]
            bad = self.summary_ok(res, labels, classes_now)
            if bad:
                self.viol("test-summary", tags, {"failed": bad})
            if any(rows[i][-1] == -1 for i in exp_kept):
                ctx.count("tests_with_unlabelled_set_aside")

    def after_op(self, before_classes, before_results, live_results, n_new):
        """later calls must not change the stored scaling nor anything assigned to earlier data"""
        clf = self.clf
        lo, hi = clf.get_dataset_range()
        f = clf.get_scale_factor()
        if not (np.array_equal(lo, self.snapshot_scaling[0]) and np.array_equal(hi, self.snapshot_scaling[1]) and np.array_equal(f, self.snapshot_scaling[2])):
            self.viol("scaling-changed-by-later-call", {}, {"now": [list(lo), list(hi), list(f)]})
        now = list(clf.get_calculated_classes_testset())
        if [int(c) for c in now[:len(before_classes)]] != [int(c) for c in before_classes] or len(now) != len(before_classes) + n_new:
            self.viol("stored-classes-changed", {}, {"before": before_classes[:20], "now": now[:20], "new": n_new})
        for (c0, p0), (c1, p1) in zip(before_results, live_results):
            if c1 is not None and (list(c1) != list(c0) or [list(p) for p in p1] != p0):
                self.viol("earlier-result-mutated", {}, {"before": c0[:20], "now": list(c1)[:20]})
        self.check_stored()

    def recheck_earlier(self):
        """at the end of the history every earlier data set is evaluated again (fresh object): same classes"""
        import sparseSpACE.DEMachineLearning as deml
        for h in list(self.history):
            op = h["op"]
            d, rows_again = self.make_input(op, "again")
            if rows_again is None or (op.get("own") and rows_again != op["data"]):
                continue      # (an own set that has grown by later test_data calls is a different batch)
            try:
                res, _ = quiet(lambda: self.clf(d, print_removed=False))
            except Exception as e:  # noqa: BLE001
                self.viol("earlier-classes-stable", {"how": "re-evaluation raises"}, {"error": str(e)[:200]})
                continue
            cl = [int(c) for c, l in zip(res[1], d[1]) if op["op"] == "call" or l >= 0]
            if cl != h["classes"]:
                self.viol("earlier-classes-stable", {"how": "re-evaluation differs"}, {"first": h["classes"][:30], "again": cl[:30]})
            self.ctx.count("rechecked_earlier_calls")
        self.check_state("end")


def run_case(ctx, drv, case):
    rn = Runner(ctx, drv, case)
    try:
        rn.run()
    except Exception as e:  # noqa: BLE001
        import traceback
        import common
        rn.ok = False
        tb = traceback.extract_tb(e.__traceback__)
        inside = [f for f in tb if os.path.realpath(f.filename).startswith(os.path.realpath(common.REPO))]
        if inside:
            # an exception of the implementation on a generated (valid) input is a failing input, not a harness crash
            ctx.violation("implementation-raises", {"error": type(e).__name__, "where": inside[-1].name}, case,
                          {"error": str(e)[:300], "frame": "%s:%d %s" % (os.path.basename(inside[-1].filename), inside[-1].lineno, inside[-1].name)})
        else:
            ctx.corr_break("C19/harness-exception", case, traceback.format_exc()[-3000:])
    return rn


def run(ctx):
    thorough = ctx.tier == "thorough"
    ctx.rule = ("one case = one Classification object: synthetic labelled data (dim 1-3, 2-4 classes, dyadic coordinates, separated or overlapping, "
                "5% unlabelled, optional user data_range, split percentage incl. 0 / 1 / >1, even / uneven split, optional seeded shuffle), learned with "
                "perform_classification / _dimension_wise at levels 1-5 (45%) or equipped with scripted piecewise-constant density callables with exact ties (55%), "
                "then 1-10 later calls (__call__ / test_data / evaluate) with data inside, on the edge, in the tolerance band, just outside, far outside, "
                "all unlabelled, empty, wrong dimension, scaled beforehand; model and implementation compared after every step; "
                "distinct by the whole case; non-trivial if at least one later call returned a result")
    ctx.assumptions = [
        "learned densities are an oracle of the model (read from the implementation's classificators); their correctness is C16/C02",
        "float rounding of the scaling is not modelled: comparisons at 1e-9; samples closer than 1e-9 to a removal threshold are counted as ambiguous_float and skipped",
        "iteration order of Python sets (labels, boundary rows) is an input of the model, recomputed by the harness with the code's own expression",
    ]
    drv = ctx.driver("drv_c19")
    budget = 60 if not thorough else 420
    n = 400 if not thorough else 6000
    k = 0
    while k < n and ctx.time_left(budget) > 0:
        case = gen_case(ctx, k)
        rn = run_case(ctx, drv, case)
        ctx.count("stream_" + case["stream"])
        if case.get("family"):
            ctx.count("family_" + case["family"])
        ctx.count("dim_%d" % case["dim"])
        ctx.case(case, nontrivial=rn.nontrivial, sample={k2: (v if k2 != "data" else v[:3]) for k2, v in case.items()} if k < 2 else None)
        k += 1
        if not rn.ok and (len(ctx.violations) + len(ctx.corr_breaks)) >= 40:
            break


def replay(ctx, rp):
    case = rp["case"]
    drv = ctx.driver("drv_c19")
    rn = run_case(ctx, drv, case)
    print("replay: %s" % ("property holds and model agrees on this case" if rn.ok and not ctx.known_hits else "REPRODUCED"))
    for v in ctx.violations[:5]:
        print("  violation:", v["probe"], v["tags"], json.dumps(v["detail"], default=str)[:400])
    for fid, (f, cnt) in ctx.known_hits.items():
        print("  known finding:", fid, cnt)
    for c in ctx.corr_breaks[:3]:
        print("  disagreement:", c["observable"], str(c["detail"])[:400])
    for d in ctx._drivers:
        d.close()
    return 0 if rn.ok and not ctx.known_hits else 1
