"""C14 -- interrupted, saved or resumed refinement ends where an uninterrupted run ends.

For each configuration (same generators as C13: dimension-wise / extend-split Integration runs, dyadic polynomial
integrands, with and without reference) one uninterrupted run with the final limits L2, then for EVERY evaluation
index i of that run (including the last one): a fresh instance is run with limits L1 <= L2 that stop exactly at i,
optionally saved to a file and restored (dill), then continued with continue_adaptive_refinement(L2).

Oracle (on the implementation): final refinement structure, combination scheme, combined result, reported point count
and evaluation count of stop+continue equal those of the uninterrupted run; with save/restore the outcome equals the
one without; a restored instance answers __call__ and evaluate_final_combi exactly like the instance that was saved.
Correspondence: the Lean model (drv_c13: `resume`, `grow`, `inceval`) predicts from the uninterrupted run's observation
stream where the L1 run stops and what the arrays of the continued run look like (one duplicated entry), and mirrors how
the extend-split evaluation adds the new areas again.  At every stop the hypothesis of the theorems (re-entrance of
evaluate_operation) is probed on a copy of the instance; its outcome is a tag of every violation."""
import math
import os
import tempfile
from fractions import Fraction

import c13
from c13 import fr, lim_str, stream_str, parse_stop, quiet, build, stream_of, _classes
from common import close


# resuming an EXTEND-SPLIT run through performSpatiallyAdaptiv(refinement_container=...) still counts every area twice
# (init_adaptive_combi: reinit_new_objects() makes all areas new again, operation.integral is not reset); proposed repair:
# /verif/handoff/postfix/C14/fix-1-*.diff.  The path is generated for extend-split once that repair is in the tree.
ES_CONTAINER_RESUME = True


def view(sa, cfg):
    """the observables the property compares: refinement structure, scheme, lmax"""
    if cfg["strategy"] == "dimwise":
        st = [[(float(o.start), float(o.end), tuple(int(x) for x in o.levels), int(o.coarsening_level))
               for o in c.get_objects()] for c in sa.refinement.refinementContainers]
    else:
        st = sorted((tuple(float(x) for x in o.start), tuple(float(x) for x in o.end), int(o.coarseningValue),
                     int(o.needExtendScheme)) for o in sa.refinement.get_objects())
    scheme = sorted((tuple(int(x) for x in g.levelvector), float(g.coefficient)) for g in sa.scheme)
    return {"structure": st, "scheme": scheme, "lmax": [int(x) for x in sa.lmax]}


def result_of(ret):
    import numpy as np
    return [float(x) for x in np.atleast_1d(ret[3])]


def vec_close(a, b, unit=0.0):
    """relative comparison (integrands are scaled by 1e-12 .. 1e8); `unit` = size of the quantities a difference was formed from"""
    return len(a) == len(b) and all((x == y) or (math.isnan(x) and math.isnan(y)) or
                                    abs(x - y) <= 1e-10 * max(abs(x), abs(y)) + 1e-10 * unit for x, y in zip(a, b))


def perform(sa, eo, cfg, L, container=None):
    return quiet(sa.performSpatiallyAdaptiv, 1, cfg["lmax"], eo, tol=L["tol"], max_evaluations=L["max"],
                 min_evaluations=L["min"], print_output=False, refinement_container=container,
                 reevaluate_at_end=bool(cfg.get("reeval")))


def cont(sa, L):
    return quiet(sa.continue_adaptive_refinement, tol=L["tol"], max_evaluations=L["max"], min_evaluations=L["min"])


def dill_copy(sa):
    import dill
    return dill.loads(dill.dumps(sa))


def reentrance_probe(sa, ret):
    """evaluate again on a COPY of the stopped instance; compare what the stopping rule reads and the result"""
    import numpy as np
    cp = dill_copy(sa)
    before = {"result": [float(x) for x in np.atleast_1d(cp.operation.get_result())],
              "points": int(cp.get_total_num_points()), "error": float(ret[5][-1]),
              "evaluations": int(cp.refinement.evaluationstotal)}
    info = {}
    if not hasattr(cp.refinement, "refinementContainers"):
        new = cp.refinement.get_new_objects()
        info["start_new"] = int(cp.refinement.startNewObjects)
        info["areas"] = [[float(x) for x in np.atleast_1d(o.value)] for o in cp.refinement.get_objects()]
        info["n_new"] = len(new)
    err, _sur = quiet(cp.evaluate_operation)
    if "areas" in info:
        info["start_new_after"] = int(cp.refinement.startNewObjects)
    after = {"result": [float(x) for x in np.atleast_1d(cp.operation.get_result())],
             "points": int(cp.get_total_num_points()), "error": float(err),
             "evaluations": int(cp.refinement.evaluationstotal)}
    same = (vec_close(before["result"], after["result"]) and before["points"] == after["points"]
            and before["evaluations"] == after["evaluations"]
            and vec_close([before["error"]], [after["error"]]))
    return same, before, after, info


def pick_interrupt_limits(drv, L2, stream, i, m, tol_first=False, rng=None):
    """limits L1 with L1.grow L2 whose run (per the model, on the uninterrupted run's stream) stops exactly at index i.
    Two families: the first leg is cut by max_evaluations (max = pts_i - 1), or it STOPS BY TOLERANCE t1 = err_i (or one ulp
    above) and is continued with the smaller tolerance of L2 (grow: tol2 <= tol1).  returns (L1, prediction, "max"|"tol"|"same")"""
    e_i, p_i, _ = stream[i]
    by_max = [("max", dict(L2, max=p_i - 1)), ("max", {"tol": L2["tol"], "min": min(L2["min"], 1), "max": p_i - 1})]
    by_tol = []
    if math.isfinite(e_i) and e_i > L2["tol"]:
        ts = [e_i, math.nextafter(e_i, math.inf)]
        if rng is not None and rng.random() < 0.5:
            ts.reverse()
        for t1 in ts:
            by_tol.append(("tol", {"tol": t1, "min": min(L2["min"], p_i), "max": L2["max"]}))
            by_tol.append(("tol", {"tol": t1, "min": min(L2["min"], 1), "max": L2["max"]}))
    cands = (by_tol + by_max) if tol_first else (by_max + by_tol)
    if i == m:
        cands = ([("same", dict(L2))] + cands) if not tol_first else (cands + [("same", dict(L2))])
    for kind, L1 in cands:
        if drv.ask("grow %s %s" % (lim_str(L1), lim_str(L2))) != "true":
            continue
        line = drv.ask("resume %s %s %s" % (lim_str(L1), lim_str(L2), stream_str(stream)))
        if line.startswith("stop1 i=%d " % i):
            return L1, parse_stop(line.split(" ", 2)[2]), kind
    return None, None, None


def check_config(ctx, drv, cfg, L2, max_index, case_out=None, sibling=False):
    """returns ok"""
    import numpy as np
    from sparseSpACE.StandardCombi import StandardCombi
    ok = True
    case = {"cfg": cfg, "L2": L2}
    if case_out is not None:
        case_out.update(case)
    rclass = c13.ref_class(c13.reference_of(cfg, c13.make_f(cfg)))
    base_tags = {"strategy": cfg["strategy"], "ref": rclass, "norm": cfg["norm"], "dim": cfg["dim"],
                 "scale": cfg.get("scale", 1.0), "cache": cfg.get("cache", True), "reevaluate_at_end": bool(cfg.get("reeval")),
                 "final_stop": "max" if L2["tol"] < 0 else ("min" if L2["tol"] >= 1e9 else ("tol" if L2["min"] <= 1 else "tol<min")),
                 "grid": cfg.get("grid", "default"), "operation": cfg.get("operation", "integration"),
                 "surplus_grid": cfg.get("surplus_grid", "uq" if cfg.get("operation") == "uq" else "default")}

    def corr(obs, impl, model, extra=None):
        nonlocal ok
        if impl != model:
            ok = False
            ctx.corr_break("C14/" + obs, dict(case, **(extra or {})), {"impl": str(impl)[:600], "model": str(model)[:600]})

    # ---- the uninterrupted run ----------------------------------------------------------------------------------
    sa0, eo0, f0 = build(cfg)
    try:
        r0 = perform(sa0, eo0, cfg, L2)
    except c13.Runaway:
        ctx.count("single_run_cut_by_guard")
        return True
    except Exception as e:  # noqa: BLE001  (k. an exception on a valid configuration is a violation with a replayable case)
        return not ctx.violation("single-run-raises", dict(base_tags), case, {"exception": "%s: %s" % (type(e).__name__, e)})
    stream = stream_of(r0)
    m = len(stream) - 1
    if m > max_index:
        ctx.count("single_run_too_long")
        return True
    V0 = view(sa0, cfg)
    res0, pts0, ev0 = result_of(r0), int(r0[6][-1]), int(r0[4])
    # extend-split sums area values; a leg that recomputes them (container resume, reevaluate_at_end) uses another order, so
    # results are compared relative to the size of the summands (a zero-integral component is pure cancellation noise)
    sum_unit, err_unit = 0.0, 0.0
    if cfg["strategy"] == "extend_split":
        sum_unit = sum(float(np.sum(np.abs(np.atleast_1d(o.value)))) for o in sa0.refinement.get_objects() if o.value is not None)
        ref0 = c13.reference_of(cfg, c13.make_f(cfg))
        nz = [abs(float(x)) for x in ref0 if float(x) != 0.0] if ref0 is not None else []
        err_unit = 1e-3 * (sum_unit / min(nz) if nz and len(nz) == len(ref0) else sum_unit)   # error = |ref - res| (/ |ref|)
    ctx.count("final_index_%d" % m)
    # the uninterrupted run itself must stop where ITS limits say (C13's clause; here it decides what "the single run" is)
    first = next((j for j, (e, p, _s) in enumerate(stream) if c13.stop_rule(L2, e, p)), None)
    if first != m:
        corr("single-run-stop-index", "stopped at %d" % m, "first index satisfying the limits: %s" % first)
    rng_pts = [[ctx.rng.choice([0.0, 1.0, 0.5, 0.25, 0.3, 0.7, 0.123, 0.9, 0.625]) for _ in range(cfg["dim"])] for _ in range(5)]
    lo, hi = c13.box_of(cfg)
    rng_pts = [tuple(lo[d] + p[d] * (hi[d] - lo[d]) for d in range(cfg["dim"])) for p in rng_pts]
    sibling_cfg = sibling if sibling is not False else (c13.small_sibling_cfg(ctx.rng) if ctx.rng.random() < 0.3 else None)
    if sibling_cfg is not None:
        case["sibling"] = sibling_cfg
    import atexit
    import shutil
    ckpt_dir = tempfile.mkdtemp(prefix="verif_c14_")
    atexit.register(shutil.rmtree, ckpt_dir, ignore_errors=True)
    for i in range(m + 1):
        # dimension-wise: in 60 % of the indices the first leg is one that STOPPED BY TOLERANCE t1 > tol2 (when the errors
        # allow it); the continuation must honour the NEW tolerance, not the one of the first call
        L1, pred, first_stop = pick_interrupt_limits(drv, L2, stream, i, m, rng=ctx.rng,
                                                     tol_first=(cfg["strategy"] == "dimwise" and ctx.rng.random() < 0.6))
        validated = L1 is not None
        if L1 is None:
            # the model finds no limits that stop the first leg exactly here (equal point counts, or the single run did not
            # stop where the model expects): interrupt by max_evaluations = pts_i - 1 all the same; if that leg happens to stop
            # at i the comparison with the single run is as valid as ever, if not the index is skipped
            L1, pred, first_stop = dict(L2, max=stream[i][1] - 1), None, "unvalidated"
        ctx.count("first_leg_stopped_by_" + first_stop)
        outcomes = {}
        leg_reached = True
        for save in (False, True):
            sub = dict(case, L1=L1, index=i, save=save)
            tags = dict(base_tags, save=save, at_final=(i == m), index=i, first_stop=first_stop)
            sa, eo, f = build(cfg)
            try:
                r1 = perform(sa, eo, cfg, L1)
            except Exception as e:  # noqa: BLE001
                ok = not ctx.violation("interrupted-run-raises", tags, sub, {"exception": "%s: %s" % (type(e).__name__, e)}) and ok
                continue
            if not validated and (len(r1[5]) != i + 1 or [tuple(map(repr, x)) for x in stream_of(r1)] != [tuple(map(repr, x)) for x in stream[:i + 1]]):
                ctx.count("index_not_reachable_by_limits")
                leg_reached = False
                break
            if len(r1[5]) != i + 1 or [tuple(map(repr, x)) for x in stream_of(r1)] != [tuple(map(repr, x)) for x in stream[:i + 1]]:
                # (m) the disagreement with the model does not retire the case: wherever the first leg stopped, continuing it
                # must still end where the single run ends -- the oracle below keeps running on the implementation's own output
                corr("interrupted-run-stops-at-index", "stopped after %d evaluations" % len(r1[5]), "stop1 i=%d" % i, sub)
                pred = None
            reent, before, after, info = reentrance_probe(sa, r1)
            tags["reentrant"] = reent
            # signature of the accumulated volumes: the re-evaluated error is exactly twice the recorded one
            tags["reeval_error"] = ("same" if (after["error"] == before["error"] or (math.isnan(after["error"]) and math.isnan(before["error"])))
                                    else ("doubled" if after["error"] == 2 * before["error"] else "other"))
            new_sum = None
            area_size = 0.0     # size of the summands the results are formed from (results may be pure cancellation noise)
            if "areas" in info:
                area_size = sum(abs(x) for a in info["areas"] for x in a)
                new_sum = [sum(a[k] for a in info["areas"][info["start_new"]:]) for k in range(len(before["result"]))]
            ctx.count("reentrant_%s_%s" % (cfg["strategy"], reent))
            if "areas" in info and len(before["result"]) >= 1:
                # mirror of the extend-split evaluation: the areas from startNewObjects on are added, then nothing is new
                for k in range(len(before["result"])):
                    mdl = drv.ask("inceval %s %d %s" % (fr(before["result"][k]), info["start_new"],
                                                        ",".join(fr(a[k]) for a in info["areas"]) or "-")).split()
                    size = max([abs(before["result"][k])] + [abs(a[k]) for a in info["areas"]])
                    if len(mdl) != 2 or abs(after["result"][k] - float(Fraction(mdl[0]))) > 1e-9 * size or int(mdl[1]) != info["start_new_after"]:
                        corr("extend-split-reevaluation", "%r startNew=%d" % (after["result"][k], info["start_new_after"]), " ".join(mdl), sub)
                ctx.count("inceval_checked")
            inst = sa
            if save:
                # ONE checkpoint file per configuration: every interruption index saves to the same name again (the file of the
                # previous index is still there), as a run that checkpoints repeatedly does; restore must give the LAST save
                fn = os.path.join(ckpt_dir, "instance.dill")
                try:
                    sa.save_to_file(fn)
                    inst = StandardCombi.restore_from_file(fn)
                    twin = StandardCombi.restore_from_file(fn)
                    ctx.count("saves_to_the_same_file" if i > 0 else "first_save_to_the_file")
                except Exception as e:  # noqa: BLE001
                    ok = not ctx.violation("save-restore-raises", tags, sub, {"exception": "%s: %s" % (type(e).__name__, e)}) and ok
                    inst = None
                if inst is None:
                    continue
                # restored vs original: interpolation (__call__) and evaluation (evaluate_final_combi), view
                bad = {}
                if view(twin, cfg) != view(sa, cfg):
                    bad["view"] = True
                # what the restored instance REPORTS before anything is recomputed: point count, evaluation count, result
                rep_a = (int(sa.get_total_num_points()), int(sa.refinement.evaluationstotal), [float(x) for x in np.atleast_1d(sa.operation.get_result())])
                rep_b = (int(twin.get_total_num_points()), int(twin.refinement.evaluationstotal), [float(x) for x in np.atleast_1d(twin.operation.get_result())])
                if rep_a != rep_b:
                    bad["reported"] = {"original (points, evaluations, result)": rep_a, "restored": rep_b}
                a_call = None
                try:
                    a_call = np.asarray(quiet(sa, list(rng_pts)), dtype=float)
                    b_call = np.asarray(quiet(twin, list(rng_pts)), dtype=float)
                    if a_call.shape != b_call.shape or not np.array_equal(a_call, b_call, equal_nan=True):
                        bad["call"] = {"original": a_call.tolist(), "restored": b_call.tolist()}
                    a_fin = quiet(sa.evaluate_final_combi)
                    b_fin = quiet(twin.evaluate_final_combi)
                    if not (np.array_equal(np.atleast_1d(a_fin[0]), np.atleast_1d(b_fin[0]), equal_nan=True) and int(a_fin[1]) == int(b_fin[1])):
                        bad["evaluate_final_combi"] = {"original": [np.atleast_1d(a_fin[0]).tolist(), int(a_fin[1])],
                                                       "restored": [np.atleast_1d(b_fin[0]).tolist(), int(b_fin[1])]}
                    ctx.count("restore_compared")
                except Exception as e:  # noqa: BLE001
                    bad["exception"] = "%s: %s" % (type(e).__name__, e)
                if bad:
                    ok = not ctx.violation("restore-vs-original", tags, dict(sub, points=rng_pts), bad) and ok
                late_twin = (twin, a_call if "exception" not in bad else None)
            else:
                late_twin = None
            # a. repeated queries on the stopped instance agree and change nothing
            q = [(int(inst.get_total_num_points()), [float(x) for x in np.atleast_1d(inst.operation.get_result())],
                  int(inst.refinement.evaluationstotal)) for _ in range(2)]
            if q[0] != q[1] or q[0][0] != int(r1[6][-1]):
                ok = not ctx.violation("queries-disagree", tags, sub, {"two_reads (points, result, evaluations)": q,
                                                                       "returned_points": int(r1[6][-1])}) and ok
            # b. an unrelated sibling object (other strategy / function / options) works between the stop and the continuation
            if sibling_cfg is not None:
                try:
                    sb, eb, _fb = build(sibling_cfg)
                    perform(sb, eb, sibling_cfg, {"tol": -1.0, "min": 1, "max": 90})
                    ctx.count("sibling_worked_in_between")
                except Exception:  # noqa: BLE001  (the sibling's own run is not under test here)
                    pass
            try:
                r2 = cont(inst, L2)
            except c13.Runaway:
                ok = not ctx.violation("resume-vs-single", dict(tags, differs="does-not-stop"), sub, {"single_run_points": pts0}) and ok
                continue
            except Exception as e:  # noqa: BLE001
                ok = not ctx.violation("continue-raises", tags, sub, {"exception": "%s: %s" % (type(e).__name__, e)}) and ok
                continue
            if late_twin is not None and late_twin[1] is not None:
                # a second restored copy is interpolated only NOW, after another live instance (the continued one) has evaluated:
                # it must still answer like the instance that was saved
                try:
                    c_call = np.asarray(quiet(late_twin[0], list(rng_pts)), dtype=float)
                    if c_call.shape != late_twin[1].shape or not np.array_equal(c_call, late_twin[1], equal_nan=True):
                        ok = not ctx.violation("restore-vs-original", tags, dict(sub, points=rng_pts),
                                               {"call_after_another_instance_evaluated": {"saved": late_twin[1].tolist(), "restored": c_call.tolist()}}) and ok
                    ctx.count("restore_compared_late")
                except Exception as e:  # noqa: BLE001
                    ok = not ctx.violation("restore-vs-original", tags, dict(sub, points=rng_pts),
                                           {"call_after_another_instance_evaluated": "%s: %s" % (type(e).__name__, e)}) and ok
            V2 = view(inst, cfg)
            res2, pts2, ev2 = result_of(r2), int(r2[6][-1]), int(r2[4])
            outcomes[save] = (V2, res2, pts2, ev2, [int(x) for x in r2[6]], len(r2[5]), len(r2[7]))
            differs = []
            if V2["structure"] != V0["structure"] or V2["lmax"] != V0["lmax"]:
                differs.append("structure")
            if V2["scheme"] != V0["scheme"]:
                differs.append("scheme")
            if not vec_close(res2, res0, unit=1e-3 * sum_unit):
                differs.append("result")
            if pts2 != pts0 or int(inst.get_total_num_points()) != int(sa0.get_total_num_points()):
                differs.append("points")
            if ev2 != ev0:
                differs.append("evaluations")
            # both runs end in the same state, so the error they report for their last evaluation (= the deviation of the
            # combined result the loop worked with from the reference) must agree as well -- provided the evaluation at the
            # interruption state is re-entrant (otherwise the duplicated evaluation itself may legitimately differ)
            if reent and not vec_close([float(r2[5][-1])], [float(r0[5][-1])], unit=err_unit):
                differs.append("final-error")
            if differs:
                # is the difference exactly "the areas that were new at the interruption were added a second time"?
                tags["delta_is_new_areas"] = bool(new_sum is not None and set(differs) <= {"result", "evaluations"} and
                                                  vec_close([a - b for a, b in zip(res2, res0)], new_sum,
                                                            unit=max([abs(x) for x in res0 + res2] + [0.0]) + area_size))
                ok = not ctx.violation("resume-vs-single", dict(tags, differs="+".join(differs)), sub,
                              {"differs": differs, "single": {"result": res0, "points": pts0, "evaluations": ev0, "stream_points": [x[1] for x in stream]},
                               "resumed": {"result": res2, "points": pts2, "evaluations": ev2, "points_array": [int(x) for x in r2[6]],
                                           "final_error": float(r2[5][-1]), "single_final_error": float(r0[5][-1])},
                               "reevaluation_on_copy": {"before": before, "after": after}}) and ok
                ctx.count("defect_cases")
            else:
                # the model's prediction of the continued run's arrays (one duplicated entry at the interruption index)
                if pred is not None:
                    corr("resumed-arrays", "lens=%d,%d,%d pts=%s" % (len(r2[5]), len(r2[6]), len(r2[7]), [int(x) for x in r2[6]]),
                         "lens=%d,%d,%d pts=%s" % (pred["lens"][0], pred["lens"][1], pred["lens"][2], pred["pts"]), sub)
                # (the theorem gives the final error only under re-entrance of the evaluation at the interruption state)
                if reent and not vec_close([float(r2[5][-1])], [float(r0[5][-1])], unit=err_unit):
                    corr("resumed-final-error", r2[5][-1], r0[5][-1], sub)
            ctx.case(sub, nontrivial=True, sample=sub if ctx.evaluations < 2 else None)
        if i < m and leg_reached and (cfg["strategy"] == "dimwise" or ES_CONTAINER_RESUME):
            # second way to resume: hand the reached refinement back, performSpatiallyAdaptiv(..., refinement_container=...)
            # on the same object (arrays start again; the refinement is re-initialised and re-evaluated)
            sub = dict(case, L1=L1, index=i, mode="container")
            tags = dict(base_tags, index=i, mode="container")
            sa, eo, f = build(cfg)
            try:
                r1 = perform(sa, eo, cfg, L1)
                r2 = perform(sa, eo, cfg, L2, container=sa.refinement)
            except Exception as e:  # noqa: BLE001
                ok = not ctx.violation("resume-via-container-raises", tags, sub, {"exception": "%s: %s" % (type(e).__name__, e)}) and ok
                r2 = None
            if r2 is not None:
                V2 = view(sa, cfg)
                res2, pts2, ev2 = result_of(r2), int(r2[6][-1]), int(r2[4])
                differs = []
                if V2["structure"] != V0["structure"] or V2["lmax"] != V0["lmax"]:
                    differs.append("structure")
                if V2["scheme"] != V0["scheme"]:
                    differs.append("scheme")
                if not vec_close(res2, res0, unit=1e-3 * sum_unit):
                    differs.append("result")
                if pts2 != pts0 or int(sa.get_total_num_points()) != int(sa0.get_total_num_points()):
                    differs.append("points")
                if ev2 != ev0:
                    differs.append("evaluations")
                if [int(x) for x in r2[6]] != [x[1] for x in stream[i:]]:
                    differs.append("point-array")      # the counts reported on the way must be those of the single run
                if differs:
                    ok = not ctx.violation("resume-via-container-vs-single", dict(tags, differs="+".join(differs)), sub,
                                           {"differs": differs, "single": {"result": res0, "points": pts0, "evaluations": ev0, "stream_points": [x[1] for x in stream]},
                                            "resumed": {"result": res2, "points": pts2, "evaluations": ev2, "points_array": [int(x) for x in r2[6]],
                                                        "distinct_points_evaluated": len(f.seen)}}) and ok
                else:
                    mdl = parse_stop(drv.ask("run %s %s" % (lim_str(L2), stream_str(stream[i:]))))
                    corr("container-resume-arrays", "stop i=%d pts=%s" % (len(r2[5]) - 1, [int(x) for x in r2[6]]),
                         "nostop" if mdl is None else "stop i=%d pts=%s" % (mdl["i"], mdl["pts"]), sub)
                ctx.count("container_resumes")
                ctx.case(sub, nontrivial=True)
        if False in outcomes and True in outcomes and outcomes[False] != outcomes[True]:
            a, b = outcomes[False], outcomes[True]
            if not (a[0] == b[0] and vec_close(a[1], b[1]) and a[2:] == b[2:]):
                ok = not ctx.violation("save-changes-resume", dict(base_tags, index=i), dict(case, L1=L1, index=i),
                                       {"without_save": {"result": a[1], "points": a[2], "evaluations": a[3]},
                                        "with_save": {"result": b[1], "points": b[2], "evaluations": b[3]}}) and ok
    shutil.rmtree(ckpt_dir, ignore_errors=True)
    return ok


def gen_final_limits(rng, stream, max_index, strategy):
    """final limits L2 whose run has at most max_index+1 evaluations, stopping by max or by tolerance (with min); the same
    kinds for both strategies (extend-split final limits may be error-driven since the re-evaluation double count is repaired)"""
    m = rng.randrange(0, min(len(stream), max_index + 1))
    e, p, _ = stream[m]
    kind = rng.choice(["max", "max", "tol", "tol", "tol+min", "tol<min", "tol<min"])
    if kind == "tol<min" and m >= 1:
        # a tolerance that is met at an EARLIER evaluation j < m, and a minimum point count that is only reached at m: every leg
        # -- the uninterrupted run too -- has to go on until the minimum is reached
        j = rng.randrange(0, m)
        tol = stream[j][0]
        if math.isfinite(tol) and tol > 0:
            if strategy == "extend_split":
                tol = tol * (1 + 1e-9)
            if not any(math.isfinite(x[0]) and abs(x[0] - tol) <= 1e-10 * abs(tol) for x in stream) or strategy != "extend_split":
                return {"tol": tol, "min": p, "max": None if rng.random() < 0.5 else stream[min(len(stream) - 1, max_index)][1] - 1}
    if kind == "max" or not math.isfinite(e):
        return {"tol": -1.0, "min": 1, "max": p - 1}
    if kind == "tol":
        tol = e
        if strategy == "extend_split":
            # extend-split accumulates its result incrementally: a leg that recomputes it (container resume,
            # reevaluate_at_end) sums the same areas in another order, its errors differ from the single run's in the last
            # bits.  A tolerance EXACTLY on an error of the stream would turn that rounding into a different stop (numerics
            # policy of DESIGN 2.4: no decision by a margin below 1e-12); keep a relative margin of 1e-9 to every error.
            tol = e * (1 + 1e-9) if e > 0 else e
            if any(math.isfinite(x[0]) and abs(x[0] - tol) <= 1e-10 * abs(tol) for x in stream) or e <= 0:
                return {"tol": -1.0, "min": 1, "max": p - 1}
        return {"tol": tol, "min": 1, "max": stream[min(len(stream) - 1, max_index)][1] - 1}
    return {"tol": 1e9, "min": p, "max": None if rng.random() < 0.5 else stream[min(len(stream) - 1, max_index)][1] - 1}


def run(ctx):
    thorough = ctx.tier == "thorough"
    ctx.rule = ("configurations as in C13 (dimension-wise versions 2/3/6 and extend-split, dim 2-3, lmax 2-3, dyadic polynomial integrands with 1-3 "
                "outputs, reference exact/perturbed/zero/none, norms inf/1/2); final limits stop by max_evaluations, by tolerance or by tolerance+min; "
                "value cache on / deactivated, integrands scaled by 1e-12..1e8, reevaluate_at_end on in 35 % (all legs and the single run); plus a family of long dim-3 dimension-wise runs (final index 5-9); "
                "EVERY evaluation index of the uninterrupted run (incl. the last) is an interruption point, each continued with continue_adaptive_refinement "
                "with and without save/restore, and (dimension-wise) resumed via performSpatiallyAdaptiv(refinement_container=...); "
                "a case is one (configuration, final limits, interruption index, save?) resume, all are non-trivial")
    drv = ctx.driver("drv_c13")
    _classes()
    max_index = 5 if not thorough else 11
    n_cfg = 60 if not thorough else 600
    budget = 80 if not thorough else 540
    n_deep = 3 if not thorough else 24
    for k in range(n_cfg):
        if k >= n_deep + 2 and ctx.time_left(budget) < 0:      # the directed families at the start always run (load independent)
            break
        deep = k < n_deep
        if deep:
            # dedicated family: dim 3, dimension-wise version 6 with rebalancing, LONG runs (final index 5..9): from about the
            # fourth refinement on, points evaluated earlier have dropped out of every current component grid, so that a
            # resumed run only reports the single run's point count if the evaluation record survives the interruption
            r = ctx.rng
            nout = r.choice([1, 1, 2])
            cfg = {"strategy": "dimwise", "version": 6, "dim": 3, "lmax": 2,
                   "coeffs": [[r.choice([0.25, 0.5, 1.0, 1.5, 2.0]) for _ in range(3)] for _ in range(nout)],
                   "powers": [[r.choice([2, 2, 3, 4]) for _ in range(3)] for _ in range(nout)],
                   "ref": r.choice(["exact", "perturbed", "none"]), "norm": r.choice(["inf", "1", "2"]),
                   "scale": r.choice([1.0, 1.0, 1e-10, 1e8]), "cache": r.random() >= 0.5}
            ctx.count("family_deep_dim3")
        else:
            cfg = c13.gen_cfg(ctx.rng, thorough)
            # directed, right after the deep family and outside the budget: k = n_deep an extend-split run with reevaluate_at_end
            # (every leg ends with evaluate_final_combi; continue + container resume), k = n_deep + 1 a dimension-wise run on a
            # global B-spline grid built with grid_surplusses=<that grid> (save / restore / continue)
            want = "extend_split" if k == n_deep else ("dimwise" if k == n_deep + 1 else None)
            while want is not None and not (cfg["strategy"] == want and cfg["dim"] == 2):
                cfg = c13.gen_cfg(ctx.rng, thorough, strategy=want)
            cfg.pop("grid", None)          # C13's extra families (non-nested grids, recalculate_frequently) are not part of
            cfg.pop("recalc", None)        # the resume protocol
            cfg.pop("eval_points", None)
            for key in ("operation", "ref_route", "uq_moments"):
                cfg.pop(key, None)
            if cfg["strategy"] == "extend_split":
                # extend-split versions 1-3 evaluate other grids when an area is evaluated from scratch than incrementally (version 3:
                # a container resume reports 110 points where the single run has 92; recorded in handoff/C14.md) -- version 0 here
                cfg["version"] = 0
        if cfg["ref"] == "partial_zero":
            cfg["ref"] = "exact"
        # every leg (and the single run it is compared with) ends with evaluate_final_combi(): whatever that recomputation
        # leaves in the areas / intervals is what the continued leg starts from
        if cfg["strategy"] == "dimwise" and not deep and ctx.rng.random() < 0.3:
            # global basis-function grids: their per-component-grid surplusses are part of what save/restore has to carry
            cfg["grid"], cfg["p"] = ctx.rng.choice([("global_bspline", 3), ("global_bspline", 1), ("global_lagrange", 2), ("global_lagrange", 1)])
            ctx.count("grid_" + cfg["grid"])
        if cfg["strategy"] == "dimwise" and not deep:
            # constructor option grid_surplusses=<the operation's grid>: the surplus helper grid is the operation's own grid -- the
            # weighted grid of an UncertaintyQuantification operation (Uniform on the box), or the global basis-function grid
            if cfg.get("grid") in ("global_bspline", "global_lagrange"):
                if ctx.rng.random() < 0.5:
                    cfg["surplus_grid"] = "operation"
            elif ctx.rng.random() < 0.25 and cfg["ref"] != "none":
                cfg.update(operation="uq", ref_route=ctx.rng.choice(["constructor", "setter"]), uq_moments=False)
                cfg.pop("ctor", None)
            ctx.count("surplus_grid_" + ("uq_weighted" if cfg.get("operation") == "uq" else cfg.get("surplus_grid", "default")))
        cfg["reeval"] = ctx.rng.random() < 0.35
        if k == n_deep:
            cfg["reeval"] = True
            ctx.count("family_reevaluate_at_end_extend_split")
        elif k == n_deep + 1:
            for key in ("operation", "ref_route", "uq_moments"):
                cfg.pop(key, None)
            cfg.update(grid="global_bspline", p=3, surplus_grid="operation")
            ctx.count("family_surplus_grid_is_operation_grid")
        ctx.count("reevaluate_at_end_%s" % cfg["reeval"])
        cap = (480 if deep else ctx.rng.choice([60, 90, 130] if cfg["dim"] == 2 else [120, 200]))
        sa, eo, f = build(cfg)
        try:
            r = perform(sa, eo, cfg, {"tol": -1.0, "min": 1, "max": cap})
        except Exception:  # noqa: BLE001  (C13's business)
            ctx.count("scout_failed")
            continue
        scout = stream_of(r)
        if deep:
            mfin = min(len(scout) - 1, ctx.rng.randrange(5, 10))
            L2 = {"tol": -1.0, "min": 1, "max": scout[mfin][1] - 1}
        else:
            L2 = gen_final_limits(ctx.rng, scout, max_index, cfg["strategy"])
        ctx.count("strategy_" + cfg["strategy"]); ctx.count("ref_" + cfg["ref"]); ctx.count("L2_" + ("max" if L2["tol"] < 0 else ("tol+min" if L2["tol"] >= 1e9 else ("tol" if L2["min"] <= 1 else "tol<min"))))
        ctx.count("cache_%s" % cfg.get("cache", True))
        check_config(ctx, drv, cfg, L2, 10 if deep else max_index)
        if len(ctx.violations) >= ctx.max_reports:      # (m) only failing inputs end the search early
            break


def replay(ctx, rp):
    case = rp["case"]
    drv = ctx.driver("drv_c13")
    _classes()
    ok = check_config(ctx, drv, case["cfg"], case["L2"], 10 ** 6, sibling=case.get("sibling"))
    print("replay: %s" % ("property holds and model agrees on this configuration (all interruption indices)" if ok and not ctx.known_hits else
                          ("only known findings reproduced" if ok or (not ctx.violations and not ctx.corr_breaks) else "REPRODUCED")))
    if "index" in case:
        print("  (recorded failing interruption index: %s, save=%s, L1=%s)" % (case.get("index"), case.get("save"), case.get("L1")))
    for v in ctx.violations[:4]:
        print("  violation:", v["probe"], v["tags"], str(v["detail"])[:700])
    for fid, (f, n) in ctx.known_hits.items():
        print("  known finding %s: %d case(s)" % (fid, n))
    for c in ctx.corr_breaks[:3]:
        print("  disagreement:", c["observable"], c["detail"])
    for d in ctx._drivers:
        d.close()
    return 0 if not ctx.violations and not ctx.corr_breaks else 1
