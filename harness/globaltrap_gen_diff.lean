import GenScratch.GlobalTrapGen
import SparseSpace.Model.GlobalQuad
/-!
Directed search used by `harness/globaltrap_gen.py` when the translator tie of the global trapezoidal weights is broken:
evaluates the FRESHLY generated `compute_weights` (`GenScratch.GlobalTrapGen`, namespace `SparseSpace.GenGT`) and the hand
model `GlobalQuad.computeWeights` on grids of 1-9 points (uniform, graded towards the left / right end) on two intervals,
plain and modified basis, and prints the grids on which the hand model returns weights that differ from the generated ones:

    DIS md <0|1> a <a> b <b> pts <x0> <x1> ...

Interpreted with `lean --run`; not part of the library.
-/
open SparseSpace SparseSpace.GlobalQuad

def showQ (q : Rat) : String := if q.den == 1 then toString q.num else s!"{q.num}/{q.den}"

/-- `n` points on `[a, b]`: uniform (`kind = 0`), halving towards `a` (1), halving towards `b` (2) -/
def grid (kind n : Nat) (a b : Rat) : List Rat :=
  if n ≤ 1 then [a] else
  match kind with
  | 0 => (List.range n).map fun k => a + (b - a) * ((k : Nat) : Rat) / (((n - 1 : Nat)) : Rat)
  | 1 => a :: ((List.range (n - 1)).map fun k => a + (b - a) / ((2 : Rat) ^ (n - 2 - k)))
  | _ => ((List.range (n - 1)).map fun k => b - (b - a) / ((2 : Rat) ^ k)) ++ [b]

def main : IO Unit := do
  let mut found := 0
  for n in [1, 3, 4, 5, 6, 7, 8, 9, 2] do
    for kind in [0, 1, 2] do
      for (a, b) in [((0 : Rat), (1 : Rat)), ((-1 : Rat), (3 : Rat))] do
        for md in [true, false] do
          let g := grid kind n a b
          match computeWeights g a b md with
          | .ok ws =>
            if found < 12 && GenGT.compute_weights g a b md != ws then
              IO.println s!"DIS md {if md then 1 else 0} a {showQ a} b {showQ b} pts {" ".intercalate (g.map showQ)}"
              found := found + 1
            let self : GenGT.State := { modified_basis := md, boundary := !md }
            if found < 12 && GenGT.compute_1D_quad_weights self g a b 0 none != ws then
              IO.println s!"DIS md {if md then 1 else 0} a {showQ a} b {showQ b} pts {" ".intercalate (g.map showQ)}"
              found := found + 1
          | .error _ => pure ()
  IO.println s!"DONE {found}"
