"""C12 -- function evaluation is cache-transparent and matches its analytic integral.

Correspondence: random interleavings (<= 60 ops) of single / batch / repeated evaluations, resets, deactivation and
size queries on an instance of EVERY built-in Function subclass vs. Model/FuncCache through drv_c12: returned values,
shapes, error kinds, hit/miss (calls of `eval` / `eval_vectorized` counted by wrapping the instance), dictionary
size and key set after every operation; the polynomial classes' `eval` and `getAnalyticSolutionIntegral` vs.
Model/AnalyticInt (exact rationals).
Oracle (independent of the model): every returned value equals the scalar `eval` of an independent fresh instance,
shape = (#points, output_length()), the empty batch returns shape (0, output_length()), the counter equals the
number of distinct points evaluated since the last reset, vectorised overrides agree with the scalar path at 1e-12,
and every analytic integral equals scipy's nquad of the point evaluation at 1e-7 on random boxes (non-unit volume,
origin outside)."""
import contextlib
import io
import math
from fractions import Fraction

import numpy as np

from common import frac_str

# --------------------------------------------------------------------------------------------- class catalogue
# name -> dims, domain of the coordinates (lo, hi), model kind, whether eval_vectorized is overridden
CLASSES = {
    "ConstantValue":             dict(dims=[1, 2, 3, 4], dom=(-2, 2), model="const", ov=False),
    "FunctionLinear":            dict(dims=[1, 2, 3, 4], dom=(-2, 2), model="linear", ov=True),
    "FunctionPolynomial":        dict(dims=[1, 2, 3], dom=(-2, 2), model="poly", ov=False),
    "FunctionMultilinear":       dict(dims=[1, 2, 3, 4], dom=(-2, 2), model="multilin", ov=False),
    "Polynomial1d":              dict(dims=[1], dom=(-2, 2), model="poly1d", ov=False),
    "GenzCornerPeak":            dict(dims=[1, 2, 3, 4], dom=(0, 2), model="table", ov=True),
    "GenzProductPeak":           dict(dims=[1, 2, 3, 4], dom=(-2, 2), model="table", ov=True),
    "GenzOszillatory":           dict(dims=[1, 2, 3, 4], dom=(-2, 2), model="table", ov=True),
    "GenzDiscontinious":         dict(dims=[1, 2, 3], dom=(-1, 2), model="table", ov=True),
    "GenzC0":                    dict(dims=[1, 2, 3], dom=(-2, 2), model="table", ov=True),
    "GenzGaussian":              dict(dims=[1, 2, 3], dom=(-2, 2), model="table", ov=True),
    "FunctionExpVar":            dict(dims=[1, 2, 3, 4], dom=(0, 2), model="table", ov=True),
    "FunctionGeneralizedNormal": dict(dims=[1, 2, 3], dom=(-2, 2), model="table", ov=False),
    "FunctionG":                 dict(dims=[1, 2, 3], dom=(0, 1), model="table", ov=False),
    "FunctionGShifted":          dict(dims=[1, 2, 3], dom=(0, 1), model="table", ov=False),
    "FunctionUQ":                dict(dims=[3], dom=(-2, 2), model="table", ov=False),
    "FunctionUQShifted":         dict(dims=[3], dom=(-2, 2), model="table", ov=False),
    "FunctionUQ2":               dict(dims=[2], dom=(-2, 2), model="table", ov=False),
    "FunctionDiagonalDiscont":   dict(dims=[1, 2, 3], dom=(0, 1), model="table", ov=False),
    "FunctionShift":             dict(dims=[1, 2, 3], dom=(0, 2), model="table", ov=False),
    "FunctionCompose":           dict(dims=[1, 2, 3], dom=(-2, 2), model="table", ov=False),
    "FunctionPower":             dict(dims=[1, 2], dom=(-2, 2), model="table", ov=False),
    "FunctionPolysPCE":          dict(dims=[1, 2], dom=(-2, 2), model="table", ov=False),
    "FunctionInverseTransform":  dict(dims=[1, 2], dom=(0, 1), model="table", ov=False),
    "FunctionCustom":            dict(dims=[1, 2, 3], dom=(-2, 2), model="table", ov=False),
    "FunctionConcatenate":       dict(dims=[1, 2], dom=(-2, 2), model="table", ov=False),
    "CustomFunction":            dict(dims=[1, 2, 3], dom=(-2, 2), model="table", ov=False),
    "FunctionUQNormal":          dict(dims=[2], dom=(-2, 2), model="table", ov=False),
    "FunctionUQNormal2":         dict(dims=[2], dom=(-2, 2), model="table", ov=False),
    "FunctionUQWeighted":        dict(dims=[1, 2], dom=(-2, 2), model="table", ov=False),
    "LambdaFunction":            dict(dims=[1, 2], dom=(-2, 2), model="table", ov=False),
    # built-in classes whose eval returns more components than output_length() declares (see handoff/C12.md)
    "FunctionCantileverBeamD":   dict(dims=[3], dom=(1, 3), model="table", ov=False),
    "GenzDiscontinious2":        dict(dims=[1, 2], dom=(-1, 2), model="table", ov=False),
    # user error: CustomFunction whose declared output_length is not what the function returns (malformed stream)
    "CustomFunctionWrongLength": dict(dims=[1, 2], dom=(-2, 2), model="table", ov=False),
}


def dy(r, lo, hi, den=8):
    """dyadic rational in [lo, hi] with denominator den"""
    return r.randint(int(lo * den), int(hi * den)) / den


def gen_params(name, r, dim):
    """JSON-able parameters of one instance (dyadic floats, so that they are exact in the model)"""
    pos = lambda: r.randint(1, 12) / 4          # noqa: E731
    anyc = lambda: r.choice([-1, 1]) * r.randint(1, 12) / 4   # noqa: E731
    if name == "ConstantValue":
        return {"v": dy(r, -3, 3)}
    if name in ("FunctionLinear", "FunctionMultilinear"):
        return {"c": [dy(r, -3, 3, 4) for _ in range(dim)]}
    if name == "FunctionPolynomial":
        return {"c": [dy(r, -2, 2, 4) for _ in range(dim)], "k": r.choice([0, 1, 2, 2, 3, 4])}
    if name == "Polynomial1d":
        return {"cs": [dy(r, -3, 3, 4) for _ in range(r.randint(0, 5))]}
    if name == "GenzCornerPeak":
        return {"c": [pos() for _ in range(dim)]}
    if name in ("GenzProductPeak", "GenzC0"):
        return {"c": [pos() for _ in range(dim)], "m": [dy(r, -1, 2) for _ in range(dim)]}
    if name == "GenzOszillatory":
        c = [r.choice([0.0, anyc(), anyc()]) for _ in range(dim)]
        return {"c": c, "o": dy(r, -1, 1)}
    if name in ("GenzDiscontinious", "GenzDiscontinious2"):
        return {"c": [anyc() for _ in range(dim)], "b": [dy(r, -1, 2) for _ in range(dim)]}
    if name in ("GenzGaussian", "FunctionGeneralizedNormal"):
        return {"m": [dy(r, -1, 2) for _ in range(dim)], "c": [pos() for _ in range(dim)], "exp": r.choice([1, 1, 3])}
    if name == "FunctionCantileverBeamD":
        return {"w": r.choice([20.0, 16.0, 24.5]), "t": r.choice([2.0, 1.5, 4.0])}
    if name in ("FunctionG", "FunctionGShifted"):
        return {"dim": dim}
    if name == "FunctionShift":
        return {"c": [pos() for _ in range(dim)], "d": [dy(r, 0, 1) for _ in range(dim)]}
    if name == "FunctionCompose":
        return {"c1": [dy(r, -2, 2, 4) for _ in range(dim)], "c2": [pos() for _ in range(dim)],
                "m": [dy(r, -1, 1) for _ in range(dim)], "f": [dy(r, -2, 2, 2), dy(r, -2, 2, 2)]}
    if name in ("FunctionPower", "FunctionPolysPCE", "FunctionConcatenate"):
        return {"c": [dy(r, -2, 2, 4) for _ in range(dim)], "k": r.choice([1, 2, 3]), "e": r.choice([1, 2, 3])}
    if name == "FunctionInverseTransform":
        return {"c": [pos() for _ in range(dim)], "loc": [dy(r, -1, 1) for _ in range(dim)],
                "scale": [pos() for _ in range(dim)]}
    if name == "FunctionCustom":
        return {"n": r.choice([0, 1, 2, 3]), "c": [dy(r, -2, 2, 4) for _ in range(dim)]}
    if name == "CustomFunction":
        return {"k": r.choice([1, 1, 2, 3]), "c": [dy(r, -2, 2, 4) for _ in range(dim)]}
    if name == "CustomFunctionWrongLength":
        ret = r.choice([0, 1, 2, 3])          # 0: a bare scalar
        decl = r.choice([x for x in (1, 2, 3) if x != max(ret, 1)] + ([1] if ret == 0 else []))
        return {"ret": ret, "decl": decl, "c": [dy(r, -2, 2, 4) for _ in range(dim)]}
    if name in ("FunctionUQNormal", "FunctionUQNormal2"):
        return {"c": [pos() for _ in range(dim)], "mean": [dy(r, -1, 1) for _ in range(dim)],
                "std": [pos() for _ in range(dim)]}
    if name == "FunctionUQWeighted":
        return {"c": [dy(r, -2, 2, 4) for _ in range(dim)], "w": [pos() for _ in range(dim)]}
    if name == "LambdaFunction":
        return {"c": [dy(r, -2, 2, 4) for _ in range(dim)]}
    return {}


def build(name, p):
    """a fresh instance of the class under test (all inner functions fresh as well)"""
    import scipy.stats
    import sparseSpACE.Function as F
    if name == "ConstantValue":
        return F.ConstantValue(p["v"])
    if name == "FunctionLinear":
        return F.FunctionLinear(p["c"])
    if name == "FunctionMultilinear":
        return F.FunctionMultilinear(p["c"])
    if name == "FunctionPolynomial":
        return F.FunctionPolynomial(p["c"], degree=p["k"])
    if name == "Polynomial1d":
        return F.Polynomial1d(list(p["cs"]))
    if name == "GenzCornerPeak":
        return F.GenzCornerPeak(p["c"])
    if name == "GenzProductPeak":
        return F.GenzProductPeak(p["c"], p["m"])
    if name == "GenzOszillatory":
        return F.GenzOszillatory(p["c"], p["o"])
    if name == "GenzDiscontinious":
        return F.GenzDiscontinious(p["c"], p["b"])
    if name == "GenzDiscontinious2":
        return F.GenzDiscontinious2(p["c"], p["b"])
    if name == "GenzC0":
        return F.GenzC0(p["c"], p["m"])
    if name == "GenzGaussian":
        return F.GenzGaussian(p["m"], p["c"])
    if name == "FunctionExpVar":
        return F.FunctionExpVar()
    if name == "FunctionGeneralizedNormal":
        return F.FunctionGeneralizedNormal(p["m"], p["c"], p.get("exp", 1))
    if name == "FunctionG":
        return F.FunctionG(p["dim"])
    if name == "FunctionGShifted":
        return F.FunctionGShifted(p["dim"])
    if name == "FunctionCantileverBeamD":
        return F.FunctionCantileverBeamD(width=p["w"], thickness=p["t"]) if "w" in p else F.FunctionCantileverBeamD()
    if name in ("FunctionUQ", "FunctionUQShifted", "FunctionUQ2", "FunctionDiagonalDiscont"):
        return getattr(F, name)()
    if name == "FunctionShift":
        d = list(p["d"])
        return F.FunctionShift(F.GenzCornerPeak(p["c"]), lambda x: [x[i] + d[i] for i in range(len(d))])
    if name == "FunctionCompose":
        return F.FunctionCompose([(F.FunctionLinear(p["c1"]), p["f"][0]), (F.GenzProductPeak(p["c2"], p["m"]), p["f"][1])])
    vec = lambda c, k: F.CustomFunction(lambda x: [sum(c[i] * x[i] for i in range(len(c))) + j for j in range(k)], output_length=k)  # noqa: E731
    if name == "FunctionPower":
        return F.FunctionPower(vec(p["c"], p["k"]), p["e"])
    if name == "FunctionPolysPCE":
        polys = [lambda *x: 1.0, lambda *x: x[0], lambda *x: x[0] * x[-1] - 0.5]
        return F.FunctionPolysPCE(vec(p["c"], p["k"]), polys, [1.0, 2.0, 0.5])
    if name == "FunctionConcatenate":
        return F.FunctionConcatenate([F.FunctionLinear(p["c"]), vec(p["c"], p["k"]), F.FunctionMultilinear(p["c"])])
    if name == "FunctionInverseTransform":
        dists = [scipy.stats.uniform(loc=p["loc"][i], scale=p["scale"][i]) for i in range(len(p["loc"]))]
        return F.FunctionInverseTransform(F.GenzCornerPeak(p["c"]), dists)
    if name == "FunctionCustom":
        c = p["c"]
        if p["n"] == 0:
            return F.FunctionCustom(lambda x: sum(c[i] * x[i] ** 2 for i in range(len(c))))
        return F.FunctionCustom([(lambda x, j=j: sum(c[i] * x[i] for i in range(len(c))) * (j + 1)) for j in range(p["n"])])
    if name == "CustomFunction":
        if p["k"] == 1:
            return F.CustomFunction(lambda x: sum(p["c"][i] * x[i] for i in range(len(p["c"]))))
        return vec(p["c"], p["k"])
    if name == "CustomFunctionWrongLength":
        c = p["c"]
        if p["ret"] == 0:
            return F.CustomFunction(lambda x: sum(c[i] * x[i] for i in range(len(c))), output_length=p["decl"])
        return F.CustomFunction(lambda x: [sum(c[i] * x[i] for i in range(len(c))) + j for j in range(p["ret"])],
                                output_length=p["decl"])
    if name == "FunctionUQNormal":
        return F.FunctionUQNormal(F.GenzProductPeak(p["c"], [0.0] * len(p["c"])), p["mean"], p["std"], [-1.0] * len(p["c"]), [1.0] * len(p["c"]))
    if name == "FunctionUQNormal2":
        return F.FunctionUQNormal2(F.GenzProductPeak(p["c"], [0.0] * len(p["c"])), p["mean"], p["std"], [-1.0] * len(p["c"]), [1.0] * len(p["c"]))
    if name == "FunctionUQWeighted":
        return F.FunctionUQWeighted(F.FunctionMultilinear(p["c"]), F.GenzProductPeak(p["w"], [0.0] * len(p["w"])))
    if name == "LambdaFunction":
        c = p["c"]
        return F.LambdaFunction(lambda x: sum(c[i] * x[i] for i in range(len(c))), lambda x: 0.0)
    raise KeyError(name)


def independent_value(name, p, x):
    """the mathematical definition of the classes that have no Lean model, written independently of Function.py (catalogue d:
    every constructor option must reach eval); None = no independent definition here"""
    n = len(x)
    if name == "FunctionCantileverBeamD":
        w, t = p.get("w", 20.0), p.get("t", 2.0)
        E, Y, X = x
        return [4.0 * 100.0 ** 3 / (E * w * t) * math.sqrt((Y / t ** 2) ** 2 + (X / w ** 2) ** 2), 1.0]
    if name in ("FunctionG", "FunctionGShifted"):
        y = list(x)
        if name == "FunctionGShifted":
            y = [v + 0.2 for v in y]
            y = [v if v <= 1.0 else v - 1.0 for v in y]
        out = 1.0
        for d in range(n):
            out *= (abs(4.0 * y[d] - 2.0) + 0.5 * d) / (1.0 + 0.5 * d)
        return [out]
    if name in ("FunctionUQ", "FunctionUQShifted"):
        y1 = x[1] + (0.221413 if name == "FunctionUQShifted" else 0.0)
        sg = (y1 > 0) - (y1 < 0)
        return [math.exp(-x[0] ** 2 + 2 * sg) + x[2]]
    if name == "FunctionUQ2":
        sg = (x[1] > 0) - (x[1] < 0)
        return [math.exp(-x[0] ** 2 + 2 * sg)]
    if name == "FunctionDiagonalDiscont":
        return [1.0 if sum(x) < 1 else 0.0]
    if name in ("GenzGaussian", "FunctionGeneralizedNormal"):
        sm = -sum(p["c"][d] * (x[d] - p["m"][d]) ** 2 for d in range(n))
        try:
            return [math.exp(sm if name == "GenzGaussian" else sm ** p.get("exp", 1))]
        except OverflowError:
            return None
    if name == "FunctionShift":
        u = 1.0 + sum(p["c"][d] * (x[d] + p["d"][d]) for d in range(n))
        return [u ** (-n - 1)]
    if name == "FunctionCompose":
        lin = 1.0
        for d in range(n):
            lin *= p["c1"][d] * x[d]
        pp = 10.0 ** (-n)
        for d in range(n):
            pp /= p["c2"][d] ** (-2) + (x[d] - p["m"][d]) ** 2
        return [lin * p["f"][0] + pp * p["f"][1]]
    return None


def model_fn_line(name, p, outlen):
    m = CLASSES[name]["model"]
    vs = lambda v: ",".join(frac_str(x) for x in v) if len(v) else "-"   # noqa: E731
    if m == "const":
        return "fn const " + frac_str(p["v"])
    if m == "linear":
        return "fn linear " + vs(p["c"])
    if m == "multilin":
        return "fn multilin " + vs(p["c"])
    if m == "poly":
        return "fn poly %d %s" % (p["k"], vs(p["c"]))
    if m == "poly1d":
        return "fn poly1d " + vs(p["cs"])
    return "fn table %d %s" % (outlen, "override" if CLASSES[name]["ov"] else "generic")


# --------------------------------------------------------------------------------------------- helpers
def pt_str(p):
    return ",".join(frac_str(x) for x in p) if len(p) else "-"


def parse_vec(s):
    s = s.strip()
    assert s[0] == "[" and s[-1] == "]", s
    s = s[1:-1]
    return [Fraction(x) for x in s.split(",")] if s else []


def parse_vecs(s):
    s = s.strip()
    assert s[0] == "[" and s[-1] == "]", s
    s = s[1:-1]
    if not s:
        return []
    out, depth, cur = [], 0, ""
    for ch in s:
        if ch == "[":
            depth += 1
        if ch == "]":
            depth -= 1
        if ch == "," and depth == 0:
            out.append(parse_vec(cur)); cur = ""
        else:
            cur += ch
    out.append(parse_vec(cur))
    return out


def rel_close(a, b, tol, scale=0.0):
    a = float(a); b = float(b)
    if math.isnan(a) or math.isnan(b):
        return False
    return abs(a - b) <= tol * max(abs(a), abs(b), scale)


def pure_value(g, p):
    """the value the PROPERTY speaks of: the scalar `eval` of an independent instance, as a flat float vector"""
    v = g.eval(tuple(p))
    if np.isscalar(v):
        v = [v]
    return [float(x) for x in np.asarray(v, dtype=float).ravel()]


def classify(e):
    if isinstance(e, IndexError):
        return "err index"
    if isinstance(e, AssertionError):
        return "err assert"
    if isinstance(e, ValueError):
        return "err shape"
    return "err other:" + type(e).__name__


class Counted:
    """wrap `eval` and `eval_vectorized` of one instance to observe cache hits on the implementation"""

    def __init__(self, f):
        self.n_eval = 0
        self.n_vec = 0
        oe, ov = f.eval, f.eval_vectorized

        def ev(c):
            self.n_eval += 1
            return oe(c)

        def evv(c):
            self.n_vec += 1
            return ov(c)
        f.eval = ev
        f.eval_vectorized = evv


def call_quiet(f, arg):
    with contextlib.redirect_stdout(io.StringIO()):
        return f(arg)


# --------------------------------------------------------------------------------------------- histories
# classes whose domain is all of R^d (or the whole non-negative orthant): points far from the origin are legitimate
# (not GenzOszillatory: cos of an argument of size 1e4 is conditioned worse than the 1e-12 agreement asked of the two paths)
FAR_OK = ("ConstantValue", "FunctionLinear", "FunctionPolynomial", "FunctionMultilinear", "Polynomial1d", "GenzCornerPeak",
          "GenzProductPeak", "GenzC0", "GenzGaussian", "FunctionExpVar", "FunctionCompose", "FunctionPower",
          "FunctionPolysPCE", "FunctionCustom", "FunctionConcatenate", "CustomFunction", "FunctionUQWeighted", "LambdaFunction")


def gen_history(r, name, thorough):
    spec = CLASSES[name]
    dim = r.choice(spec["dims"])
    lo, hi = spec["dom"]
    params = gen_params(name, r, dim)
    npts = r.randint(1, 7)
    pool = []
    for _ in range(npts):
        pool.append([dy(r, lo, hi, r.choice([2, 4, 8, 16])) for _ in range(dim)])
    if name in ("GenzDiscontinious", "GenzDiscontinious2") and r.random() < 0.5:
        pool.append(list(params["b"]))                      # exactly on the border
        q = list(params["b"]); q[0] = max(lo, q[0] - 0.125); pool.append(q)
    # scale extremes (catalogue e): points that differ by 2^-40 in one coordinate are DIFFERENT points (cache keys must not
    # be rounded), and points far from the origin (|x| up to 2^13) for the classes whose domain is unbounded
    if r.random() < 0.35:
        q = list(r.choice(pool)); d = r.randrange(dim); q[d] = q[d] + 2.0 ** -40
        if q[d] <= hi or name in FAR_OK:
            pool.append(q)
    if name in FAR_OK and r.random() < 0.3:
        k = r.choice([6, 10, 13])
        q = [abs(x) * 2.0 ** k + (2.0 ** k if lo >= 0 else 0.0) for x in r.choice(pool)] if lo >= 0 else \
            [x * 2.0 ** k for x in r.choice(pool)]
        pool.append(q)
        q2 = list(q); q2[r.randrange(dim)] += 2.0 ** (k - 40); pool.append(q2)
    nops = r.randint(1, 60)
    ops = []
    if CLASSES[name]["ov"] and name != "FunctionLinear" and r.random() < 0.08:
        ops.append(["debug"])                               # public attribute `debug`: check_vectorization is active
    deact_at = r.randrange(nops) if r.random() < 0.5 else None     # half of the histories never deactivate caching
    for i in range(nops):
        if i == deact_at:
            ops.append(["deact"])
            continue
        x = r.random()
        if x < 0.40:
            ops.append(["single", r.choice(pool), r.choice(["tuple", "tuple", "list", "array", "rarray"])])
            if ops[-1][2] == "rarray" and r.random() < 0.6:
                ops.append(["single", r.choice(pool), "rarray"])    # the caller overwrote its buffer and calls again
        elif x < 0.68:
            k = r.choice([1, 1, 2, 3, 4, 5])
            if r.random() < 0.02:
                k = r.choice([64, 100, 129, 200])           # a large batch (catalogue f)
            ops.append(["batch", [r.choice(pool) for _ in range(k)], r.choice(["tuples", "tuples", "lists", "array", "rarray"])])
            if ops[-1][2] == "rarray" and r.random() < 0.6:
                ops.append(["batch", [r.choice(pool) for _ in range(k)], "rarray"])
        elif x < 0.70:
            ops.append(["refeed"])                          # the object's own key list fed back as a batch (catalogue i)
        elif x < 0.77:
            ops.append(["size"])
        elif x < 0.80:
            ops.append(["values"])                          # get_f_dict_values() / use site Integration.get_distinct_points
        elif x < 0.88:
            ops.append(["reset"])
        elif x < 0.93:
            ops.append(["batch", [r.choice(pool)], "tuples"])
        elif x < 0.96:
            ops.append(["batch", [], r.choice(["tuples", "array"])])
        elif x < 0.97:
            ops.append(["single", [], "tuple"])
        else:
            ops.append(["single", r.choice(pool), "tuple"])
    return {"kind": "history", "cls": name, "dim": dim, "params": params, "ops": ops}


def run_history(ctx, drv, case):
    """returns True iff model and implementation agree and no property clause fails"""
    name, params, dim, ops = case["cls"], case["params"], case["dim"], case["ops"]
    f = build(name, params)
    g = build(name, params)             # independent reference: scalar eval, no cache involved
    outlen = int(f.output_length())
    cnt = Counted(f)
    generic = not CLASSES[name]["ov"]
    table = CLASSES[name]["model"] == "table"
    ok = True
    done = []
    defined = set()
    evaluated = set()                    # distinct points evaluated since the last reset (harness' own bookkeeping)
    cache_on = True
    single_off_since_reset = False
    counter_reported = False
    vmax = [0.0]                          # largest |pure value| seen so far: absolute floor 1e-14 * vmax for comparisons
    bufs = {}                             # numpy buffers the caller REUSES and overwrites between calls (catalogue c)
    debug_on = False
    integ = [None]

    def make_arg(data, how, shape):
        if how in ("array", "rarray"):
            if how == "rarray":
                buf = bufs.setdefault(shape, np.zeros(shape))
                buf[...] = np.array(data, dtype=float).reshape(shape)
                return buf
            return np.array(data, dtype=float).reshape(shape)
        return None

    def arg_unchanged(arg, before, opname):
        """the implementation must not modify the caller's coordinates"""
        try:
            same = np.array_equal(np.asarray(arg, dtype=float), before)
        except Exception:
            same = False
        if not same:
            viol("argument-modified", {"op": opname}, {"before": before.tolist(), "after": str(arg)[:200]})

    def near(x, y):
        return rel_close(x, y, 1e-12, 1e-2 * vmax[0])

    indep_seen = set()

    def pure(q):
        v = pure_value(g, q)
        vmax[0] = max([vmax[0]] + [abs(x) for x in v if math.isfinite(x)])
        if tuple(q) not in indep_seen and len(q) > 0:
            indep_seen.add(tuple(q))
            iv = independent_value(name, params, [float(t) for t in q])
            if iv is not None and all(math.isfinite(t) for t in iv + v) and (
                    len(iv) != len(v) or not all(rel_close(a_, b_, 1e-12, 1e-300) for a_, b_ in zip(v, iv))):
                viol("eval-vs-definition", {}, {"point": list(q), "eval": v, "definition": iv})
        return v
    # is the class consistent with its own declaration?  (eval returns output_length() components)
    declared_ok = name != "CustomFunctionWrongLength"
    probe_pt = next((o[1] for o in ops if o[0] == "single" and len(o[1]) > 0), None) or \
        next((o[1][0] for o in ops if o[0] == "batch" and len(o[1]) > 0), None)
    if declared_ok and probe_pt is not None:
        try:
            declared_ok = len(pure_value(g, [float(x) for x in probe_pt])) == outlen
        except Exception:
            pass
    builtin_inconsistent = (not declared_ok) and name != "CustomFunctionWrongLength"

    def snap():
        return dict(case, ops=list(done))

    def corr(obs, impl, model):
        nonlocal ok
        ok = False
        ctx.corr_break("C12/" + obs, snap(), {"impl": str(impl)[:300], "model": str(model)[:300]})

    def viol(probe, tags, detail):
        nonlocal ok
        if report(ctx, probe, dict(tags, cls=name), snap(), detail):   # False: a listed known finding
            ok = False

    r0 = drv.ask(model_fn_line(name, params, outlen))
    if r0 != "ok":
        corr("fn", "ok", r0)
        return False

    def define(p):
        """table functions: tell the model the pure value of `eval` at p (exact rational of the float)"""
        if not table or tuple(p) in defined or len(p) == 0:
            return True
        try:
            v = pure(p)
        except Exception as e:           # the class cannot be evaluated at all at this point
            ctx.count("eval_raises_" + type(e).__name__)
            return False
        if not all(math.isfinite(x) for x in v):
            return False
        defined.add(tuple(p))
        a = drv.ask("def %s %s" % (pt_str(p), pt_str(v)))
        return a == "ok"

    for op in ops:
        done.append(op)
        kind = op[0]
        ctx.count("op_" + kind + ("_empty" if kind in ("single", "batch") and len(op[1]) == 0 else ""))
        e0, v0 = cnt.n_eval, cnt.n_vec
        if kind == "single":
            p = [float(x) for x in op[1]]
            if not define(p):
                done.pop(); continue
            arg = tuple(p) if op[2] == "tuple" else (list(p) if op[2] == "list" else make_arg(p, op[2], (len(p),)))
            before = np.array(p, dtype=float)
            try:
                res = call_quiet(f, arg)
                impl = "val"
            except Exception as e:
                res, impl = None, classify(e)
            if len(p) > 0:
                arg_unchanged(arg, before, "single")
            mo = drv.ask("single " + pt_str(p))
            de = cnt.n_eval - e0
            if impl == "val" and len(p) == 0:
                # the empty tuple is not a point of any domain: no promise, only model vs implementation
                got = "vals " + str([list(map(float, row)) for row in np.asarray(res)]).replace(" ", "")
                if mo != got:
                    corr("single-empty-tuple", got, mo)
            elif impl == "val":
                shape_ok = isinstance(res, np.ndarray) and res.shape == (outlen,)
                if not shape_ok and declared_ok:
                    viol("shape", {"op": "single"}, {"shape": str(getattr(res, "shape", None)), "expected": [outlen]})
                if not mo.startswith("val "):
                    corr("single", "val " + str(res), mo)
                else:
                    body, flag = mo[4:].rsplit(" ", 1)
                    mv = parse_vec(body)
                    if len(mv) != len(np.ravel(res)) or not all(near(x, y) for x, y in zip(np.ravel(res), mv)):
                        corr("single-value", list(np.ravel(res)), mo)
                    if (flag == "miss") != (de == 1) or de > 1 or cnt.n_vec != v0:
                        corr("single-hit-miss", "eval calls %d vec calls %d" % (de, cnt.n_vec - v0), mo)
                    ctx.count("single_" + flag)
                # oracle: the pure value
                pv = pure(p)
                if declared_ok and (len(pv) != len(np.ravel(res)) or not all(near(x, y) for x, y in zip(np.ravel(res), pv))):
                    viol("value", {"op": "single"}, {"point": p, "returned": [float(x) for x in np.ravel(res)], "pure": pv})
                evaluated.add(tuple(p))
                if not cache_on:
                    single_off_since_reset = True
            else:
                if mo != impl:
                    corr("single-error", impl, mo)
                ctx.count("single_" + impl.replace(" ", "_"))
                if len(p) > 0:
                    # a point of dimension >= 1 of the function's domain: the property promises a value
                    if builtin_inconsistent:
                        viol("declared-length", {"op": "single"}, {"point": p, "raised": impl, "declared": outlen})
                    elif name != "CustomFunctionWrongLength":
                        viol("raises", {"op": "single", "error": impl}, {"point": p})
                    if impl == "err assert" and cache_on:
                        evaluated.add(tuple(p))      # evaluated (and stored) before the assertion fired
        elif kind in ("batch", "refeed"):
            own = None
            if kind == "refeed":
                try:
                    own = f.get_f_dict_points()
                    own_list = [[float(x) for x in k] for k in own]
                except Exception as e:
                    viol("raises", {"op": "get_f_dict_points", "error": type(e).__name__}, {"error": str(e)[:200]})
                    break
                if not own_list:
                    done.pop(); continue
                op = ["batch", own_list, "own-keys"]
            ps = [[float(x) for x in q] for q in op[1]]
            if not all(define(q) for q in ps):
                done.pop(); continue
            if op[2] == "own-keys":
                arg = own                                    # exactly what the object handed out
            elif op[2] == "tuples":
                arg = [tuple(q) for q in ps]
            elif op[2] == "lists":
                arg = [list(q) for q in ps]
            else:
                arg = make_arg(ps, op[2], (len(ps), dim))
            before = np.array(ps, dtype=float).reshape((len(ps), dim))
            try:
                res = call_quiet(f, arg)
                impl = "vals"
            except Exception as e:
                res, impl = None, classify(e)
            if ps:
                arg_unchanged(arg, before, "batch")
            mo = drv.ask("batch " + (";".join(pt_str(q) for q in ps) if ps else "[]"))
            if impl == "vals":
                if not (isinstance(res, np.ndarray) and res.shape == (len(ps), outlen)):
                    viol("shape", {"op": "batch"}, {"shape": str(getattr(res, "shape", None)), "expected": [len(ps), outlen]})
                if not mo.startswith("vals "):
                    corr("batch", "vals", mo)
                else:
                    mv = parse_vecs(mo[5:])
                    rows = [list(np.ravel(row)) for row in res]
                    same = len(mv) == len(rows) and all(
                        len(a) == len(b) and all(near(x, y) for x, y in zip(a, b)) for a, b in zip(rows, mv))
                    if not same:
                        corr("batch-values", rows, mo)
                    want_vec = 1 if ps else 0        # an accepted empty batch returns before anything is evaluated
                    if not debug_on and (cnt.n_vec - v0 != want_vec or (cnt.n_eval - e0) != (len(ps) if generic else 0)):
                        corr("batch-eval-calls", "eval %d vec %d" % (cnt.n_eval - e0, cnt.n_vec - v0),
                             "eval %d vec %d" % (len(ps) if generic else 0, want_vec))
                if ps and declared_ok:
                    pvs = [pure(q) for q in ps]
                    rows = [list(np.ravel(row)) for row in res]
                    if len(rows) != len(pvs) or not all(
                            len(a) == len(b) and all(near(x, y) for x, y in zip(a, b)) for a, b in zip(rows, pvs)):
                        viol("value", {"op": "batch"}, {"points": ps, "returned": str(rows)[:300], "pure": str(pvs)[:300]})
                for q in ps:
                    evaluated.add(tuple(q))
            else:
                if mo != impl:
                    corr("batch-error", impl, mo)
                ctx.count("batch_" + impl.replace(" ", "_"))
                if not ps:
                    # the property: "... including for an empty batch" -> shape (0, output_length())
                    viol("empty-batch", {"error": impl, "arg": op[2]}, {"raised": impl, "expected_shape": [0, outlen]})
                elif builtin_inconsistent:
                    viol("declared-length", {"op": "batch"}, {"points": ps, "raised": impl, "declared": outlen})
                elif name != "CustomFunctionWrongLength":
                    viol("raises", {"op": "batch", "error": impl}, {"points": ps})
        elif kind == "reset":
            f.reset_dictionary()
            if drv.ask("reset") != "ok":
                corr("reset", "ok", "?")
            evaluated = set()
            single_off_since_reset = False
        elif kind == "deact":
            f.deactivate_caching()
            if drv.ask("deact") != "ok":
                corr("deact", "ok", "?")
            cache_on = False
        elif kind == "size":
            n = f.get_f_dict_size()
            mo = drv.ask("size")
            if mo != str(n):
                corr("size", n, mo)
        elif kind == "debug":
            f.debug = True
            debug_on = True
        elif kind == "values" and declared_ok:
            # the other public routes to the dictionary: values in key order, and the counter at its use site
            try:
                ks, vals = f.get_f_dict_points(), f.get_f_dict_values()
                if len(ks) != len(vals) or any(
                        not all(near(x, y) for x, y in zip(np.ravel(np.asarray(v, dtype=float)), pure([float(t) for t in k])))
                        or len(np.ravel(np.asarray(v, dtype=float))) != outlen for k, v in zip(ks, vals)):
                    viol("dict-values", {}, {"keys": str(ks)[:200], "values": str(vals)[:200]})
                if integ[0] is None:
                    from sparseSpACE.GridOperation import Integration
                    integ[0] = Integration(f, None, dim)
                n_use = integ[0].get_distinct_points(None)
                if n_use != len(evaluated) and not counter_reported:
                    counter_reported = True
                    viol("counter", {"cache_on": cache_on, "single_while_off_since_reset": single_off_since_reset,
                                     "route": "Integration.get_distinct_points"},
                         {"get_distinct_points": n_use, "distinct_points_evaluated_since_reset": len(evaluated)})
            except Exception as e:
                viol("raises", {"op": "values", "error": type(e).__name__}, {"error": str(e)[:200]})
        # after EVERY operation: dictionary of the implementation vs the model, and the counter clause
        ik = sorted(tuple(Fraction(float(x)) for x in k) for k in f.get_f_dict_points())
        mk = sorted(tuple(q) for q in parse_vecs(drv.ask("keys")))
        if ik != mk:
            corr("keys", ik[:6], mk[:6])
        n = f.get_f_dict_size()
        if n != len(evaluated) and not counter_reported and declared_ok:
            counter_reported = True
            viol("counter", {"cache_on": cache_on, "single_while_off_since_reset": single_off_since_reset},
                 {"get_f_dict_size": n, "distinct_points_evaluated_since_reset": len(evaluated)})
        if not ok and not ctx_continue(ctx):
            break
    # the spec side of the model (trace) against the harness' own bookkeeping
    tr = drv.ask("trace").split()
    if len(tr) == 4:
        mdist = int(tr[2].split("=")[1])
        mcnt = int(tr[1].split("=")[1])
        # (the trace is the specification side; it is tied to the dictionary only for well-declared functions)
        if declared_ok and mdist != len(evaluated):
            corr("trace-distinct", len(evaluated), tr)
        if declared_ok and mcnt != f.get_f_dict_size():
            corr("trace-counted", f.get_f_dict_size(), tr)
        ctx.count("guard_" + tr[3].split("=")[1])
    else:
        corr("trace", "4 fields", tr)
    return ok


def report(ctx, probe, tags, case, detail):
    """ctx.violation with a cap of 6 unlisted reports per (probe, class), so that every kind of failure gets a replay"""
    caps = getattr(ctx, "_c12_caps", None)
    if caps is None:
        caps = ctx._c12_caps = {}
    key = probe + "/" + str(tags.get("cls"))
    if caps.get(key, 0) >= 6:
        ctx.count("unlisted_reports_suppressed")
        return True
    unlisted = ctx.violation(probe, tags, case, detail)
    if unlisted:
        caps[key] = caps.get(key, 0) + 1
    return unlisted


def crashed(ctx, case):
    """an exception escaped while a case ran: if it was raised INSIDE the implementation (a sparseSpACE frame is the
    innermost library frame) it is a violation with the concrete case, otherwise a harness error"""
    import traceback
    import sys as _sys
    et, ev, tb = _sys.exc_info()
    frames = traceback.extract_tb(tb)
    inside = bool(frames) and ("sparseSpACE" in frames[-1].filename or any("sparseSpACE" in fr.filename for fr in frames[-3:]))
    text = traceback.format_exc()[-1500:]
    if inside:
        report(ctx, "raises", {"cls": case.get("cls", "?"), "op": case.get("kind"), "error": et.__name__}, case, {"traceback": text})
    else:
        ctx.corr_break("C12/harness-exception", case, text)


def ctx_continue(ctx):
    return (len(ctx.violations) + len(ctx.corr_breaks)) < 40


# --------------------------------------------------------------------------------------------- vectorised vs scalar
def run_vec(ctx, case):
    name, params, pts = case["cls"], case["params"], case["pts"]
    f = build(name, params)
    arr = np.array(pts, dtype=float)
    try:
        vec = np.asarray(f.eval_vectorized(arr), dtype=float).reshape((len(pts), f.output_length()))
        sca = [pure_value(f, p) for p in pts]
    except Exception as e:
        report(ctx, "vectorised-raises", {"cls": name, "error": type(e).__name__}, case, {"error": str(e)[:200]})
        return False
    scale = 1e-3 * max([abs(x) for row in sca for x in row] + [0.0])
    bad = [(pts[i], list(vec[i]), sca[i]) for i in range(len(pts))
           if not all(rel_close(x, y, 1e-12, scale) for x, y in zip(vec[i], sca[i]))]
    if bad:
        report(ctx, "vectorised-vs-scalar", {"cls": name}, case, {"first": str(bad[0])[:300], "n_bad": len(bad)})
        return False
    return True


def gen_vec(r, name):
    spec = CLASSES[name]
    dim = r.choice(spec["dims"])
    lo, hi = spec["dom"]
    params = gen_params(name, r, dim)
    pts = [[r.uniform(lo, hi) if r.random() < 0.7 else dy(r, lo, hi) for _ in range(dim)] for _ in range(r.randint(1, 12))]
    if name == "GenzDiscontinious":
        pts.append(list(params["b"]))
        q = list(params["b"]); q[-1] -= 0.25; pts.append(q)
    return {"kind": "vec", "cls": name, "dim": dim, "params": params, "pts": pts}


# --------------------------------------------------------------------------------------------- analytic integrals
# classes that OFFER an analytic integral (closed formula); FunctionGeneralizedNormal is excluded: the source marks
# its solution as incorrect ("Currently the analytic solution is not correct!!!", Function.py:911).  The classes
# whose getAnalyticSolutionIntegral is itself a scipy quadrature of something else than eval (FunctionUQNormal(2)),
# or of eval (FunctionUQ, FunctionUQ2), are not closed formulas; the base-class quadrature is covered via CustomFunction.
INTEGRAL_CLASSES = ["ConstantValue", "FunctionLinear", "FunctionPolynomial", "FunctionMultilinear", "Polynomial1d",
                    "GenzCornerPeak", "GenzProductPeak", "GenzOszillatory", "GenzDiscontinious", "GenzC0",
                    "GenzGaussian", "FunctionExpVar", "FunctionG", "FunctionDiagonalDiscont", "FunctionShift",
                    "FunctionCompose", "GenzDiscontinious2", "BaseClassQuadrature"]


# largest power of two by which a box (and the kink / border / midpoint of the integrand) may be moved away from the origin
FAR_INT = {"ConstantValue": 9, "FunctionLinear": 9, "FunctionPolynomial": 9, "FunctionMultilinear": 9, "Polynomial1d": 9,
           "GenzProductPeak": 9, "GenzC0": 9, "GenzGaussian": 9, "GenzDiscontinious": 5, "GenzDiscontinious2": 5,
           "FunctionExpVar": 9, "GenzCornerPeak": 3}
HIGH_DIM = ("ConstantValue", "FunctionLinear", "FunctionPolynomial", "FunctionMultilinear", "GenzProductPeak", "GenzC0",
            "GenzDiscontinious", "FunctionExpVar", "GenzOszillatory", "GenzCornerPeak")


def gen_integral(r, name, thorough, plain=False):
    cname = "CustomFunction" if name == "BaseClassQuadrature" else name
    spec = CLASSES[cname]
    high = False
    if name == "BaseClassQuadrature":
        dim = r.choice([2, 2, 2, 3])          # dblquad and the tplquad fallback
    elif name in HIGH_DIM and not plain and r.random() < 0.12:
        dim = r.choice([4, 4, 5])             # compared with the proved closed form only (nquad is too slow there)
        high = True
    elif name in ("FunctionG", "FunctionDiagonalDiscont"):
        dim = r.choice([1, 2])
    else:
        dims = [d for d in spec["dims"] if d <= 3] or [spec["dims"][0]]
        dim = r.choice(dims + [d for d in dims if d <= 2] * (2 if thorough else 4))
    params = gen_params(cname, r, dim)
    if name == "BaseClassQuadrature":
        params["k"] = 1
    if name in ("GenzDiscontinious", "GenzDiscontinious2"):
        params["c"] = [min(max(c, -2.0), 2.0) for c in params["c"]]
    if name == "GenzOszillatory" and r.random() < 0.15:
        params["c"] = [0.0] * dim
    lo, hi = spec["dom"]
    if name in ("FunctionG", "FunctionDiagonalDiscont"):
        a, b = [0.0] * dim, [1.0] * dim                    # the classes assert the unit cube
    else:
        a, b = [], []
        mode = r.choice(["unit-cube", "unit-sides", "any", "any", "any", "no-origin"])
        for d in range(dim):
            if mode == "unit-cube" and lo <= 0 and hi >= 1:
                x, y = 0.0, 1.0
            elif mode == "unit-sides":
                x = dy(r, lo, hi - 1, 4); y = x + 1
            else:
                l2 = max(lo, 0.25) if mode == "no-origin" else lo
                x = dy(r, l2, hi - 0.25, 8)
                y = dy(r, x + 0.125, hi, 8)
            a.append(float(x)); b.append(float(y))
        # boxes that start / end at or next to the kink, jump or peak of the integrand (branches of the formulas)
        special = params.get("m") or params.get("b")
        if special and name in ("GenzC0", "GenzDiscontinious", "GenzProductPeak", "GenzGaussian"):
            for d in range(dim):
                if r.random() < 0.6:
                    v = special[d] + r.choice([-0.125, -0.125, 0.0, 0.125])
                    if r.random() < 0.6 and lo <= v < b[d]:
                        a[d] = float(v)
                    elif a[d] < v <= hi:
                        b[d] = float(v)
        if name == "FunctionShift":
            hi_s = hi - 1          # the shifted box must stay in the domain of the inner function (it does: shift >= 0)
            b = [min(b[d], hi_s + 1) for d in range(dim)]
    case = {"kind": "integral", "cls": name, "dim": dim, "params": params, "a": a, "b": b}
    if plain:
        return case
    # scale extremes (catalogue e): the box AND the special point of the integrand moved far from the origin and shrunk
    if name in FAR_INT and r.random() < (0.4 if ("m" in params or "b" in params) else 0.2):
        k = min(r.choice([3, 5, 7, 9]), FAR_INT[name])
        off = float(2 ** k) * (1.0 if lo >= 0 else r.choice([-1.0, 1.0]))
        shrink = 1.0 if name == "GenzCornerPeak" else 2.0 ** -r.choice([0, 3, 10, 13])   # (corner sums cancel: no tiny boxes)
        tr = lambda v: [off + shrink * x for x in v]   # noqa: E731
        case["a"], case["b"] = tr(a), tr(b)
        for key in ("m", "b"):
            if key in params and name not in ("ConstantValue",):
                params[key] = tr(params[key])
        case["cond"] = (abs(off) + 2.0) / (shrink * min(y - x for x, y in zip(a, b)))
    if high:
        case["tie_only"] = True
    # catalogue a / c: the same object answers another box first; the bounds come as list / tuple / ndarray
    case["argtype"] = r.choice(["list", "list", "tuple", "array"])
    if name not in ("FunctionG", "FunctionDiagonalDiscont") and "cond" not in case and r.random() < 0.4:
        pre = gen_integral(r, name, thorough, plain=True)
        if pre["dim"] == dim or name == "BaseClassQuadrature":
            # same parameters, another box of the same dimension
            if pre["dim"] == dim:
                case["pre"] = [pre["a"], pre["b"]]
    return case


def breakpoints(name, p, d):
    if name in ("GenzDiscontinious", "GenzDiscontinious2"):
        return [p["b"][d]]
    if name in ("GenzC0",):
        return [p["m"][d]]
    if name == "FunctionG":
        return [0.5]
    if name == "FunctionCompose":
        return None
    return None


def numeric_integral(f, name, p, a, b, comp=0, unit=1.0):
    from scipy import integrate
    dim = len(a)
    fun = lambda *x: float(np.ravel(f.eval(list(x)))[comp])   # noqa: E731
    opts = []
    for d in range(dim):
        o = {"epsabs": 1e-11 * min(1.0, unit), "epsrel": 1e-11, "limit": 100}
        bp = breakpoints(name, p, d)
        if bp:
            bp = [x for x in bp if a[d] < x < b[d]]
            if bp:
                o["points"] = bp
        if name == "FunctionDiagonalDiscont" and d == 0 and dim > 1:
            # the inner integrand jumps at x0 = 1 - (x1 + ...): tell quad where
            opts.append(lambda *outer, o=o: dict(o, points=[1.0 - sum(outer)]) if 0.0 < 1.0 - sum(outer) < 1.0 else o)
            continue
        opts.append(o)
    val, err = integrate.nquad(fun, [[a[d], b[d]] for d in range(dim)], opts=opts)
    return val, err


PRODUCT_FORM = ("GenzProductPeak", "GenzC0", "GenzDiscontinious", "FunctionExpVar")


def product_integral(f, name, p, a, b):
    """numeric integral of an integrand of product form f(x) = K * prod_d g_d(x_d), from point evaluations only:
    f(x0) * prod_d ( int f(x0 with x_d = t) dt / f(x0) ); None if f vanishes at the reference point"""
    from scipy import integrate
    x0 = [x + (y - x) / 64 for x, y in zip(a, b)]
    f0 = float(np.ravel(f.eval(list(x0)))[0])
    if f0 == 0.0 or not math.isfinite(f0):
        return None, 0.0
    tot, err = f0, 0.0
    for d in range(len(a)):
        def line(t, d=d):
            x = list(x0); x[d] = t
            return float(np.ravel(f.eval(x))[0])
        bp = breakpoints(name, p, d)
        bp = [x for x in (bp or []) if a[d] < x < b[d]]
        v, e = integrate.quad(line, a[d], b[d], epsabs=0.0, epsrel=1e-12, limit=200, points=bp or None)
        tot *= v / f0
        err += abs(e / v) if v != 0 else 0.0
    return tot, abs(tot) * err


def gauss_integral(f, a, b, n=8):
    """tensor Gauss-Legendre rule, exact (to rounding) for the polynomial classes"""
    x, w = np.polynomial.legendre.leggauss(n)
    dim = len(a)
    tot = 0.0
    import itertools
    for idx in itertools.product(range(n), repeat=dim):
        pt = [0.5 * (b[d] - a[d]) * x[idx[d]] + 0.5 * (b[d] + a[d]) for d in range(dim)]
        ww = 1.0
        for d in range(dim):
            ww *= 0.5 * (b[d] - a[d]) * w[idx[d]]
        tot += ww * float(np.ravel(f.eval(pt))[0])
    return tot


def bits_float(s):
    """the driver prints a Float as its IEEE-754 bits (decimal UInt64)"""
    import struct
    s = s.strip()
    if not s.isdigit():
        return None
    return struct.unpack("<d", struct.pack("<Q", int(s)))[0]


def trans_lines(name, p, a, b):
    """driver lines of the transcendental closed forms (Model/AnalyticTrans): (anaT line, point -> evlT line)"""
    vs = lambda v: ",".join(frac_str(x) for x in v) if len(v) else "-"   # noqa: E731
    if name == "GenzProductPeak":
        return ("anaT pp %s %s %s %s" % (vs(p["c"]), vs(p["m"]), vs(a), vs(b)),
                lambda x: "evlT pp %s %s %s" % (vs(p["c"]), vs(p["m"]), vs(x)))
    if name == "GenzC0":
        return ("anaT c0 %s %s %s %s" % (vs(p["c"]), vs(p["m"]), vs(a), vs(b)),
                lambda x: "evlT c0 %s %s %s" % (vs(p["c"]), vs(p["m"]), vs(x)))
    if name in ("GenzDiscontinious", "GenzDiscontinious2"):
        return ("anaT disc %s %s %s %s" % (vs(p["c"]), vs(p["b"]), vs(a), vs(b)),
                lambda x: "evlT disc %s %s %s" % (vs(p["c"]), vs(p["b"]), vs(x)))
    if name == "FunctionExpVar":
        return ("anaT expvar %s %s" % (vs(a), vs(b)), lambda x: "evlT expvar %s" % vs(x))
    if name == "GenzOszillatory":
        return ("anaT osz %s %s %s %s" % (vs(p["c"]), frac_str(p["o"]), vs(a), vs(b)),
                lambda x: "evlT osz %s %s %s" % (vs(p["c"]), frac_str(p["o"]), vs(x)))
    if name == "GenzCornerPeak":
        return ("anaT corner %s %s %s" % (vs(p["c"]), vs(a), vs(b)), lambda x: "evlT corner %s %s" % (vs(p["c"]), vs(x)))
    return None


def closed_form_condition(name, p, a, b):
    """condition of a closed form that is a product over the dimensions of differences F(u_b) - F(u_a) of a SATURATING
    antiderivative (erf for GenzGaussian, arctan for GenzProductPeak), computed with the code's own F:
    sum_d (|F(u_b)| + |F(u_a)|) / |F(u_b) - F(u_a)|.  Each factor carries the relative rounding error eps * that quotient
    ("up to rounding" in the property's sense); inf if a difference rounds to 0.  0 for the other classes."""
    import scipy.special
    tot = 0.0
    for d in range(len(a)):
        if name == "GenzGaussian":
            sq = math.sqrt(p["c"][d])
            fa, fb = scipy.special.erf(sq * (a[d] - p["m"][d])), scipy.special.erf(sq * (b[d] - p["m"][d]))
        elif name == "GenzProductPeak":
            fa, fb = math.atan(p["c"][d] * (p["m"][d] - a[d])), math.atan(p["c"][d] * (p["m"][d] - b[d]))
        else:
            return 0.0
        if fb == fa:
            return float("inf")
        tot += (abs(fb) + abs(fa)) / abs(fb - fa)
    return tot


def run_integral(ctx, drv, case):
    name, params, a, b = case["cls"], case["params"], case["a"], case["b"]
    cname = "CustomFunction" if name == "BaseClassQuadrature" else name
    f = build(cname, params)
    ok = True
    unit_sides = all(abs((y - x) - 1.0) < 1e-15 for x, y in zip(a, b))
    tags = {"cls": name, "dim": len(a), "unit_sides": unit_sides}
    if name == "GenzOszillatory":
        tags["all_coefficients_zero"] = all(c == 0 for c in params["c"])
    mk = {"list": list, "tuple": tuple, "array": lambda v: np.array(v, dtype=float)}[case.get("argtype", "list")]
    if "cond" in case:
        tags["far"] = True
    try:
        with contextlib.redirect_stdout(io.StringIO()):
            if case.get("pre"):
                f.getAnalyticSolutionIntegral(mk(case["pre"][0]), mk(case["pre"][1]))   # the object has a history
            A, B = mk(a), mk(b)
            ana = f.getAnalyticSolutionIntegral(A, B)
            unchanged = list(map(float, A)) == list(map(float, a)) and list(map(float, B)) == list(map(float, b))
            ana_again = f.getAnalyticSolutionIntegral(A, B)
    except Exception as e:
        report(ctx, "integral-raises", dict(tags, error=type(e).__name__), case, {"error": str(e)[:200]})
        return False
    if not unchanged:
        if report(ctx, "argument-modified", dict(tags, op="getAnalyticSolutionIntegral"), case,
                  {"start_after": str(A)[:100], "end_after": str(B)[:100]}):
            ok = False
    if not np.array_equal(np.ravel(np.asarray(ana, dtype=float)), np.ravel(np.asarray(ana_again, dtype=float))):
        if report(ctx, "integral-not-repeatable", tags, case, {"first": repr(ana)[:80], "second": repr(ana_again)[:80]}):
            ok = False
    n_comp = len(np.ravel(f.eval(list(a))))
    if ana is not None and np.size(ana) == 1 and n_comp > 1:
        # e.g. GenzDiscontinious2 returns the scalar 0.0 for a box beyond the border: numerically the same vector
        ctx.count("integral_scalar_returned_for_vector_function")
        ana = [float(np.ravel(ana)[0])] * n_comp
    if ana is None or np.size(ana) != n_comp:
        report(ctx, "integral-not-a-number", tags, case, {"returned": repr(ana)[:100], "components_of_eval": n_comp})
        return False
    ana_vec = [float(x) for x in np.ravel(np.asarray(ana, dtype=float))]
    ana = ana_vec[0]
    # (1) correspondence with the exact model for the polynomial classes
    vs = lambda v: ",".join(frac_str(x) for x in v) if len(v) else "-"   # noqa: E731
    m = CLASSES[cname]["model"] if name != "BaseClassQuadrature" else "table"
    line = None
    if m == "const":
        line = "ana const %s %s %s" % (frac_str(params["v"]), vs(a), vs(b))
    elif m == "linear":
        line = "ana linear %s %s %s" % (vs(params["c"]), vs(a), vs(b))
    elif m == "poly":
        line = "ana poly %d %s %s %s" % (params["k"], vs(params["c"]), vs(a), vs(b))
    elif m == "multilin":
        line = "ana multilin %s %s %s" % (vs(params["c"]), vs(a), vs(b))
    elif m == "poly1d":
        line = "ana poly1d %s %s %s" % (vs(params["cs"]), frac_str(a[0]), frac_str(b[0]))
    exact = None
    tie_tol = max(1e-12, 4e-16 * case.get("cond", 1.0))   # the closed forms subtract nearly equal numbers on far boxes
    if line is not None:
        mv = Fraction(drv.ask(line))
        if m == "multilin":
            # `ana multilin` is the formula of the code under test (Lean: anaMultilinearCurrent); the repaired formula
            # (proved to be the integral: C12.multilinear_fixed_integral) is the exact reference
            exact = Fraction(drv.ask(line.replace("ana multilin ", "ana multilinfixed ")))
            if not rel_close(ana, mv, tie_tol, 0.0 if "cond" in case else 1e-9):
                ok = False
                ctx.corr_break("C12/ana-multilin", case, {"impl": ana, "model": str(mv), "model_repaired_formula": str(exact),
                                                          "hint": "if handoff/C12-fix-2.diff was applied set multilinearRepaired := true in Model/AnalyticInt.lean"})
        else:
            exact = mv
            if not rel_close(ana, mv, tie_tol, 0.0 if "cond" in case else 1e-9):
                ok = False
                ctx.corr_break("C12/ana-" + m, case, {"impl": ana, "model": str(mv)})
        # eval mirror on the box corners / midpoint
        mid = [(x + y) / 2 for x, y in zip(a, b)]
        for pt in (list(a), list(b), mid):
            iv = float(np.ravel(f.eval(pt))[0])
            if m == "const":
                continue
            if m == "poly":
                el = "evl poly %d %s %s" % (params["k"], vs(params["c"]), vs(pt))
            elif m == "poly1d":
                el = "evl poly1d %s %s" % (vs(params["cs"]), frac_str(pt[0]))
            else:
                el = "evl %s %s %s" % (m, vs(params["c"]), vs(pt))
            ev = Fraction(drv.ask(el))
            if not rel_close(iv, ev, 1e-12, 1e-9):
                ok = False
                ctx.corr_break("C12/eval-" + m, case, {"impl": iv, "model": str(ev), "point": pt})
    # (1b) the transcendental closed forms: the Float instance of the Model/AnalyticTrans terms (driver ops anaT /
    #      evlT; their real instance is what the Part C theorems are about) vs the Python values
    tl = trans_lines(name, params, a, b)
    if tl is not None:
        ana_line, evl = tl
        mv = bits_float(drv.ask(ana_line))
        scale = 1e-3 * max(abs(float(np.ravel(f.eval(list(a)))[0])), abs(float(np.ravel(f.eval(list(b)))[0]))) * \
            float(np.prod([abs(y - x) for x, y in zip(a, b)]))
        if name == "GenzOszillatory":
            # the closed form is a signed corner sum of terms of size 1/prod|c_i|: when it cancels (integral ~ 0) the
            # comparison unit must be the size of the summands, not the (tiny) values of f at two corners
            nz = [abs(float(c)) for c in params["c"] if float(c) != 0.0]
            vol = float(np.prod([abs(y - x) for x, y in zip(a, b)]))
            scale = max(scale, 1e-3 * 2 ** len(a) * max(vol, 1.0 / float(np.prod(nz)) if nz else vol))
        tt = tie_tol
        if name == "GenzCornerPeak":
            # signed sum of 2^n terms 1/u that cancels to order prod_d (c_d w_d / u): the rounding error of EITHER evaluation
            # order is eps * prod_d (u / (c_d w_d)) relative to the result
            u = 1.0 + sum(c * max(abs(x), abs(y)) for c, x, y in zip(params["c"], a, b))
            tt = max(1e-12, 4e-16 * float(np.prod([u / (c * abs(y - x)) for c, x, y in zip(params["c"], a, b)])))
        if tt > 1e-9:
            ctx.count("anaT_tie_skipped_ill_conditioned")
        elif mv is None or not rel_close(ana, mv, tt, scale):
            ok = False
            ctx.corr_break("C12/anaT-" + name, case, {"impl": ana, "model_float": mv, "line": ana_line})
        mid = [(x + y) / 2 for x, y in zip(a, b)]
        for pt in (list(a), list(b), mid):
            iv = float(np.ravel(f.eval(pt))[0])
            ev = bits_float(drv.ask(evl(pt)))
            if ev is None or not rel_close(iv, ev, 1e-12, 1e-3 if name == "GenzOszillatory" else 1e-300):
                ok = False
                ctx.corr_break("C12/evlT-" + name, case, {"impl": iv, "model_float": ev, "point": pt})
        ctx.count("anaT_" + name)
    # (2) oracle: the property itself -- analytic == numerically computed integral of the point evaluation
    # comparison unit: volume * size of the integrand on the box (an absolute floor of 1 would blind the oracle on small boxes)
    import itertools
    vol = float(np.prod([abs(y - x) for x, y in zip(a, b)]))
    probe_pts = [list(c) for c in itertools.product(*zip(a, b))][:32] + [[(x + y) / 2 for x, y in zip(a, b)]]
    for comp in range(n_comp):
        fmax = max(abs(float(np.ravel(f.eval(pt))[comp])) for pt in probe_pts)
        unit = vol * fmax
        if name == "GenzOszillatory":
            unit = max(unit, vol)            # |cos| <= 1: an integral that cancels is compared with the volume
        if m in ("const", "linear", "poly", "multilin", "poly1d"):
            num, err = gauss_integral(f, a, b, 8 if len(a) <= 3 else 5), 0.0
            how = "gauss-legendre"
        elif case.get("tie_only") and name in PRODUCT_FORM:
            num, err = product_integral(f, name, params, a, b)
            how = "product of 1-D quadratures"
            if num is None:
                ctx.count("integral_high_dim_tie_only")
                continue
        elif case.get("tie_only"):
            ctx.count("integral_high_dim_tie_only")
            continue
        else:
            num, err = numeric_integral(f, name, params, a, b, comp, unit)
            how = "nquad"
        if err > 1e-9 * max(unit, abs(num)):
            ctx.count("nquad_inaccurate_skipped")
            continue
        # allowed relative error: 1e-7 plus the rounding error the code's own closed form carries when it subtracts two
        # nearly equal values of a saturating antiderivative (erf tails, arctan tails)
        cond = closed_form_condition(name, params, a, b)
        allowed = 1e-7 + 4 * 2.220446049250313e-16 * cond
        if allowed > 1e-3:
            ctx.count("gaussian_tail_ill_conditioned")
            continue
        if not abs(ana_vec[comp] - num) <= allowed * max(unit, abs(num)):
            if report(ctx, "analytic-vs-numeric", tags, case,
                      {"analytic": ana_vec[comp], "numeric": num, "numeric_error_estimate": err, "method": how,
                       "component": comp, "exact_model": str(exact) if exact is not None else None}):
                ok = False
    return ok


# --------------------------------------------------------------------------------------------- sibling objects
# catalogue b: two or three Function objects alive at once (same class with other parameters, or sibling subclasses of
# Function) work on the SAME points in an interleaved order; each must behave as if it were alone (no class-level dict, no
# mutable default, no module-level cache).  Oracle only; the whole process history is the case.
SIB_ANY = ["ConstantValue", "FunctionLinear", "FunctionPolynomial", "FunctionMultilinear", "GenzProductPeak", "GenzOszillatory",
           "GenzC0", "GenzGaussian", "FunctionCompose", "CustomFunction", "FunctionCustom", "LambdaFunction", "FunctionUQWeighted",
           "GenzDiscontinious", "FunctionGeneralizedNormal", "FunctionPower", "FunctionConcatenate"]


def gen_siblings(r):
    dim = r.choice([1, 2, 2, 3])
    nobj = r.choice([2, 2, 3])
    first = r.choice(SIB_ANY)
    objs = []
    for i in range(nobj):
        name = first if (i > 0 and r.random() < 0.5) else r.choice(SIB_ANY)
        if dim not in CLASSES[name]["dims"]:
            name = "FunctionLinear"
        objs.append({"cls": name, "params": gen_params(name, r, dim)})
    pool = [[dy(r, -1, 2, r.choice([2, 4, 8])) for _ in range(dim)] for _ in range(r.randint(2, 5))]
    ops = []
    for _ in range(r.randint(4, 40)):
        i = r.randrange(nobj)
        x = r.random()
        if x < 0.45:
            ops.append([i, "single", r.choice(pool)])
        elif x < 0.8:
            ops.append([i, "batch", [r.choice(pool) for _ in range(r.choice([1, 2, 3]))]])
        elif x < 0.9:
            ops.append([i, "reset"])
        elif x < 0.95:
            ops.append([i, "deact"])
        else:
            ops.append([i, "new"])          # the object is replaced by a fresh instance of the same class and parameters
    return {"kind": "siblings", "dim": dim, "objs": objs, "ops": ops}


def run_siblings(ctx, case):
    objs = case["objs"]
    fs = [build(o["cls"], o["params"]) for o in objs]
    gs = [build(o["cls"], o["params"]) for o in objs]
    ev = [set() for _ in objs]
    cache_on = [True for _ in objs]
    ok = True
    done = []

    def viol(probe, tags, detail):
        nonlocal ok
        if report(ctx, probe, tags, dict(case, ops=list(done)), detail):
            ok = False

    def check_all(after):
        for j, f in enumerate(fs):
            n = f.get_f_dict_size()
            keys = set(tuple(float(x) for x in k) for k in f.get_f_dict_points())
            if n != len(ev[j]) or keys != ev[j]:
                viol("sibling-counter", {"cls": objs[j]["cls"], "object": j, "after_op_on": after},
                     {"size": n, "expected": len(ev[j]), "keys": sorted(keys)[:5], "expected_keys": sorted(ev[j])[:5]})
                return False
        return True

    for op in case["ops"]:
        done.append(op)
        i, kind = op[0], op[1]
        f, g, name = fs[i], gs[i], objs[i]["cls"]
        tags = {"cls": name, "object": i, "n_objects": len(objs), "cache_on": cache_on[i]}
        if kind == "single":
            p = tuple(float(x) for x in op[2])
            res = call_quiet(f, p)
            pv = pure_value(g, p)
            sc = 1e-2 * max([abs(x) for x in pv] + [0.0])
            if len(np.ravel(res)) != len(pv) or not all(rel_close(x, y, 1e-12, sc) for x, y in zip(np.ravel(res), pv)):
                viol("sibling-value", dict(tags, op="single"), {"point": list(p), "returned": [float(x) for x in np.ravel(res)], "pure": pv})
            ev[i].add(p)
        elif kind == "batch":
            ps = [tuple(float(x) for x in q) for q in op[2]]
            res = call_quiet(f, ps)
            for row, q in zip(res, ps):
                pv = pure_value(g, q)
                sc = 1e-2 * max([abs(x) for x in pv] + [0.0])
                if len(np.ravel(row)) != len(pv) or not all(rel_close(x, y, 1e-12, sc) for x, y in zip(np.ravel(row), pv)):
                    viol("sibling-value", dict(tags, op="batch"), {"point": list(q), "returned": [float(x) for x in np.ravel(row)], "pure": pv})
                ev[i].add(q)
        elif kind == "reset":
            f.reset_dictionary()
            ev[i] = set()
        elif kind == "deact":
            f.deactivate_caching()
            cache_on[i] = False
        elif kind == "new":
            fs[i] = build(name, objs[i]["params"])
            ev[i] = set()
            cache_on[i] = True
            if fs[i].get_f_dict_size() != 0 or not fs[i].do_cache:
                viol("sibling-fresh-object", tags, {"size_of_new_object": fs[i].get_f_dict_size(), "do_cache": fs[i].do_cache})
        # EVERY object is re-observed after another one worked
        if not check_all(i) or not ok:
            break
    return ok


# --------------------------------------------------------------------------------------------- aliasing
# "returns the same values ... with caching on or off, before or after a cache reset" implies that a returned array never
# aliases the cache (or another returned array): a caller that modifies its result in place must not change later results.
RET_WRAPPERS = ["RetFloat", "RetNpFloat", "RetList", "RetTuple", "RetNdarray", "RetNdarrayVec", "RetStoredNdarray"]


def build_alias(name, p):
    import sparseSpACE.Function as F
    c = p.get("c", [1.0])
    lin = lambda x: sum(c[i] * x[i] for i in range(len(c)))   # noqa: E731
    if name == "RetFloat":
        return F.CustomFunction(lambda x: float(lin(x)))
    if name == "RetNpFloat":
        return F.CustomFunction(lambda x: np.float64(lin(x)))
    if name == "RetList":
        return F.CustomFunction(lambda x: [lin(x), lin(x) + 1.0], output_length=2)
    if name == "RetTuple":
        return F.CustomFunction(lambda x: (lin(x), lin(x) - 1.0, 2.0), output_length=3)
    if name == "RetNdarray":
        return F.CustomFunction(lambda x: np.array([lin(x)]))
    if name == "RetNdarrayVec":
        return F.CustomFunction(lambda x: np.array([lin(x), 2.0 * lin(x)]), output_length=2)
    if name == "RetStoredNdarray":
        # a subclass that keeps the arrays it returned (a solver keeping its last states): eval returns the SAME object
        class Keeps(F.Function):
            def __init__(self):
                super().__init__()
                self.store = {}

            def eval(self, x):
                k = tuple(float(v) for v in x)
                if k not in self.store:
                    self.store[k] = np.array([lin(x), lin(x) + 0.5])
                return self.store[k].copy()

            def output_length(self):
                return 2
        return Keeps()
    return build(name, p)


def gen_alias(r, name):
    cname = name if name in CLASSES else "CustomFunction"
    spec = CLASSES[cname]
    dim = r.choice(spec["dims"])
    lo, hi = spec["dom"]
    params = gen_params(cname, r, dim) if name in CLASSES else {"c": [dy(r, -2, 2, 4) or 1.0 for _ in range(dim)]}
    pts = []
    while len(pts) < 2:
        q = [dy(r, lo, hi, r.choice([4, 8, 16])) for _ in range(dim)]
        if q not in pts:
            pts.append(q)
    return {"kind": "alias", "cls": name, "dim": dim, "params": params, "pts": pts, "cache_on": r.random() < 0.6,
            "mutation": r.choice(["arith", "nan"]), "reset_between": r.random() < 0.3}


def mutate(arr, how):
    """in-place modification by the caller (works for every dtype the implementation may hand out)"""
    if how == "nan" and arr.dtype.kind == "f":
        arr[...] = np.nan
    else:
        arr[...] = -3 * (np.asarray(arr, dtype=float) ** 2 + 1.0)


def same_vals(a, b, exact):
    a = np.ravel(np.asarray(a, dtype=float)); b = np.ravel(np.asarray(b, dtype=float))
    if a.shape != b.shape:
        return False
    if exact:
        return bool(np.array_equal(a, b))
    sc = 1e-2 * float(np.max(np.abs(b))) if b.size else 0.0
    return all(rel_close(x, y, 1e-12, sc) for x, y in zip(a, b))


def run_alias(ctx, case):
    name, params, pts, cache_on, how = case["cls"], case["params"], case["pts"], case["cache_on"], case["mutation"]
    f = build_alias(name, params)
    p1, p2 = tuple(float(x) for x in pts[0]), tuple(float(x) for x in pts[1])
    if not cache_on:
        f.deactivate_caching()
    tags = {"cls": name, "cache_on": cache_on}
    ok = True
    try:
        # (1) a mutated single result must not change the next result for the same point
        r1 = f(p1)
        snap = r1.copy()
        mutate(r1, how)
        if case.get("reset_between"):
            pass
        again = f(p1)
        if not same_vals(again, snap, exact=True):
            ok = not report(ctx, "alias-single", tags, case, {"first": snap.tolist(), "after_caller_mutation": np.asarray(again).tolist()}) and ok
        # (2) no shared memory between two results, nor between a result and the dictionary entry
        a1, a2 = f(p1), f(p1)
        entry = f.f_dict.get(p1)
        shares = bool(np.shares_memory(a1, a2)) or (isinstance(entry, np.ndarray) and bool(np.shares_memory(a1, entry)))
        if shares:
            ok = not report(ctx, "alias-shares-memory", tags, case, {"two_results": bool(np.shares_memory(a1, a2))}) and ok
        # (3) a mutated batch result must not change later single or batch results
        if case.get("reset_between"):
            f.reset_dictionary()
        R = f([p1, p2])
        orig = R.copy()
        mutate(R[0], how)
        s1 = f(p1)
        if not same_vals(s1, orig[0], exact=False):
            ok = not report(ctx, "alias-batch", dict(tags, observed_by="single"), case,
                            {"batch_row": orig[0].tolist(), "single_after_caller_mutation": np.asarray(s1).tolist()}) and ok
        R2 = f([p1, p2])
        if not same_vals(R2, orig, exact=True):
            ok = not report(ctx, "alias-batch", dict(tags, observed_by="batch"), case,
                            {"first_batch": orig.tolist(), "second_batch": np.asarray(R2).tolist()}) and ok
        mutate(R2, how)
        s2 = f(p2)
        if not same_vals(s2, orig[1], exact=False):
            ok = not report(ctx, "alias-batch", dict(tags, observed_by="single"), case,
                            {"batch_row": orig[1].tolist(), "single_after_caller_mutation": np.asarray(s2).tolist()}) and ok
    except Exception as e:
        ok = not report(ctx, "alias-raises", dict(tags, error=type(e).__name__), case, {"error": str(e)[:200]}) and ok
    return ok


# --------------------------------------------------------------------------------------------- malformed driver lines
def run_malformed(ctx, drv):
    for line, want in [("single 1,2", None), ("fn nosuch 1", "bad-op"), ("fn linear 1,x", "bad-op"), ("batch 1;;2", "bad-op"),
                       ("single 1/0", "bad-op"), ("ana poly -1 1 0 1", "bad-op"), ("", "bad-op"), ("def 1 2 3 4", "bad-op")]:
        got = drv.ask(line)
        if want is not None and got != want:
            ctx.corr_break("C12/malformed-line", {"line": line}, {"model": got, "expected": want})
        ctx.count("malformed_lines")


# --------------------------------------------------------------------------------------------- entry points
def run(ctx):
    thorough = ctx.tier == "thorough"
    r = ctx.rng
    ctx.rule = ("(a) histories: for every built-in Function subclass (%d classes incl. vector-valued, wrappers and the two whose "
                "declared output length is wrong, plus a CustomFunction with a wrong declaration as malformed stream) random parameters, "
                "1-4 dimensions, a pool of 1-7 dyadic points and 1-60 ops (40%% single, 30%% batch of 1-5 points with repetitions, "
                "10%% size, 8%% reset, deactivation once, 3%% empty batch, 1%% empty tuple; tuples / lists / numpy arrays as arguments); "
                "after every op values, shapes, error kind, eval-call counts, dictionary keys and size are compared with the model and "
                "the property clauses are evaluated against an independent instance; distinct by (class, parameters, ops), non-trivial if "
                "at least one evaluation happened; (b) vectorised override vs scalar eval on 1-14 random points per case; "
                "(c) analytic vs numeric integral (nquad 1e-11, Gauss-Legendre for polynomials) on random boxes: unit cube, unit sides, "
                "arbitrary, origin outside; (d) aliasing: per class (and per return type of eval: float, np.float64, list, tuple, ndarray) with caching on / off, "
                "a caller mutates a returned single / batch array in place, later results must be unchanged and share no memory" % len(CLASSES))
    ctx.assumptions.append("floating-point rounding is not modelled: values are compared at 1e-12 relative, integrals at 1e-7")
    ctx.assumptions.append("the closed forms of GenzProductPeak, GenzC0, GenzDiscontinious(2), FunctionExpVar, GenzOszillatory, GenzCornerPeak "
                           "are proved over the reals (Part C); the Float instance of the same terms is tied to Python at 1e-12")
    ctx.assumptions.append("remaining analytic integrals (GenzGaussian [erf], FunctionG, FunctionDiagonalDiscont, wrappers) and the "
                           "agreement of their vectorised overrides with eval are validated by the oracle only, not proved")
    drv = ctx.driver("drv_c12")
    import funccache_gen, sys
    funccache_gen.run(ctx, drv, sys.modules[__name__])      # translator tie of the Function cache (see funccache_gen.py)
    run_malformed(ctx, drv)
    names = list(CLASSES)
    n_hist = 40 if not thorough else 400          # per class
    budget_hist = 45 if not thorough else 300
    k = 0
    for rnd in range(n_hist):
        for name in names:
            if ctx.time_left(budget_hist) < 0:
                break
            case = gen_history(r, name, thorough)
            try:
                ok = run_history(ctx, drv, case)
            except Exception:
                ok = False
                crashed(ctx, case)
            nontriv = any(o[0] in ("single", "batch") and len(o[1]) > 0 for o in case["ops"])
            ctx.case(case, nontrivial=nontriv, sample=case if k < 2 else None)
            ctx.count("hist_" + name)
            k += 1
            if not ctx_continue(ctx):
                break
    # (b) vectorised overrides
    ov = [n for n in names if CLASSES[n]["ov"]]
    for rnd in range(40 if not thorough else 600):
        for name in ov:
            case = gen_vec(r, name)
            run_vec(ctx, case)
            ctx.case(case, nontrivial=True)
            ctx.count("vec_" + name)
    # (e) sibling objects
    for rnd in range(150 if not thorough else 2500):
        case = gen_siblings(r)
        try:
            run_siblings(ctx, case)
        except Exception:
            crashed(ctx, case)
        ctx.case(case, nontrivial=True, sample=case if rnd == 0 else None)
        ctx.count("siblings_%d" % len(case["objs"]))
    # (d) aliasing: results must not share memory with the cache or with each other
    alias_names = [n for n in names if n != "CustomFunctionWrongLength"] + RET_WRAPPERS
    alias_names = [n for n in alias_names if n in RET_WRAPPERS or n in CLASSES]
    for rnd in range(6 if not thorough else 60):
        for name in alias_names:
            case = gen_alias(r, name)
            try:
                run_alias(ctx, case)
            except Exception:
                crashed(ctx, case)
            ctx.case(case, nontrivial=True)
            ctx.count("alias_" + ("on" if case["cache_on"] else "off"))
    # (c) analytic integrals
    budget_int = 85 if not thorough else 600
    n_int = 30 if not thorough else 300
    for rnd in range(n_int):
        for name in INTEGRAL_CLASSES:
            if ctx.time_left(budget_int) < 0:
                ctx.count("integral_budget_exhausted")
                break
            case = gen_integral(r, name, thorough)
            try:
                run_integral(ctx, drv, case)
            except Exception:
                crashed(ctx, case)
            ctx.case(case, nontrivial=True, sample=case if rnd == 0 and name == "GenzCornerPeak" else None)
            ctx.count("int_" + name)
            ctx.count("int_dim_%d" % case["dim"])


def replay(ctx, rp):
    case = rp["case"]
    drv = ctx.driver("drv_c12")
    kind = case.get("kind")
    if kind == "history":
        ok = run_history(ctx, drv, case)
    elif kind == "vec":
        ok = run_vec(ctx, case)
    elif kind == "integral":
        ok = run_integral(ctx, drv, case)
    elif kind == "alias":
        ok = run_alias(ctx, case)
    elif kind == "siblings":
        ok = run_siblings(ctx, case)
    else:
        print("replay: unknown case kind", kind)
        return 1
    ok = ok and not ctx.violations and not ctx.corr_breaks
    print("replay: %s" % ("property holds and model agrees on this case" if ok and not ctx.known_hits else
                          ("only known findings on this case" if ok else "REPRODUCED")))
    for fid, (fnd, n) in ctx.known_hits.items():
        print("  known finding:", fid, n)
    for v in ctx.violations[:3]:
        print("  violation:", v["probe"], v["tags"], v["detail"])
    for c in ctx.corr_breaks[:3]:
        print("  disagreement:", c["observable"], c["detail"])
    for d in ctx._drivers:
        d.close()
    return 0 if ok else 1
