import GenScratch.FuncCacheGen
import SparseSpace.Model.FuncCache
/-!
Directed search used by `harness/funccache_gen.py` when the translator tie of the evaluation cache is broken: runs the
FRESHLY generated definitions (`GenScratch.FuncCacheGen`, namespace `SparseSpace.GenFC`) and the hand model on all
operation sequences of length ≤ 4 over a small alphabet and prints the sequences on which returned values, dictionary
keys or the counter differ:

    DIS ops <op> ; <op> ; ...        op = s<i> (single point i) | b<i><j> (batch) | e (empty batch) | r (reset) | d (deactivate)

Interpreted with `lean --run`; not part of the library.
-/
open SparseSpace SparseSpace.FuncCache

def pts : List Pt := [[1, 2], [0, 3]]
def fn : Fn := Fn.generic (fun p => p.take 1) 1
def absF : GenFC.Abstract :=
  { eval := fn.eval, eval_vectorized := fun ps => (fn.evalVec ps).getD [], output_length := fun _ => 1 }

def alphabet : List (String × Op) :=
  [("s0", .single [1, 2]), ("s1", .single [0, 3]), ("b01", .batch [[1, 2], [0, 3]]), ("b00", .batch [[1, 2], [1, 2]]),
   ("e", .batch []), ("r", .reset), ("d", .deactivate)]

def genStep (g : GenFC.State) : Op → GenFC.State × Option (List Val)
  | .single p => ((GenFC.call_point absF g p).1, some [(GenFC.call_point absF g p).2])
  | .batch ps => ((GenFC.call_batch absF g ps).1, some (GenFC.call_batch absF g ps).2)
  | .reset => (GenFC.reset_dictionary g, none)
  | .deactivate => (GenFC.deactivate_caching g, none)
  | .size => (g, none)

def agree (seq : List (String × Op)) : Bool := Id.run do
  let mut g : GenFC.State := { f_dict := [], old_f_dict := [], do_cache := true }
  let mut s : St := St.init
  for (_, o) in seq do
    let rg := genStep g o
    let rs := step Cfg.current fn s o
    if rg.2 != rs.2.vals then return false
    g := rg.1
    s := rs.1
    if GenFC.get_f_dict_points g != keys s.fdict || GenFC.get_f_dict_size g != (s.fdict.length : Int) || g.do_cache != s.doCache then
      return false
  return true

def seqs : Nat → List (List (String × Op))
  | 0 => [[]]
  | n + 1 => (seqs n).flatMap fun s => alphabet.map fun a => s ++ [a]

def main : IO Unit := do
  let mut found := 0
  for n in [1, 2, 3, 4] do
    for s in seqs n do
      if found < 12 && !agree s && (s.dropLast.isEmpty || agree s.dropLast) then
        IO.println s!"DIS ops {" ; ".intercalate (s.map (·.1))}"
        found := found + 1
  IO.println s!"DONE {found}"
