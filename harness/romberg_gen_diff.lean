import GenScratch.RombergGen
import GenScratch.RombergTrapGen
import GenScratch.RombergSimpGen
import SparseSpace.Model.Romberg
/-!
Directed search used by `harness/romberg_gen.py` when the translator tie of the Romberg coefficients / point weights is
broken: evaluates the FRESHLY generated definitions (`GenScratch.Romberg*Gen`) and the hand model `Model/Romberg` for the
three coefficient classes, levels 0..5 and two intervals, and prints where they differ:

    DIS <function> cls <linear|default|simpson> a <a> b <b> l <level> m <max_level> j <j>

Interpreted with `lean --run`; not part of the library.
-/
open SparseSpace SparseSpace.Romberg

def showQ (q : Rat) : String := if q.den == 1 then toString q.num else s!"{q.num}/{q.den}"

def classes : List (String × GenRC.Cls × Nat) :=
  [("linear", .RombergLinearCoefficients, 1), ("default", .RombergDefaultCoefficients, 2), ("simpson", .RombergSimpsonCoefficients, 3)]

def main : IO Unit := do
  let mut found := 0
  let report := fun (f cn : String) (a b : Rat) (l m j : Nat) =>
    IO.println s!"DIS {f} cls {cn} a {showQ a} b {showQ b} l {l} m {m} j {j}"
  for (a, b) in [((0 : Rat), (1 : Rat)), ((-1 : Rat), (3 : Rat))] do
    for (cn, c, e) in classes do
      let o : GenRC.Obj := { cls := c, st := { a := a, b := b } }
      -- the weight objects hold another interval than the coefficient object: only the latter may be read
      let t : GenRT.State := { a := a + 5, b := b + 7, extrapolation_factory := o }
      let s : GenRS.State := { a := a + 5, b := b + 7, extrapolation_factory := o }
      for m in [0, 1, 2, 3, 4, 5] do
        for j in List.range (m + 1) do
          if found < 12 && GenRC.Obj.get_step_width o j != stepWidth a b j then
            report "get_step_width" cn a b 0 m j; found := found + 1
          if found < 12 && (GenRC.Obj.get_coefficient o m j != coeff a b e m j || GenRT.get_extrapolation_coefficient t m j != coeff a b e m j
              || GenRS.get_extrapolation_coefficient s m j != coeff a b e m j) then
            report "get_coefficient" cn a b 0 m j; found := found + 1
        if found < 12 && e != 3 && GenRT.get_boundary_point_weight t m != trapBoundary a b e m then
          report "trapezoidal.get_boundary_point_weight" cn a b 0 m 0; found := found + 1
        if found < 12 && e == 3 && GenRS.get_boundary_point_weight s m != simpBoundary a b m then
          report "simpson.get_boundary_point_weight" cn a b 0 m 0; found := found + 1
        for l in List.range (m + 1) do
          if l ≥ 1 then
            if found < 12 && e != 3 && GenRT.get_inner_point_weight t l m != trapInner a b e l m then
              report "trapezoidal.get_inner_point_weight" cn a b l m 0; found := found + 1
            if found < 12 && e == 3 && GenRS.get_inner_point_weight s l m != simpInner a b l m then
              report "simpson.get_inner_point_weight" cn a b l m 0; found := found + 1
  IO.println s!"DONE {found}"
