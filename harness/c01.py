"""C01 -- adaptive combination scheme is a valid inclusion-exclusion scheme.

Correspondence: random update histories on the real CombiScheme vs. Model/Combi (state, return value and
scheme compared after EVERY operation).  Oracle: the clauses of the property evaluated on the
implementation's own sets and scheme (brute force over the level box)."""
import itertools
import math
from common import vec_str


def fmt_vecs(vs):
    return "[" + ",".join("[" + ",".join(str(int(x)) for x in v) + "]" for v in sorted(tuple(int(x) for x in v) for v in vs)) + "]"


def fmt_scheme(items):
    items = sorted((tuple(int(x) for x in lv), c) for lv, c in items)
    return "[" + ",".join("[" + ",".join(str(x) for x in lv) + "]:" + str(c) for lv, c in items) + "]"


def int_coeff(c):
    """coefficients of the closed form are floats (Python `/`); they must be integers"""
    if float(c) != int(round(float(c))):
        return None
    return int(round(float(c)))


def impl_state(cs):
    return "A %s O %s L %d" % (fmt_vecs(cs.active_index_set), fmt_vecs(cs.old_index_set), cs.lmax_adaptive)


def impl_scheme(cs):
    sch = cs.getCombiScheme(do_print=False)
    return [(tuple(int(x) for x in g.levelvector), g.coefficient) for g in sch]


def oracle(ctx, cs, dim, lmin, case):
    """property clauses on the implementation's observable sets"""
    I = set(cs.get_index_set())
    act = set(cs.get_active_indices())
    old = I - act if not hasattr(cs, "old_index_set") else set(cs.old_index_set)
    bad = []
    for l in I:
        if len(l) != dim or any(x < lmin for x in l):
            bad.append(("shape", l))
        for d in range(dim):
            if l[d] > lmin:
                b = list(l); b[d] -= 1
                if tuple(b) not in I:
                    bad.append(("downward-closed", l, d))
    if act & old:
        bad.append(("disjoint", sorted(act & old)[:3]))
    for l in act:
        for d in range(dim):
            f = list(l); f[d] += 1
            if tuple(f) in I:
                bad.append(("active-has-forward-neighbour", l, d))
    sch = impl_scheme(cs)
    keys = [lv for lv, _ in sch]
    if len(set(keys)) != len(keys):
        bad.append(("grid-returned-twice",))
    for lv, c in sch:
        if lv not in I:
            bad.append(("support-outside-index-set", lv))
        if c == 0:
            bad.append(("zero-coefficient-returned", lv))
    if sum(c for _, c in sch) != 1:
        bad.append(("total-sum", sum(c for _, c in sch)))
    if I:
        hi = [max(l[d] for l in I) + 1 for d in range(dim)]
        n = 1
        for d in range(dim):
            n *= hi[d] - lmin + 1
        if n <= 20000:
            for t in itertools.product(*[range(lmin, hi[d] + 1) for d in range(dim)]):
                s = sum(c for lv, c in sch if all(lv[d] >= t[d] for d in range(dim)))
                if s != (1 if t in I else 0):
                    bad.append(("dominated-sum", t, s))
                    break
            ctx.count("oracle_box_points", n)
    else:
        bad.append(("empty-index-set",))
    if bad:
        ctx.violation("scheme-clauses", {"dim": dim, "lmin": lmin}, case, {"failed": [list(map(str, b)) for b in bad[:5]]})
    return not bad


def gen_history(ctx, thorough):
    r = ctx.rng
    dim = r.choice([1, 2, 2, 3, 3, 4, 5] if not thorough else [1, 2, 3, 3, 4, 4, 5, 6])
    lmin = r.choice([0, 1, 1, 2, 3])
    span = r.randint(0, 5 if dim <= 3 else (3 if dim <= 4 else 2))
    lmax = lmin + span
    nops = r.randint(0, 40 if not thorough else 120)
    if dim >= 5:
        nops = min(nops, 25)
    return dim, lmin, lmax, nops


def pick_op(ctx, cs, dim, lmin):
    r = ctx.rng
    x = r.random()
    act = sorted(cs.active_index_set)
    old = sorted(cs.old_index_set)
    if x < 0.75 and act:
        return list(r.choice(act)), "active"
    if x < 0.85 and old:
        return list(r.choice(old)), "old"
    if x < 0.95:
        base = list(r.choice(act + old)) if act + old else [lmin] * dim
        for _ in range(r.randint(1, 2)):
            base[r.randrange(dim)] += r.choice([-1, 1, 1, 2])
        return base, "near"
    k = r.randrange(4)
    if k == 0:
        return [r.randint(-2, 6) for _ in range(max(0, dim + r.choice([-1, 1])))], "malformed-length"
    if k == 1:
        return [lmin - 1] * dim, "below-lmin"
    if k == 2:
        return [r.randint(-5, -1) for _ in range(dim)], "negative"
    return [10 ** 6] * dim, "huge"


def run_prelude(ctx, drv, pre):
    """object history: an earlier adaptive scheme (possibly with other levels) on an object that is then either
    re-initialised for the main history (mode 'reinit') or kept alive next to it (mode 'sibling')"""
    from sparseSpACE.combiScheme import CombiScheme
    cs = CombiScheme(pre["dim"])
    cs.init_adaptive_combi_scheme(pre["lmax"], pre["lmin"])
    drv.ask("init %d %d %d" % (pre["dim"], pre["lmax"], pre["lmin"]))
    for lv in pre["ops"]:
        cs.update_adaptive_combi(list(lv))
        drv.ask("upd " + vec_str(lv))
    if pre.get("full_grid"):
        cs.init_full_grid(pre["lmax"], pre["lmin"])     # documented as "plotting only"; it must not leak into a later init
    return cs, drv.ask("state"), drv.ask("scheme")


def gen_prelude(ctx, dim, lmin, lmax):
    r = ctx.rng
    same = r.random() < 0.5
    pl, ph = (lmin, lmax) if same else (r.choice([0, 1, 2, 3]), None)
    if ph is None:
        ph = pl + r.randint(0, 3)
    pre = {"dim": dim, "lmin": pl, "lmax": ph, "ops": [], "mode": r.choice(["reinit", "sibling"]), "full_grid": r.random() < 0.15}
    from sparseSpACE.combiScheme import CombiScheme
    tmp = CombiScheme(dim)
    tmp.init_adaptive_combi_scheme(ph, pl)
    for _ in range(r.randint(0, 4)):
        act = sorted(tmp.active_index_set)
        if not act:
            break
        lv = list(r.choice(act))
        tmp.update_adaptive_combi(lv)
        pre["ops"].append(lv)
    if pre["mode"] == "sibling":
        pre["full_grid"] = False
    return pre


def run_history(ctx, drv, dim, lmin, lmax, ops=None, nops=0, obs_seed=None, prelude=None):
    """returns (ok, executed ops); ops=None: draw them from the rng"""
    from sparseSpACE.combiScheme import CombiScheme
    sibling = None
    if prelude is not None:
        pcs, pstate, pscheme = run_prelude(ctx, drv, prelude)
        ctx.count("prelude_" + prelude["mode"] + ("_same_levels" if (prelude["lmin"], prelude["lmax"]) == (lmin, lmax) else ""))
        if prelude["mode"] == "reinit":
            cs = pcs
        else:
            sibling = (pcs, pstate, pscheme)
            cs = CombiScheme(dim)
    else:
        cs = CombiScheme(dim)
    cs.init_adaptive_combi_scheme(lmax, lmin)
    import random as _random
    if obs_seed is None:
        obs_seed = ctx.rng.randrange(1 << 30)
    obs_rng = _random.Random(obs_seed)
    obs_prob = obs_rng.choice([1.0, 0.5, 0.25, 0.0])
    case = {"dim": dim, "lmin": lmin, "lmax": lmax, "ops": [], "obs_seed": obs_seed}
    if prelude is not None:
        case["prelude"] = prelude
    r = drv.ask("init %d %d %d" % (dim, lmax, lmin))
    ok = True

    def compare(obs, impl, model):
        nonlocal ok
        if impl != model:
            ok = False
            ctx.corr_break("C01/" + obs, dict(case, ops=list(case["ops"])), {"impl": impl[:400], "model": model[:400]})

    compare("init", "ok", r)
    compare("state", impl_state(cs), drv.ask("state"))
    compare("scheme", fmt_scheme(impl_scheme(cs)), drv.ask("scheme"))
    # closed form vs fresh adaptive scheme (property clause) and vs model
    # the closed form is requested on ONE long-lived object per dimension (with varying lmin/lmax across histories),
    # so that hidden state in the getter cannot hide behind fresh objects
    pool = ctx.extra.setdefault("_std_objects", {})
    if dim not in pool:
        pool[dim] = CombiScheme(dim)
    cs0 = pool[dim]
    std = [(tuple(int(x) for x in g.levelvector), g.coefficient) for g in cs0.getCombiScheme(lmin, lmax, do_print=False)]
    std_i = [(lv, int_coeff(c)) for lv, c in std]
    if any(c is None for _, c in std_i) or fmt_scheme(std_i) != fmt_scheme(impl_scheme(cs)):
        ctx.violation("closed-form-vs-adaptive", {"dim": dim, "lmin": lmin, "lmax": lmax}, dict(case),
                      {"closed_form": str(std)[:400], "adaptive": fmt_scheme(impl_scheme(cs))[:400]})
        ok = False
    else:
        compare("std", fmt_scheme(std_i), drv.ask("std %d %d %d" % (dim, lmin, lmax)))
    ok = oracle(ctx, cs, dim, lmin, dict(case)) and ok
    i = 0
    while True:
        if ops is None:
            if i >= nops:
                break
            lv, kind = pick_op(ctx, cs, dim, lmin)
        else:
            if i >= len(ops):
                break
            lv, kind = ops[i], "replay"
        i += 1
        ctx.count("op_" + kind)
        case["ops"].append(lv)
        ret = cs.update_adaptive_combi(list(lv))
        impl_ret = "none" if ret is None else "ret [" + ",".join(str(d) for d in ret) + "]"
        ctx.count("ret_none" if ret is None else "ret_%d_dims" % len(ret))
        compare("update-return", impl_ret, drv.ask("upd " + vec_str(lv)))
        compare("state", impl_state(cs), drv.ask("state"))
        # the scheme getter is observed only at some steps (and always at the end): a getter with hidden state
        # (memoisation, lazily updated caches) must not be refreshed by the observer after every operation
        last = (i >= nops) if ops is None else (i >= len(ops))
        if last or obs_rng.random() < obs_prob:
            ctx.count("scheme_observations")
            compare("scheme", fmt_scheme(impl_scheme(cs)), drv.ask("scheme"))
            if not oracle(ctx, cs, dim, lmin, dict(case, ops=list(case["ops"]), obs_seed=case["obs_seed"])):
                ok = False
        if not ok:
            break
    if sibling is not None and ok:
        # the earlier scheme object is still alive: nothing the newer object did may have changed it
        pcs, pstate, pscheme = sibling
        compare("sibling-state", impl_state(pcs), pstate)
        compare("sibling-scheme", fmt_scheme(impl_scheme(pcs)), pscheme)
        if not oracle(ctx, pcs, prelude["dim"], prelude["lmin"], dict(case, ops=list(case["ops"]), observed="sibling")):
            ok = False
    return ok, case


def run(ctx):
    thorough = ctx.tier == "thorough"
    ctx.rule = ("random update histories on CombiScheme (dim 1-6, lmin 0-3, lmax-lmin 0-5, ops 75% active / 10% old / 10% near / 5% malformed); "
                "model and implementation compared after every operation (sets, lmax_adaptive, return value, scheme, closed form); "
                "a case is one history, distinct by (dim,lmin,lmax,op list), non-trivial if at least one update was accepted or dim>=2")
    drv = ctx.driver("drv_c01")
    import c01_gen
    c01_gen.run(ctx, drv, run_history)       # translator tie: regenerate the Lean definitions from the current source
    n = 300 if not thorough else 4000
    budget = 100 if not thorough else 600
    for k in range(n):
        if ctx.time_left(budget) < 0:
            break
        dim, lmin, lmax, nops = gen_history(ctx, thorough)
        prelude = gen_prelude(ctx, dim, lmin, lmax) if ctx.rng.random() < 0.35 else None
        ok, case = run_history(ctx, drv, dim, lmin, lmax, None, nops, prelude=prelude)
        ctx.count("dim_%d" % dim)
        ctx.count("span_%d" % (lmax - lmin))
        ctx.case(case, nontrivial=(dim >= 2 or len(case["ops"]) > 0), sample=case if k < 2 else None)
        if not ok and (len(ctx.violations) + len(ctx.corr_breaks)) >= ctx.max_reports:
            break


def replay(ctx, rp):
    case = rp["case"]
    drv = ctx.driver("drv_c01")
    ok, _ = run_history(ctx, drv, case["dim"], case["lmin"], case["lmax"], case.get("ops", []), obs_seed=case.get("obs_seed"), prelude=case.get("prelude"))
    print("replay: %s" % ("property holds and model agrees on this case" if ok else "REPRODUCED"))
    for v in ctx.violations[:3]:
        print("  violation:", v["probe"], v["detail"])
    for c in ctx.corr_breaks[:3]:
        print("  disagreement:", c["observable"], c["detail"])
    for d in ctx._drivers:
        d.close()
    return 0 if ok else 1
