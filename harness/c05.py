"""C05 -- the reported result is the combination of the component results.

Two ties of Model/Accum to the code, and the oracle:

* MICRO correspondence: the real `Integration`, `RefinementContainer` and the real `SpatiallyAdaptivBase.evaluate_operation`,
  `refine`, `refinement_postprocessing`, `evaluate_final_combi` are driven (through a thin strategy stub whose "grid" returns
  table values) with random schemes, random dyadic partial results and random add/remove histories in ANY interleaving (incl.
  resumed evaluations, re-evaluations and malformed removals); after every operation the complete state (operation.integral,
  refinement.value, every area.value, startNewObjects, popArray) is compared with the model.
* MACRO correspondence + ORACLE: real runs of StandardCombi, DimAdaptiveCombi, SpatiallyAdaptiveSingleDimensions2 (dimension-wise)
  and SpatiallyAdaptiveExtendScheme (version 0) with Integration on small problems.  The per-component / per-area partial results and
  the add/remove history actually used by the run are recorded and replayed on the model, which must reproduce the running value
  after EVERY evaluation.  At every stop the reported value is compared with (a) an independent recomputation (fresh grid objects,
  own exact summation), (b) evaluate_final_combi(), (c) the same run with reevaluate_at_end=True, (d) sum w*f over
  get_points_and_weights().
"""
import contextlib
import copy
import hashlib
import io
import logging
import signal
import traceback
from fractions import Fraction

import numpy as np

from common import frac_str, close

TOL = 1e-9


# ----------------------------------------------------------------------------------------------------------- helpers
@contextlib.contextmanager
def quiet():
    logging.disable(logging.CRITICAL)
    with contextlib.redirect_stdout(io.StringIO()):
        yield


class Timeout(Exception):
    pass


@contextlib.contextmanager
def time_limit(seconds):
    def handler(signum, frame):
        raise Timeout()
    old = signal.signal(signal.SIGALRM, handler)
    signal.alarm(seconds)
    try:
        yield
    finally:
        signal.alarm(0)
        signal.signal(signal.SIGALRM, old)


def fr(x):
    return Fraction(float(x))


def vec(x, outl):
    """numpy result -> list of Fractions of length outl (python int 0 of an untouched container broadcasts)"""
    arr = np.asarray(x, dtype=float).reshape(-1)
    if arr.size == 1 and outl > 1:
        arr = np.repeat(arr, outl)
    return [fr(v) for v in arr]


def vclose(u, v, tol=TOL):
    return len(u) == len(v) and all(close(a, b, tol) for a, b in zip(u, v))


def fl(v):
    return [float(x) for x in v]


def sclose(u, v, scale, tol=TOL):
    """|u_k - v_k| <= tol * scale_k, scale_k = size of the summands the value is made of (sum |c| |Q|).  An absolute floor such as
    max(1, |v|) would accept ANY value for data of size 1e-12 (tiny boxes); with scale 0 the values must be equal."""
    if len(u) != len(v):
        return False
    for x, y, sc in zip(u, v, scale):
        if abs(float(x) - float(y)) > tol * float(sc) and x != y:
            return False
    return True


def int_coeff(c):
    ci = int(round(float(c)))
    if abs(float(c) - ci) > 1e-12:
        raise ValueError("non-integral combination coefficient %r" % (c,))
    return ci


# ----------------------------------------------------------------------------------------------------------- integrands
_EXACT_MEMO = {}


def exact_eval(spec, coords):
    """value of the integrand `spec` at a point, as a list of Fractions (exact in the coordinates' float values); memoised per
    (spec object, point) -- the same points are summed at every stop and by every fresh run"""
    key = (id(spec), tuple(float(c) for c in coords))
    hit = _EXACT_MEMO.get(key)
    if hit is not None and hit[0] is spec:
        return hit[1]
    if len(_EXACT_MEMO) > 400000:
        _EXACT_MEMO.clear()
    val = _exact_eval(spec, coords)
    _EXACT_MEMO[key] = (spec, val)
    return val


def float_eval(spec, coords):
    """what the integrand object handed to the implementation returns: plain double arithmetic for the polynomial kinds (exact on
    the dyadic streams as long as 53 bits suffice), the correctly rounded exact value otherwise"""
    if spec["kind"] in ("poly", "rel"):
        xs = [float(c) for c in coords]
        if spec["kind"] == "rel":
            xs = [(x - a) / (b - a) for x, a, b in zip(xs, spec["a"], spec["b"])]
        out = []
        for terms in spec["terms"]:
            t_sum = 0.0
            for (num, den), exps in terms:
                t = num / den
                for x, e in zip(xs, exps):
                    t *= x ** e
                t_sum += t
            out.append(t_sum)
        return out
    return [float(x) for x in exact_eval(spec, coords)]


def _exact_eval(spec, coords):
    xs = [fr(c) for c in coords]
    out = []
    if spec["kind"] == "table":
        key = ",".join(frac_str(x) for x in xs)
        for k in range(spec["outl"]):
            h = int(hashlib.sha1(("%d|%d|%s" % (spec["seed"], k, key)).encode()).hexdigest()[:8], 16)
            out.append(Fraction((h % 257) - 128, 16))
        return out
    if spec["kind"] == "peak":
        import math
        rel = [(float(x) - a) / (b - a) for x, a, b in zip(xs, spec["a"], spec["b"])]
        for (amp, sharp, centre) in spec["peaks"]:
            out.append(fr(amp * math.exp(-sharp * sum((t - centre) ** 2 for t in rel))))
        return out
    if spec["kind"] == "rel":
        xs = [(x - fr(a)) / (fr(b) - fr(a)) for x, a, b in zip(xs, spec["a"], spec["b"])]
    for terms in spec["terms"]:
        s = Fraction(0)
        for (num, den), exps in terms:
            t = Fraction(num, den)
            for x, e in zip(xs, exps):
                t *= x ** e
            s += t
        out.append(s)
    return out


def gen_symmetric_fspec(r, dim, a, b):
    """integrands that are symmetric in the RELATIVE coordinates of the box: the twin errors of an area are then equal in every
    dimension, so split_single_dim=True splits in several dimensions at once (more than 2 new objects per refinement)"""
    import itertools
    outl = r.choice([1, 1, 2])
    if r.random() < 0.35:
        return {"kind": "peak", "outl": outl, "a": list(a), "b": list(b),
                "peaks": [(r.choice([1.0, 2.0, -1.5]), r.choice([2.0, 4.0, 9.0]), r.choice([0.25, 0.5, 0.7, 1.0])) for _ in range(outl)]}
    terms = []
    for _ in range(outl):
        ts = []
        for base in r.sample([[2] + [0] * (dim - 1), [3] + [0] * (dim - 1), [2] * dim, [3, 1] + [0] * (dim - 2), [4] + [0] * (dim - 1),
                              [1] * dim], r.randint(2, 3)):
            coef = (r.choice([-3, -1, 1, 2, 5]), r.choice([1, 2, 4]))
            for exps in sorted(set(itertools.permutations(base))):
                ts.append((coef, list(exps)))
        terms.append(ts)
    return {"kind": "rel", "outl": outl, "a": list(a), "b": list(b), "terms": terms}


def make_function(spec):
    from sparseSpACE.Function import Function

    class SpecF(Function):
        def __init__(self, spec):
            super().__init__()
            self.spec = spec

        def output_length(self):
            return self.spec["outl"]

        def eval(self, coordinates):
            v = float_eval(self.spec, coordinates)
            return v if len(v) > 1 else v[0]

    return SpecF(spec)


def exact_integral(spec, a, b):
    """exact integral of a polynomial spec over the box (reference solution for DimAdaptiveCombi)"""
    out = []
    for terms in spec["terms"]:
        s = Fraction(0)
        for (num, den), exps in terms:
            t = Fraction(num, den)
            for d, e in enumerate(exps):
                t *= (Fraction(b[d]) ** (e + 1) - Fraction(a[d]) ** (e + 1)) / (e + 1)
            s += t
        out.append(s)
    return out


def gen_fspec(r, dim, allow_table=True, nondyadic=False):
    outl = r.choice([1, 1, 2, 3])
    if allow_table and r.random() < 0.4:
        return {"kind": "table", "outl": outl, "seed": r.randrange(10 ** 6)}
    terms = []
    for _ in range(outl):
        ts = [((r.choice([1, 2, 3, 5, -1, -3]), r.choice([1, 2, 4])), [2] * dim)]  # never exactly integrated by a trapezoid
        for _ in range(r.randint(1, 3)):
            den = r.choice([1, 2, 4, 8]) if not nondyadic else r.choice([3, 5, 10])
            ts.append(((r.choice([-5, -3, -1, 1, 2, 3, 7]), den), [r.randint(0, 3) for _ in range(dim)]))
        terms.append(ts)
    return {"kind": "poly", "outl": outl, "terms": terms}


def gen_box(r, dim, extreme=False):
    if extreme:
        # far from the origin (|a| / (b - a) up to 2^13, both signs) or tiny (width 2^-20 .. 2^-12), non-cubic; dyadic
        if r.random() < 0.5:
            off = r.choice([-1, 1]) * float(2 ** r.choice([10, 12, 13]))
            a = [off + d for d in range(dim)]
            return a, [x + float(r.choice([1, 2, 4])) for x in a]
        w = 2.0 ** -r.choice([12, 16, 20])
        a = [float(r.choice([0, 1, -3])) for _ in range(dim)]
        return a, [x + w * (d + 1) for d, x in enumerate(a)]
    k = r.randrange(4)
    if k == 0:
        return [0.0] * dim, [1.0] * dim
    if k == 1:
        return [-1.0] * dim, [1.0] * dim
    if k == 2:
        return [float(r.choice([0, 1, -2])) for _ in range(dim)], [float(r.choice([2, 3, 4])) for _ in range(dim)]
    return [0.5] * dim, [1.5 + d for d in range(dim)]


def flag(gs, key="boundary"):
    """the boundary flag in the representation the case asks for (bool / numpy.bool_ / 0-1)"""
    v = bool(gs[key])
    rep = gs.get("flagrep", "bool")
    return np.bool_(v) if rep == "np" else (int(v) if rep == "int" else v)


def grid_class(gs):
    import sparseSpACE.Grid as G
    return {"Trapezoidal": G.TrapezoidalGrid, "ClenshawCurtis": G.ClenshawCurtisGrid, "GaussLegendre": G.GaussLegendreGrid,
            "Leja": G.LejaGrid, "Mixed": G.MixedGrid,
            "Lagrange": G.LagrangeGrid, "GlobalTrapezoidal": G.GlobalTrapezoidalGrid, "GlobalHighOrder": G.GlobalHighOrderGrid,
            "GlobalRomberg": G.GlobalRombergGrid, "GlobalBalancedRomberg": G.GlobalBalancedRombergGrid}[gs["name"]]


def grid_kwargs(gs):
    n = gs["name"]
    old = {"integrator": "old"} if gs.get("integrator") == "old" else {}     # the point-wise IntegratorArbitraryGrid
    if n == "Trapezoidal":
        return dict({"boundary": flag(gs), "modified_basis": gs.get("modified", False)}, **old)
    if n == "GlobalTrapezoidal":
        return {"boundary": flag(gs), "modified_basis": gs.get("modified", False)}
    if n == "ClenshawCurtis":
        return dict({"boundary": flag(gs)}, **old)
    if n == "Leja":
        return dict({"boundary": gs["boundary"]}, **old)
    if n == "GaussLegendre":
        return {}
    if n == "Lagrange":
        return {"boundary": gs["boundary"], "p": gs["p"]}
    if n == "GlobalHighOrder":
        return {"boundary": gs["boundary"], "max_degree": gs["max_degree"]}
    if n == "GlobalRomberg":
        return {"boundary": True}
    if n == "GlobalBalancedRomberg":
        return {"boundary": False}
    raise ValueError(n)


def grid_label(gs):
    if gs["name"] == "Mixed":
        return "Mixed[" + ",".join(sp["kind"][0] + ("+" if sp["boundary"] else "-") for sp in gs["grids"]) + "]" + (
            "(set_boundaries)" if gs.get("via_set_boundaries") else "")
    return (gs["name"] + ("(p=%d)" % gs["p"] if "p" in gs else "") + ("(deg=%d)" % gs["max_degree"] if "max_degree" in gs else "") +
            ("(old)" if gs.get("integrator") == "old" else ""))


def is_nodal(gs):
    """integrate == sum_i w_i f(x_i) over get_points_and_weights (not a hierarchical-basis grid)"""
    return gs["name"] != "Lagrange"


def make_grid(gs, a, b, cls=None):
    """fresh grid object of the family described by gs = {"name":..., "boundary":..., ...}.
    name "Mixed": MixedGrid of 1-D grids gs["grids"] = [{"kind": "Trapezoidal"|"ClenshawCurtis", "boundary": bool}, ...] (cycled over
    the dimensions) whose boundary flags may DIFFER per dimension; with gs["via_set_boundaries"] the 1-D grids are built with boundary
    points everywhere and the flags are then installed through the public Grid.set_boundaries()."""
    a = np.array(a, dtype=float)
    b = np.array(b, dtype=float)
    if cls is None and "flagrep" in gs:
        gs = {k: v for k, v in gs.items() if k != "flagrep"}     # independent construction: plain bool flags
    if gs["name"] == "Mixed":
        import sparseSpACE.Grid as G
        kinds = {"Trapezoidal": G.TrapezoidalGrid1D, "ClenshawCurtis": G.ClenshawCurtisGrid1D}
        specs = [gs["grids"][d % len(gs["grids"])] for d in range(len(a))]
        via = bool(gs.get("via_set_boundaries"))
        grids = [kinds[sp["kind"]](a=a[d], b=b[d], boundary=True if via else sp["boundary"]) for d, sp in enumerate(specs)]
        g = (cls or G.MixedGrid)(a, b, grids=grids)
        if via:
            g.set_boundaries([sp["boundary"] for sp in specs])
        return g
    return (cls or grid_class(gs))(a, b, **grid_kwargs(gs))


def rule_sum(points, weights, fspec):
    """own exact summation  sum_i w_i f(x_i)"""
    outl = fspec["outl"]
    tot = [Fraction(0)] * outl
    for p, w in zip(points, weights):
        fv = exact_eval(fspec, p)
        wq = fr(w)
        for k in range(outl):
            tot[k] += wq * fv[k]
    return tot


def rule_abs(points, weights, fspec):
    """sum_i |w_i| |f(x_i)|: the size of the summands of the quadrature sum = the unit in which its rounding error is measured (the
    sum itself may cancel to 0)"""
    outl = fspec["outl"]
    tot = [Fraction(0)] * outl
    for p, w in zip(points, weights):
        fv = exact_eval(fspec, p)
        wq = abs(fr(w))
        for k in range(outl):
            tot[k] += wq * abs(fv[k])
    return tot


def rule_both(points, weights, fspec):
    """(sum_i w_i f(x_i), sum_i |w_i| |f(x_i)|) in one pass"""
    outl = fspec["outl"]
    tot = [Fraction(0)] * outl
    ab = [Fraction(0)] * outl
    for p, w in zip(points, weights):
        fv = exact_eval(fspec, p)
        wq = fr(w)
        for k in range(outl):
            t = wq * fv[k]
            tot[k] += t
            ab[k] += abs(t)
    return tot, ab


def local_component(gs, a, b, lv, start, end, fspec):
    """a fresh local grid of level lv on [start,end]: its (points, weights) and the own sum (nodal families) resp. the
    value a fresh grid object + fresh Function object integrate to (hierarchical-basis families)"""
    g = make_grid(gs, a, b)
    start = np.array(start, dtype=float)
    end = np.array(end, dtype=float)
    lv = [int(x) for x in lv]
    if not is_nodal(gs):
        with quiet():
            v = g.integrate(make_function(fspec), lv, start, end)
            g.setCurrentArea(start, end, lv)
            gp = [tuple(float(c) for c in p) for p in g.getPoints()]
        # hierarchical basis: no nodal weights; unit = volume * max |f| over the grid points (upper bound of the summand size)
        vol = Fraction(1)
        for x, y in zip(start, end):
            vol *= fr(y) - fr(x)
        outl = fspec["outl"]
        mx = [max([abs(exact_eval(fspec, q)[k]) for q in gp] + [Fraction(0)]) for k in range(outl)]
        val = vec(np.array(v, dtype=float), outl)
        return [], [], val, [max(abs(vol) * mx[k], abs(val[k])) for k in range(outl)]
    g.setCurrentArea(start, end, lv)
    pts, ws = g.get_points_and_weights()
    pts = [tuple(float(c) for c in p) for p in pts]
    ws = [float(w) for w in ws]
    tot, ab = rule_both(pts, ws, fspec)
    return pts, ws, tot, ab


def global_component(gs, a, b, coords, levels, fspec):
    g = make_grid(gs, a, b)
    g.set_grid([list(c) for c in coords], [list(l) for l in levels])
    pts, ws = g.get_points_and_weights()
    pts = [tuple(float(c) for c in p) for p in pts]
    ws = [float(w) for w in ws]
    tot, ab = rule_both(pts, ws, fspec)
    return pts, ws, tot, ab


def combine(coeffs, values, outl):
    tot = [Fraction(0)] * outl
    for c, v in zip(coeffs, values):
        for k in range(outl):
            tot[k] += c * v[k]
    return tot


def combine_scale(coeffs, abs_sums, outl):
    """sum_grids |c| * sum_i |w_i| |f(p_i)|  per output component"""
    tot = [Fraction(0)] * outl
    for c, v in zip(coeffs, abs_sums):
        for k in range(outl):
            tot[k] += abs(c) * v[k]
    return tot


# ----------------------------------------------------------------------------------------------------------- model side
def comps_str(comps, k):
    """comps = [(coeff, {areaid: vector})] -> protocol string for output component k"""
    if not comps:
        return "-"
    return ";".join("%d|%s" % (c, ",".join("%d=%s" % (i, frac_str(v[k])) for i, v in sorted(tab.items()))) for c, tab in comps)


def contribs_str(contribs, k):
    if not contribs:
        return "-"
    return ",".join("%d=%s" % (c, frac_str(v[k])) for c, v in contribs)


def nats(l):
    return ",".join(str(int(x)) for x in l) if len(l) else "-"


def es_state_str(integral, cont, areas, start_new, pops, k):
    return "I %s C %s A [%s] S %d P [%s]" % (
        frac_str(integral[k]), frac_str(cont[k]),
        ",".join("%d:%s" % (i, "None" if v is None else frac_str(v[k])) for i, v in areas),
        start_new, ",".join(str(p) for p in pops))


def parse_es_state(s):
    """model state line -> (I, C, [(id, val|None)], S)"""
    t = s.split(" ")
    assert t[0] == "I" and t[2] == "C" and t[4] == "A" and t[6] == "S", s
    areas = []
    body = t[5][1:-1]
    if body:
        for e in body.split(","):
            i, v = e.split(":")
            areas.append((int(i), None if v == "None" else Fraction(v)))
    return Fraction(t[1]), Fraction(t[3]), areas, int(t[7])


def es_state_close(impl, model_line, k, exact, mag=None):
    """compare the implementation's state (vectors of Fractions) with a model state line for output component k; tolerances are
    relative to the largest number of the state (data of size 1e-12 must not pass through an absolute floor)"""
    if es_state_str(*impl, k) == model_line:
        return True
    tol = 1e-12 if exact else TOL      # dyadic stream: equal unless a double rounded (large sums); never looser than 1e-12
    try:
        mi, mc, mareas, ms = parse_es_state(model_line)
    except Exception:
        return False
    integral, cont, areas, start_new, pops = impl
    ref = max([abs(integral[k]), abs(cont[k]), abs(mi), abs(mc)] + [abs(v[k]) for _, v in areas if v is not None] +
              [abs(w) for _, w in mareas if w is not None])
    if mag is not None:                # the largest number the run has produced so far (a result that cancels to a rounding
        mag[0] = max(mag[0], ref)      # residue after all evaluated areas were removed is compared on the run's scale)
        ref = mag[0]

    def near(x, y):
        return x == y or abs(x - y) <= tol * ref
    if not (near(integral[k], mi) and near(cont[k], mc) and ms == start_new and len(areas) == len(mareas)):
        return False
    for (i, v), (j, w) in zip(areas, mareas):
        if i != j or (v is None) != (w is None) or (v is not None and not near(v[k], w)):
            return False
    return True


# =========================================================================================================== MICRO
def micro_env(outl):
    """the real Integration / RefinementContainer / SpatiallyAdaptivBase loop pieces around a table-valued stub grid"""
    from sparseSpACE.spatiallyAdaptiveBase import SpatiallyAdaptivBase
    from sparseSpACE.RefinementContainer import RefinementContainer
    from sparseSpACE.RefinementObject import RefinementObject
    from sparseSpACE.GridOperation import Integration
    from sparseSpACE.ErrorCalculator import ErrorCalculator
    from sparseSpACE.ComponentGridInfo import ComponentGridInfo
    from sparseSpACE.Function import Function

    class StubF(Function):
        def output_length(self):
            return outl

        def eval(self, c):
            return [0.0] * outl

    class StubGrid(object):
        boundary = True

        def __init__(self):
            self.table = {}

        def integrate(self, f, levelvec, start, end):
            return np.array(self.table[(tuple(levelvec), int(start[0]))], dtype=float)

        def levelToNumPoints(self, levelvec):
            return np.ones(len(levelvec), dtype=int)

        def isNested(self):
            return False

        def is_high_order_grid(self):
            return False

        def initialize_grid(self):
            pass

    class StubArea(RefinementObject):
        def __init__(self, aid):
            super().__init__(None)
            self.aid = aid
            self.start = [float(aid)]
            self.end = [float(aid) + 1.0]
            self.dim = 1
            self.evaluations = 0
            self.error = 0.0
            self.benefit = 0.0
            self.children_script = []

        def refine(self):
            return list(self.children_script), None, None

        def update(self, info):
            pass

    class ZeroError(ErrorCalculator):
        def calc_error(self, refine_object, norm, volume_weights=None):
            return 0.0

    class Micro(SpatiallyAdaptivBase):
        def __init__(self, op):
            super().__init__([0.0], [1.0], operation=op)
            self.print_output = False
            self.recalculate_frequently = False
            self.refinements = 0
            self.counter = 1
            self.errorEstimator = ZeroError()

        def coarsen_grid(self, levelvector, area):
            return list(levelvector), (tuple(levelvector), area.aid) in self.grid.table

        def initialize_grid(self):
            pass

        def initialize_refinement(self):
            pass

        def get_points_component_grid(self, levelvec):
            return []

        def do_refinement(self, area, position):
            self.refinement.refine(position)
            return False

    grid = StubGrid()
    op = Integration(StubF(), grid=grid, dim=1)
    st = Micro(op)
    return st, op, grid, StubArea, RefinementContainer, ComponentGridInfo, ZeroError


def micro_impl_state(st, op, outl):
    rc = st.refinement
    return (vec(op.get_result(), outl), vec(rc.value, outl),
            [(a.aid, None if a.value is None else vec(a.value, outl)) for a in rc.get_objects()],
            int(rc.startNewObjects), [int(p) for p in rc.popArray])


def dyadic(r, outl):
    return [Fraction(r.randint(-64, 64), r.choice([1, 2, 4, 8])) for _ in range(outl)]


def gen_micro_ops(r, n_ops):
    """a random history; ids are serial numbers.  The generator simulates which positions carry a value so that most
    removals are valid (85%); the rest pops arbitrary positions (new / never evaluated areas raise in the container)"""
    ops = []
    next_id = r.randint(1, 4)
    ops.append({"op": "init", "ids": list(range(next_id))})
    valued = [False] * next_id
    start_new = 0

    def scheme():
        sch = []
        for j in range(r.randint(0, 4)):
            sch.append({"lv": [j + 1, r.randint(1, 3)], "c": r.choice([1, 1, -1, -1, 2, -2, 3, 0])})
        return sch
    for _ in range(n_ops):
        x = r.random()
        n = len(valued)
        if x < 0.43:
            ops.append({"op": "eval", "scheme": scheme(), "pnone": r.choice([0.0, 0.2, 0.5])})
            for i in range(min(start_new, n), n):
                valued[i] = True
            start_new = n                   # evaluate_operation ends with clear_new_objects()
        elif x < 0.87:
            cand = [i for i in range(n) if valued[i]] if r.random() < 0.93 else list(range(n))
            k = r.randint(0, min(3, len(cand)))
            pops = sorted(r.sample(cand, k))
            adds = []
            for _p in pops:
                m = r.choice([0, 1, 2, 2, 4])
                adds.append(list(range(next_id, next_id + m)))
                next_id += m
            recalc = r.random() < 0.12      # the recalculate_frequently branch at the end of refine()
            ops.append({"op": "refine", "pops": pops, "adds": adds, "recalc": recalc})
            if any(not valued[p] for p in pops):
                break                       # raises in apply_remove; the history ends here
            start_new = 0 if recalc else n - len(pops)
            valued = [v for i, v in enumerate(valued) if i not in pops] + [False] * sum(len(a) for a in adds)
        elif x < 0.975:
            sch = scheme()
            pn = r.choice([0.0, 0.3])
            ops.append({"op": "final", "scheme": sch, "pnone": pn})
            if sch and pn == 0.0:
                valued = [True] * n
        else:
            # malformed removal through the container API: duplicates / out of range / arbitrary positions
            pops = [r.randint(0, n + 1) for _ in range(r.randint(1, 3))]
            m = r.randint(0, 2)
            adds = list(range(next_id, next_id + m))
            next_id += m
            ops.append({"op": "rawrefine", "pops": pops, "adds": adds})
            break   # the state after a possibly raising removal is not continued
    return ops


def fill_tables(r, ops, outl):
    """partial results are drawn lazily per (op index, lv, area id) from a seed so that a case is replayable from the dict"""
    seed = r.randrange(10 ** 9)
    for i, o in enumerate(ops):
        if o["op"] in ("eval", "final"):
            o["seed"] = seed + i
    return ops


def table_value(seed, lv, aid, outl):
    h = hashlib.sha1(("%d|%s|%d" % (seed, lv, aid)).encode()).digest()
    return [Fraction(int.from_bytes(h[2 * k:2 * k + 2], "big") % 129 - 64, [1, 2, 4, 8][h[10 + k] % 4]) for k in range(outl)]


def table_present(seed, lv, aid, pnone):
    h = hashlib.sha1(("p%d|%s|%d" % (seed, lv, aid)).encode()).digest()
    return (h[0] / 256.0) >= pnone


def run_micro(ctx, drv, case, variant):
    """execute case["ops"] on the implementation, then replay on the model per output component; returns ok"""
    outl = case["outl"]
    st, op, grid, StubArea, RefinementContainer, CGI, ZeroError = micro_env(outl)
    trace = []          # per op: (model line(s) to send per component k -> fn, impl state or "raise")
    areas_by_id = {}
    ok = True
    for o in case["ops"]:
        kind = o["op"]
        try:
            with quiet():
                if kind == "init":
                    lines = lambda k, o=o: ["es-init " + nats(o["ids"])]
                    objs = [StubArea(i) for i in o["ids"]]
                    for a in objs:
                        areas_by_id[a.aid] = a
                    op.initialize()
                    st.refinement = RefinementContainer(objs, 1, ZeroError())
                elif kind in ("eval", "final"):
                    st.scheme = [CGI(list(e["lv"]), e["c"]) for e in o["scheme"]]
                    grid.table = {}
                    comps = []
                    all_ids = sorted(areas_by_id)
                    for e in o["scheme"]:
                        tab = {}
                        for aid in all_ids:
                            if table_present(o["seed"], e["lv"], aid, o["pnone"]):
                                v = table_value(o["seed"], e["lv"], aid, outl)
                                tab[aid] = v
                                grid.table[(tuple(e["lv"]), aid)] = [float(x) for x in v]
                        comps.append((e["c"], tab))
                    if kind == "eval":
                        lines = lambda k, comps=comps: ["es-eval " + comps_str(comps, k)]
                        st.evaluate_operation()
                    else:
                        name = "es-final" if variant == "as-coded" else "es-final-reset"
                        lines = lambda k, comps=comps, name=name: [name + " " + comps_str(comps, k)]
                        res, _n = st.evaluate_final_combi()
                elif kind == "refine":
                    objs = st.refinement.get_objects()
                    flat = []
                    for pos, new in zip(o["pops"], o["adds"]):
                        kids = [StubArea(i) for i in new]
                        for a in kids:
                            areas_by_id[a.aid] = a
                        objs[pos].children_script = kids
                        flat.extend(new)
                    for i, a in enumerate(objs):
                        a.benefit = 1.0 if i in o["pops"] else 0.0
                    st.benefit_max = 1.0
                    lines = lambda k, o=o, flat=flat: (["es-refine %s %s" % (nats(o["pops"]), nats(flat))] +
                                                       (["es-reinit"] if o.get("recalc") else []))
                    st.recalculate_frequently = bool(o.get("recalc"))
                    st.counter = -1         # with recalculate_frequently: `refinements / refinements_for_recalculate > counter` holds
                    st.refine()             # the REAL refine(): clear_new_objects, container.refine, refinement_postprocessing,
                    st.recalculate_frequently = False    # and (if set) reinit_new_objects + reset_result
                elif kind == "rawrefine":
                    rc = st.refinement
                    rc.clear_new_objects()
                    for p in o["pops"]:
                        rc.prepare_remove(p)
                    kids = [StubArea(i) for i in o["adds"]]
                    for a in kids:
                        areas_by_id[a.aid] = a
                    rc.add(kids)
                    lines = lambda k, o=o: ["es-refine %s %s" % (nats(o["pops"]), nats(o["adds"]))]
                    st.refinement_postprocessing()   # the REAL apply_remove + process_removed_objects
                else:
                    raise ValueError(kind)
            trace.append((lines, micro_impl_state(st, op, outl)))
            ctx.count("micro_op_" + kind)
        except (IndexError, TypeError) as e:
            trace.append((lines, "raise"))
            ctx.count("micro_raise_" + type(e).__name__)
            break
        except Exception:
            # k: any other exception of the implementation on a history of valid calls is a violation with this very case as replay
            ctx.violation("exception", {"strategy": "micro", "where": kind}, case, {"trace": traceback.format_exc()[-1500:]})
            return False
    for k in range(outl):
        for (lines, impl) in trace:
            out = None
            for l in lines(k):
                out = drv.ask(l)
                if out == "raise":
                    break
            expect = "raise" if impl == "raise" else es_state_str(*impl, k)
            if out != expect:
                ok = False
                ctx.corr_break("C05/micro-state", case, {"component": k, "impl": expect[:300], "model": (out or "")[:300]})
                break
        if not ok:
            break
    # oracle on the stub: after a loop-shaped history the reported value equals the sum of the current area values
    return ok


def detect_variant(ctx, drv):
    """does evaluate_final_combi() add to the accumulated result (code as delivered) or reset first (C05-fix-1)?"""
    st, op, grid, StubArea, RefinementContainer, CGI, ZeroError = micro_env(1)
    with quiet():
        op.initialize()
        st.refinement = RefinementContainer([StubArea(0)], 1, ZeroError())
        st.scheme = [CGI([1, 1], 1)]
        grid.table = {((1, 1), 0): [1.0]}
        st.evaluate_operation()
        res, _ = st.evaluate_final_combi()
    v = float(np.asarray(res).reshape(-1)[0])
    if v == 2.0:
        return "as-coded"
    if v == 1.0:
        return "reset"
    ctx.corr_break("C05/final-combi-variant", {"probe": "one area, one component, value 1"}, {"impl": v, "model": "1 or 2"})
    return "as-coded"


# =========================================================================================================== MACRO
def scheme_of(obj):
    return [(tuple(int(x) for x in cg.levelvector), int_coeff(cg.coefficient)) for cg in obj.scheme]


# ---------------------------------------------------------------------------------------------------- standard combination
def case_standard(ctx, drv, case):
    from sparseSpACE.StandardCombi import StandardCombi
    from sparseSpACE.GridOperation import Integration
    dim, a, b, gs, fspec = case["dim"], case["a"], case["b"], case["grid"], case["f"]
    outl = fspec["outl"]
    f = make_function(fspec)
    if case.get("no_cache"):
        f.deactivate_caching()                      # rarely used toggle: the result must not depend on the function cache
    op = Integration(f, grid=make_grid(gs, a, b, cls=grid_class(gs)), dim=dim)
    an, bn = np.array(a, dtype=float), np.array(b, dtype=float)
    sc = StandardCombi(an, bn, operation=op, print_output=False)

    def expected_scheme(lmin, lmax):
        # the standard scheme of the REQUEST, from a fresh CombiScheme object (not what the object under test remembers)
        from sparseSpACE.combiScheme import CombiScheme
        with quiet():
            return sorted((tuple(int(x) for x in g.levelvector), int_coeff(g.coefficient))
                          for g in CombiScheme(dim).getCombiScheme(lmin, lmax, do_print=False))
    tags = {"strategy": "standard", "grid": gs["name"], "resumed": False}
    try:
        with quiet():
            _, _, res = sc.perform_operation(case["lmin"], case["lmax"])
            reported = vec(np.array(res), outl)
            pts, ws = sc.get_points_and_weights()
    except Exception:
        ctx.violation("exception", dict(tags, where="perform_operation"), case, {"trace": traceback.format_exc()[-1500:]})
        return False
    ok = True
    sch = scheme_of(sc)
    if sorted(sch) != expected_scheme(case["lmin"], case["lmax"]):
        ok = False
        ctx.violation("scheme-of-request", tags, case, {"object": str(sorted(sch))[:300], "fresh": str(expected_scheme(case["lmin"], case["lmax"]))[:300]})
    rules = [local_component(gs, a, b, lv, a, b, fspec) for lv, _ in sch]
    indep = combine([c for _, c in sch], [r[2] for r in rules], outl)
    scale = combine_scale([c for _, c in sch], [r[3] for r in rules], outl)
    if not sclose(reported, indep, scale):
        ok = False
        ctx.violation("reported-vs-independent", tags, case, {"reported": fl(reported), "independent": fl(indep)})
    # (d) public points and combined weights
    pw = rule_sum([tuple(float(c) for c in p) for p in pts], [float(w) for w in ws], fspec)
    if not sclose(reported, pw, scale):
        ok = False
        ctx.violation("points-weights", tags, case, {"reported": fl(reported), "sum_w_f": fl(pw), "n": len(ws)})
    # object history / aliasing: the query is repeatable, does not alias internal state (the caller overwrites what it got), does not
    # touch the stored result, and the caller's box arrays are left alone
    pts0, ws0 = np.array(pts, dtype=float), np.array(ws, dtype=float)
    try:
        with quiet():
            pts_b, ws_b = sc.get_points_and_weights()
            same1 = np.array_equal(np.asarray(pts_b, dtype=float), pts0) and np.array_equal(np.asarray(ws_b, dtype=float), ws0)
            for arr in (pts, ws, pts_b, ws_b):
                if isinstance(arr, np.ndarray) and arr.size:
                    arr[...] = 0
            pts_c, ws_c = sc.get_points_and_weights()
            same2 = np.array_equal(np.asarray(pts_c, dtype=float), pts0) and np.array_equal(np.asarray(ws_c, dtype=float), ws0)
            after = vec(np.array(op.get_result()), outl)
        if not (same1 and same2):
            ok = False
            ctx.violation("points-weights", dict(tags, repeated_query=True), case,
                          {"second_query_equal": bool(same1), "query_after_caller_overwrote_arrays_equal": bool(same2)})
        if after != reported or not (np.array_equal(an, np.array(a, dtype=float)) and np.array_equal(bn, np.array(b, dtype=float))):
            ok = False
            ctx.violation("query-modifies-state", tags, case, {"reported": fl(reported), "get_result_after_queries": fl(after),
                                                                "a": [float(x) for x in an], "b": [float(x) for x in bn]})
    except Exception:
        ctx.violation("exception", dict(tags, where="get_points_and_weights-repeat"), case, {"trace": traceback.format_exc()[-1500:]})
        ok = False
    # ONE object, several requests: another level on the same object, then the first request again (bit-identical)
    try:
        lmax2 = case["lmax"] - 1 if case["lmax"] > case["lmin"] else case["lmax"] + 1
        with quiet():
            _, _, res2 = sc.perform_operation(case["lmin"], lmax2)
        res2 = vec(np.array(res2), outl)
        sch2 = expected_scheme(case["lmin"], lmax2)
        if sorted(scheme_of(sc)) != sch2:
            ok = False
            ctx.violation("scheme-of-request", dict(tags, resumed=True), dict(case, second_lmax=lmax2),
                          {"object": str(sorted(scheme_of(sc)))[:300], "fresh": str(sch2)[:300]})
        known = {lv: r for (lv, _), r in zip(sch, rules)}
        rules2 = [known[lv] if lv in known else local_component(gs, a, b, lv, a, b, fspec) for lv, _ in sch2]
        indep2 = combine([c for _, c in sch2], [r[2] for r in rules2], outl)
        scale2 = combine_scale([c for _, c in sch2], [r[3] for r in rules2], outl)
        if not sclose(res2, indep2, scale2):
            ok = False
            ctx.violation("reported-vs-independent", dict(tags, resumed=True), dict(case, second_lmax=lmax2),
                          {"reported_second_request": fl(res2), "independent": fl(indep2)})
        with quiet():
            _, _, res3 = sc.perform_operation(case["lmin"], case["lmax"])
        res3 = vec(np.array(res3), outl)
        if res3 != reported:
            ok = False
            ctx.violation("reported-vs-independent", dict(tags, resumed=True), dict(case, second_lmax=lmax2),
                          {"reported_first": fl(reported), "reported_again_after_other_request": fl(res3), "independent": fl(indep)})
    except Exception:
        ctx.violation("exception", dict(tags, where="perform_operation-2"), case, {"trace": traceback.format_exc()[-1500:]})
        ok = False
    # model: standard run on the observed component values; combined rule
    for k in range(outl):
        m = Fraction(drv.ask("std " + contribs_str([(c, r[2]) for (_, c), r in zip(sch, rules)], k)))
        if not sclose([reported[k]], [m], [scale[k]]):
            ok = False
            ctx.corr_break("C05/std-value", case, {"component": k, "impl": float(reported[k]), "model": float(m)})
        if reported[k] == m:
            ctx.count("exact_match")
        else:
            ctx.count("tolerance_match")
    allpts = {}
    for r in rules:
        for p in r[0]:
            allpts[p] = exact_eval(fspec, p)
    if len(allpts) <= 1500:
        for k in range(min(outl, 2)):
            line = "pw %s %s" % (
                ";".join("%d|%s" % (c, "|".join("%s:%s" % (",".join(frac_str(x) for x in p), frac_str(w)) for p, w in zip(r[0], r[1])))
                         for (_, c), r in zip(sch, rules)),
                "|".join("%s=%s" % (",".join(frac_str(x) for x in p), frac_str(v[k])) for p, v in allpts.items()))
            out = drv.ask(line)
            try:
                wpart, vpart = out[2:].split(" V ")
                mw = [Fraction(x) for x in wpart[1:-1].split(",")] if wpart != "[]" else []
                mv = Fraction(vpart)
                good = (len(mw) == len(ws0) and all(abs(fr(w) - x) <= Fraction(1, 10 ** 12) * abs(x) for w, x in zip(ws0, mw)) and
                        sclose([pw[k]], [mv], [scale[k]]))
            except Exception:
                good = False
            if not good:
                ok = False
                ctx.corr_break("C05/points-weights", case, {"component": k, "impl_n": len(ws0), "model": out[:200]})
    ctx.count("std_components", len(sch))
    ctx.count("std_grid_" + grid_label(gs))
    ctx.count("std_negative_combined_component_weights", sum(1 for r_ in rules for w in r_[1] if w < 0))
    return ok


# ---------------------------------------------------------------------------------------------------- dimension-adaptive
def da_run(case, max_points):
    from sparseSpACE.DimAdaptiveCombi import DimAdaptiveCombi
    from sparseSpACE.GridOperation import Integration
    import sparseSpACE.Grid as G
    dim, a, b, gs, fspec = case["dim"], case["a"], case["b"], case["grid"], case["f"]

    class RecTrap(G.TrapezoidalGrid):
        def integrate(self, f, levelvec, start, end):
            r = super().integrate(f, levelvec, start, end)
            self.calls.append(tuple(int(x) for x in levelvec))
            return r
    grid = RecTrap(np.array(a, dtype=float), np.array(b, dtype=float), boundary=flag(gs))
    grid.calls = []
    ref = np.array([float(x) for x in exact_integral(fspec, a, b)])
    fobj = make_function(fspec)
    if case.get("no_cache"):
        fobj.deactivate_caching()
    op = Integration(fobj, grid=grid, dim=dim, reference_solution=ref)
    da = DimAdaptiveCombi(np.array(a), np.array(b), op)
    with quiet(), time_limit(30):
        scheme, err, res, errors, num_points = da.perform_combi(1, 2, -1.0, max_number_of_points=max_points)
    return da, vec(np.array(res), fspec["outl"]), scheme_of(da), list(grid.calls), list(num_points), len(errors)


def case_dimadaptive(ctx, drv, case):
    dim, a, b, gs, fspec = case["dim"], case["a"], case["b"], case["grid"], case["f"]
    outl = fspec["outl"]
    tags = {"strategy": "dim-adaptive", "grid": gs["name"], "resumed": False}
    ok = True
    sib = None
    try:
        if case.get("sibling_f"):
            # SIBLING OBJECT with another integrand and equal level vectors works first (class-level / module-level / default-argument
            # caches of component results would leak into the run below); it is checked itself, and again after the main runs
            scase = dict(case, f=case["sibling_f"])
            _, srep, ssch, _, _, _ = da_run(scase, case["max_points"])
            sib = (scase, srep, ssch)
        da, rep_long, sch_long, calls_long, npts, it_long = da_run(case, case["max_points"])
        stops = {it_long: (rep_long, sch_long)}
        for n in sorted(set(npts)):
            _, rep, sch, _, _, it = da_run(case, n - 1)
            stops.setdefault(it, (rep, sch))
        if sib is not None:
            _, srep2, ssch2, _, _, _ = da_run(sib[0], case["max_points"])
            scomp = [local_component(gs, a, b, lv, a, b, sib[0]["f"]) for lv, _ in sib[2]]
            svals = [x[2] for x in scomp]
            sind = combine([c for _, c in sib[2]], svals, sib[0]["f"]["outl"])
            sscale = combine_scale([c for _, c in sib[2]], [x[3] for x in scomp], sib[0]["f"]["outl"])
            if not sclose(sib[1], sind, sscale) or srep2 != sib[1] or ssch2 != sib[2]:
                ok = False
                ctx.violation("reported-vs-independent", dict(tags, sibling=True), case,
                              {"sibling_reported_before": fl(sib[1]), "sibling_reported_after": fl(srep2), "sibling_independent": fl(sind)})
            ctx.count("da_sibling_runs")
    except Timeout:
        ctx.count("da_timeout")
        return True
    except Exception:
        ctx.violation("exception", dict(tags, where="perform_combi"), case, {"trace": traceback.format_exc()[-1500:]})
        return False
    # independent component values
    comp_val = {}
    comp_abs = {}
    for it, (rep, sch) in stops.items():
        for lv, c in sch:
            if lv not in comp_val:
                lc = local_component(gs, a, b, lv, a, b, fspec)
                comp_val[lv] = lc[2]
                comp_abs[lv] = lc[3]
    for it, (rep, sch) in sorted(stops.items()):
        indep = combine([c for _, c in sch], [comp_val[lv] for lv, _ in sch], outl)
        if not sclose(rep, indep, combine_scale([c for _, c in sch], [comp_abs[lv] for lv, _ in sch], outl)):
            ok = False
            ctx.violation("reported-vs-independent", dict(tags, stop=it), dict(case, stop_iteration=it),
                          {"reported": fl(rep), "independent": fl(indep), "scheme": str(sch)[:300]})
        ctx.count("da_stops")
    # model: the dictionary machine over the observed sequence of schemes
    complete = sorted(stops) == list(range(it_long + 1))
    for k in range(outl):
        drv.ask("da-init")
        for lv, v in comp_val.items():
            drv.ask("da-q %s %s" % (",".join(map(str, lv)), frac_str(v[k])))
        out = ""
        for it, (rep, sch) in sorted(stops.items()):
            out = drv.ask("da-iter " + ";".join("%s:%d" % (",".join(map(str, lv)), c) for lv, c in sch))
            try:
                mv = Fraction(out.split(" ")[1])
                good = sclose([rep[k]], [mv], [combine_scale([c for _, c in sch], [comp_abs[lv] for lv, _ in sch], outl)[k]])
            except Exception:
                good = False
            if not good:
                ok = False
                ctx.corr_break("C05/da-value", dict(case, stop_iteration=it), {"component": k, "impl": float(rep[k]), "model": out[:200]})
        keys = out.split(" D ")[1] if " D " in out else ""
        impl_keys = "[" + ",".join("[" + ",".join(map(str, lv)) + "]" for lv in calls_long) + "]"
        if complete and keys != impl_keys:
            ok = False
            ctx.corr_break("C05/da-dict-keys", case, {"impl_integrate_calls": impl_keys[:300], "model_dict": keys[:300]})
        if not complete:
            ctx.count("da_incomplete_iteration_sequence")
    if len(set(calls_long)) != len(calls_long):
        ok = False
        ctx.violation("component-computed-twice", tags, case, {"calls": str(calls_long)[:300]})
    return ok


# ---------------------------------------------------------------------------------------------------- adaptive strategies
def rec_classes():
    import sparseSpACE.Grid as G
    from sparseSpACE.GridOperation import Integration
    from sparseSpACE.spatiallyAdaptiveExtendSplit import SpatiallyAdaptiveExtendScheme
    from sparseSpACE.spatiallyAdaptiveSingleDimension2 import SpatiallyAdaptiveSingleDimensions2

    def rec_grid(base):
        class RecGrid(base):
            last = None

            def integrate(self, f, levelvec, start, end):
                r = super().integrate(f, levelvec, start, end)
                self.last = np.array(r, dtype=float)
                return r
        RecGrid.__name__ = "Rec" + base.__name__
        return RecGrid

    class RecIntegration(Integration):
        """records the partial result of every accumulation call"""
        rec = None

        def evaluate_area(self, area, levelvector, componentgrid_info, refinement_container, additional_info,
                          apply_to_combi_result=True):
            ev = super().evaluate_area(area, levelvector, componentgrid_info, refinement_container, additional_info,
                                       apply_to_combi_result)
            if self.rec is not None:
                self.rec.append((area, tuple(int(x) for x in componentgrid_info.levelvector),
                                 int_coeff(componentgrid_info.coefficient), np.array(self.grid.last), apply_to_combi_result))
            return ev

        def calculate_operation_dimension_wise(self, gridPointCoordsAsStripes, grid_point_levels, component_grid):
            super().calculate_operation_dimension_wise(gridPointCoordsAsStripes, grid_point_levels, component_grid)
            if self.rec is not None:
                self.rec.append((None, tuple(int(x) for x in component_grid.levelvector),
                                 int_coeff(component_grid.coefficient), np.array(self.grid.last), True))

    class RecMixin(object):
        def rec_init(self):
            self.oplog = []
            self.serial = {}

        def aid(self, area):
            if id(area) not in self.serial:
                self.serial[id(area)] = (len(self.serial), area)
            return self.serial[id(area)][0]

        def snapshot(self):
            outl = self.operation.f.output_length()
            rc = self.refinement
            if hasattr(rc, "refinementContainers"):
                return (vec(self.operation.get_result(), outl), vec(rc.value, outl), [], 0, [])
            return (vec(self.operation.get_result(), outl), vec(rc.value, outl),
                    [(self.aid(a), None if a.value is None else vec(a.value, outl)) for a in rc.get_objects()],
                    int(rc.startNewObjects), [int(p) for p in rc.popArray])

        def init_adaptive_combi(self, lmin, lmax, refinement_container, tol):
            super().init_adaptive_combi(lmin, lmax, refinement_container, tol)
            if refinement_container is not None:
                self.oplog.append({"op": "reinit", "after": self.snapshot()})       # resume with a container: everything is new again
            elif self.oplog:
                snap = self.snapshot()                                              # a second run on the same object
                if getattr(self, "split_single_dim", False):     # provisional twin-error values of the initial areas, see refine()
                    snap = (snap[0], snap[1], [(i, None) for i, _ in snap[2]], snap[3], snap[4])
                self.oplog.append({"op": "init", "after": snap})

        def evaluate_operation(self):
            self.operation.rec = []
            r = super().evaluate_operation()
            self.oplog.append({"op": "eval", "scheme": scheme_of(self), "calls": self.operation.rec, "after": self.snapshot()})
            self.operation.rec = None
            return r

        def evaluate_final_combi(self):
            self.operation.rec = []
            r = super().evaluate_final_combi()
            self.oplog.append({"op": "final", "scheme": scheme_of(self), "calls": self.operation.rec, "after": self.snapshot()})
            self.operation.rec = None
            return r

        def refine(self):
            rc = self.refinement
            if hasattr(rc, "refinementContainers"):
                return super().refine()
            before = list(rc.get_objects())
            for a in before:
                self.aid(a)
            counter = self.counter
            super().refine()
            after = list(rc.get_objects())
            pops = [i for i, o in enumerate(before) if not any(o is x for x in after)]
            adds = [self.aid(o) for o in after if not any(o is x for x in before)]
            snap = self.snapshot()
            if getattr(self, "split_single_dim", False):
                # calculate_new_twin_errors evaluates the NEW areas with apply_to_combi_result=False: they carry provisional values
                # that area_preprocessing overwrites before the next evaluation; the model keeps them `None` until then
                new_ids = set(adds)
                snap = (snap[0], snap[1], [(i, None if i in new_ids else v) for i, v in snap[2]], snap[3], snap[4])
            if self.counter != counter:
                # recalculate_frequently: refine() ended with refinement.reinit_new_objects(); the state between the removal
                # and the reinit is not observable, the model executes both and is compared after the second
                outl = self.operation.f.output_length()
                re_added = [Fraction(0)] * outl
                for a in after:
                    if a.value is not None and any(a is x for x in before):    # new areas may carry provisional twin-error values
                        re_added = [x + y for x, y in zip(re_added, vec(a.value, outl))]
                self.re_added = [x + y for x, y in zip(getattr(self, "re_added", [Fraction(0)] * outl), re_added)]
                self.oplog.append({"op": "refine+reinit", "pops": pops, "adds": adds, "after": snap})
            else:
                self.oplog.append({"op": "refine", "pops": pops, "adds": adds, "after": snap})

    class RecES(RecMixin, SpatiallyAdaptiveExtendScheme):
        pass

    class RecDW(RecMixin, SpatiallyAdaptiveSingleDimensions2):
        pass

    return rec_grid, RecIntegration, RecES, RecDW


def adaptive_objects(case):
    """strategy object + error calculator for a case (all non-default options of the case forwarded through the public constructors)"""
    from sparseSpACE.ErrorCalculator import ErrorCalculatorExtendSplit, ErrorCalculatorSingleDimVolumeGuided
    rec_grid, RecIntegration, RecES, RecDW = rec_classes()
    dim, a, b, gs, fspec = case["dim"], case["a"], case["b"], case["grid"], case["f"]
    an, bn = np.array(a, dtype=float), np.array(b, dtype=float)
    f = make_function(fspec)
    if case.get("no_cache"):
        f.deactivate_caching()              # rarely used toggle, before the run
    grid = make_grid(gs, a, b, cls=rec_grid(grid_class(gs)))
    if case["strategy"] == "extend-split":
        op = RecIntegration(f, grid=grid, dim=dim)
        s = RecES(an, bn, operation=op, version=0, automatic_extend_split=bool(case.get("automatic")),
                  split_single_dim=bool(case.get("split_single_dim")),
                  number_of_refinements_before_extend=case.get("refinements_before_extend", 1))
        ec = ErrorCalculatorExtendSplit()
    else:
        ref = None
        if case.get("reference") and fspec["kind"] == "poly":
            ref = np.array([float(x) for x in exact_integral(fspec, a, b)])
        op = RecIntegration(f, grid=grid, dim=dim, reference_solution=ref)
        s = RecDW(an, bn, operation=op, version=case["version"], rebalancing=case.get("rebalancing", True),
                  **case.get("dw_options", {}))   # default grid_surplusses
        ec = ErrorCalculatorSingleDimVolumeGuided()
    s.rec_init()
    s.box_arrays = (an, bn)
    if case.get("recalc"):
        s.refinements_for_recalculate = case["recalc"]      # public attribute; the default 100 is out of reach of small runs
    return s, ec


def perform(s, ec, case, limit, reevaluate=False, container=None):
    kw = {}
    if case.get("evaluation_points"):
        kw["evaluation_points"] = [tuple(p) for p in case["evaluation_points"]]
    with quiet(), time_limit(60):
        r = s.performSpatiallyAdaptiv(case["lmin"], case["lmax"], ec, tol=-1.0, max_evaluations=limit,
                                      print_output=False, reevaluate_at_end=reevaluate, refinement_container=container,
                                      recalculate_frequently=bool(case.get("recalc") or case.get("recalc_default")), **kw)
    return r


def build_adaptive(case, reevaluate=False):
    s, ec = adaptive_objects(case)
    s.ec = ec
    r = perform(s, ec, case, case["stops"][0], reevaluate)
    s.last_return = r
    return s, np.array(r[3], dtype=float)


def independent_adaptive(s, case):
    """(a): fresh grid objects, the operation applied to every component grid of the CURRENT scheme (per leaf area for
    extend-split through coarsen_grid on a stand-in area), own summation"""
    from sparseSpACE.RefinementObject import RefinementObjectExtendSplit
    dim, a, b, gs, fspec = case["dim"], case["a"], case["b"], case["grid"], case["f"]
    outl = fspec["outl"]
    sch = scheme_of(s)
    tot = [Fraction(0)] * outl
    scale = [Fraction(0)] * outl
    n = 0
    if case["strategy"] == "extend-split":
        for area in s.refinement.get_objects():
            standin = RefinementObjectExtendSplit(np.array(area.start), np.array(area.end), make_grid(gs, a, b),
                                                  coarseningValue=area.coarseningValue)
            for lv, c in sch:
                mod, do = s.coarsen_grid(list(lv), standin)
                if do:
                    lc = local_component(gs, a, b, mod, area.start, area.end, fspec)
                    v = lc[2]
                    n += 1
                    for k in range(outl):
                        tot[k] += c * v[k]
                        scale[k] += abs(c) * lc[3][k]
    else:
        for lv, c in sch:
            coords, levels, _ = s.get_point_coord_for_each_dim(list(lv))
            gc = global_component(gs, a, b, coords, levels, fspec)
            v = gc[2]
            n += 1
            for k in range(outl):
                tot[k] += c * v[k]
                scale[k] += abs(c) * gc[3][k]
    independent_adaptive.scale = scale
    return tot, n


def replay_on_model(ctx, drv, s, case, variant, exact, floor=None):
    """the recorded run (add/remove history + the partial results actually used) must drive the model to the same state after
    every operation"""
    outl = case["f"]["outl"]
    log = s.oplog
    ok = True
    for k in range(outl):
        mag = [Fraction(floor[k]) if floor is not None else Fraction(0)]   # never below the summand size sum |c| sum |w||f|
        if case["strategy"] == "extend-split":
            first = log[0]
            init_ids = sorted({s.aid(c[0]) for c in first["calls"]} | {i for i, _ in first["after"][2]})
            # all initial objects are new at the first evaluation; ids = order of the container
            init_ids = [i for i, _ in first["after"][2]]
            drv.ask("es-init " + nats(init_ids))
        for j, e in enumerate(log):
            if case["strategy"] == "extend-split":
                if e["op"] in ("eval", "final"):
                    comps = []
                    for lv, c in e["scheme"]:
                        tab = {}
                        for (area, clv, cc, part, apply) in e["calls"]:
                            if clv == lv and apply:
                                tab[s.aid(area)] = vec(part, outl)
                                mag[0] = max(mag[0], abs(cc * tab[s.aid(area)][k]))    # rounding happens on the scale of the summands
                        comps.append((c, tab))
                    name = "es-eval" if e["op"] == "eval" else ("es-final" if variant == "as-coded" else "es-final-reset")
                    out = drv.ask(name + " " + comps_str(comps, k))
                elif e["op"] == "init":
                    out = drv.ask("es-init " + nats([i for i, _ in e["after"][2]]))
                elif e["op"] == "reinit":
                    out = drv.ask("es-reinit")
                else:
                    out = drv.ask("es-refine %s %s" % (nats(e["pops"]), nats(e["adds"])))
                    if e["op"] == "refine+reinit" and out != "raise":
                        out = drv.ask("es-reinit")
                good = es_state_close(e["after"], out, k, exact, mag)
                impl_s = es_state_str(*e["after"], k)
            else:
                if e["op"] not in ("eval", "final"):
                    continue
                contribs = [(cc, vec(part, outl)) for (_a, _lv, cc, part, _ap) in e["calls"]]
                name = "dw-eval" if e["op"] == "eval" else ("dw-final" if variant == "as-coded" else "dw-final-reset")
                out = drv.ask(name + " " + contribs_str(contribs, k))
                impl_s = "I %s C %s" % (frac_str(e["after"][0][k]), frac_str(e["after"][1][k]))
                try:
                    t = out.split(" ")
                    tol = 1e-12 if exact else TOL
                    ref = max(sum(abs(cc * p[k]) for cc, p in contribs), mag[0])
                    good = out == impl_s or (abs(e["after"][0][k] - Fraction(t[1])) <= tol * ref and
                                             abs(e["after"][1][k] - Fraction(t[3])) <= tol * ref)
                except Exception:
                    good = False
            if not good:
                ok = False
                ctx.corr_break("C05/run-state", dict(case, op_index=j, op=e["op"]), {"component": k, "impl": impl_s[:300], "model": out[:300]})
                break
        if not ok:
            break
    return ok


def case_adaptive(ctx, drv, case, variant):
    strategy = case["strategy"]
    fspec = case["f"]
    outl = fspec["outl"]
    exact = (case["grid"]["name"] in ("Trapezoidal", "GlobalTrapezoidal") and not case["grid"].get("modified") and
             (fspec["kind"] == "table" or (fspec["kind"] == "poly" and
                                           all(den in (1, 2, 4, 8) for terms in fspec["terms"] for (num, den), _ in terms))))
    base_tags = {"strategy": strategy, "grid": case["grid"]["name"], "recalculate_frequently": bool(case.get("recalc")),
                 "automatic_extend_split": bool(case.get("automatic")), "split_single_dim": bool(case.get("split_single_dim"))}
    ok = True
    cur = {"scale": [Fraction(1)] * outl}

    def vclose(u, v):          # relative to the size of the summands of the current independent recomputation
        return sclose(u, v, cur["scale"])

    def fail(probe, tags, detail, stop):
        nonlocal ok
        if ctx.violation(probe, dict(base_tags, **tags), dict(case, at_stop=stop), detail):
            ok = False

    def bookkeeping(run, indep, resumed, stop):
        # the partial results named by the property: sum of the area values (extend-split) and the container value
        cv = vec(run.refinement.value, outl)
        sv = indep
        if strategy == "extend-split":
            sv = [Fraction(0)] * outl
            for a in run.refinement.get_objects():
                sv = [x + y for x, y in zip(sv, vec(a.value, outl))]
        if not vclose(sv, indep) or not vclose(cv, indep):
            fail("area-values-vs-independent", {"resumed": resumed},
                 {"sum_area_values": fl(sv), "container_value": fl(cv), "independent": fl(indep)}, stop)

    # ---- chain run: first stop fresh, later stops through continue_adaptive_refinement (resumed)
    try:
        s, rep = build_adaptive(case)
    except Timeout:
        ctx.count("adaptive_timeout")
        return True
    except Exception:
        ctx.violation("exception", dict(base_tags, where="performSpatiallyAdaptiv", resumed=False), case,
                      {"trace": traceback.format_exc()[-1500:]})
        return False
    first_stop_reported = None
    extra = [Fraction(0)] * outl      # what a resumed extend-split run is expected to have counted twice (see C14)
    for si, stop in enumerate(case["stops"]):
        resumed = si > 0
        if resumed:
            if strategy == "extend-split":
                for a in s.refinement.get_new_objects():
                    if a.value is not None:
                        v = vec(a.value, outl)
                        extra = [x + y for x, y in zip(extra, v)]
            if case.get("reset_cache_between"):
                s.operation.f.reset_dictionary()      # rarely used toggle in the middle of a sequence
            try:
                with quiet(), time_limit(60):
                    r = s.continue_adaptive_refinement(tol=-1.0, max_evaluations=stop)
                rep = np.array(r[3], dtype=float)
            except Timeout:
                ctx.count("adaptive_timeout")
                break
            except Exception:
                ctx.violation("exception", dict(base_tags, where="continue_adaptive_refinement", resumed=True), dict(case, at_stop=stop),
                              {"trace": traceback.format_exc()[-1500:]})
                ok = False
                break
        reported = vec(rep, outl)
        if si == 0:
            first_stop_reported = reported
        ctx.count("stops_" + strategy)
        ctx.count("stops_grid_" + grid_label(case["grid"]) + ("_auto" if case.get("automatic") else ""))
        # (a) independent recomputation
        indep, ncomp = independent_adaptive(s, case)
        cur["scale"] = independent_adaptive.scale
        ctx.count("independent_component_evaluations", ncomp)
        # every public route to the reported value; the caller's box arrays are left alone
        routes = {"get_result": vec(s.operation.get_result(), outl), "calculated_solution": vec(s.calculated_solution, outl)}
        an, bn = s.box_arrays
        if any(v != reported for v in routes.values()) or not (np.array_equal(an, np.array(case["a"], dtype=float)) and
                                                               np.array_equal(bn, np.array(case["b"], dtype=float))):
            fail("query-modifies-state", {"resumed": resumed, "where": "routes"},
                 {"reported": fl(reported), "routes": {k: fl(v) for k, v in routes.items()}, "a": fl(an), "b": fl(bn)}, stop)
        if not vclose(reported, indep):
            readd = [x + y for x, y in zip(extra, getattr(s, "re_added", [Fraction(0)] * outl))]
            explained = strategy == "extend-split" and vclose([x - y for x, y in zip(reported, indep)], readd)
            fail("reported-vs-independent", {"resumed": resumed, "excess_is_re_added_new_areas": bool(explained)},
                 {"reported": fl(reported), "independent": fl(indep), "re_added": fl(readd)}, stop)
        else:
            bookkeeping(s, indep, resumed, stop)
        # (b) evaluate_final_combi() on a copy of the run
        try:
            s2 = copy.deepcopy(s)
            with quiet(), time_limit(60):
                fin, _n = s2.evaluate_final_combi()
            fin = vec(np.array(fin, dtype=float), outl)
            # reported == independent was checked above; so "reported equals the from-scratch value" is checked as
            # from-scratch == independent (a resumed extend-split stop, already flagged, is not flagged a second time)
            if not vclose(fin, indep):
                adds = vclose([x - y for x, y in zip(fin, reported)], indep)
                fail("reported-vs-final-combi", {"resumed": resumed, "adds_recomputation_to_accumulated": bool(adds)},
                     {"reported": fl(reported), "evaluate_final_combi": fl(fin), "independent": fl(indep)}, stop)
            if si == len(case["stops"]) - 1:
                s_final_copy = s2
        except Timeout:
            ctx.count("adaptive_timeout")
        except Exception:
            fail("exception", {"where": "evaluate_final_combi", "resumed": resumed}, {"trace": traceback.format_exc()[-1500:]}, stop)
        if case.get("final_on_original"):
            try:
                with quiet(), time_limit(60):
                    f1 = vec(np.array(s.evaluate_final_combi()[0], dtype=float), outl)
                    f2 = vec(np.array(s.evaluate_final_combi()[0], dtype=float), outl)
                if not (vclose(f1, indep) and vclose(f2, indep) and vclose(vec(s.operation.get_result(), outl), indep)):
                    fail("reported-vs-final-combi", {"resumed": resumed, "on_original_twice": True,
                                                     "adds_recomputation_to_accumulated": bool(vclose([x - y for x, y in zip(f1, reported)], indep))},
                         {"reported": fl(reported), "first": fl(f1), "second": fl(f2), "independent": fl(indep)}, stop)
                ctx.count("final_on_original")
            except Timeout:
                ctx.count("adaptive_timeout")
            except Exception:
                fail("exception", {"where": "evaluate_final_combi(original)", "resumed": resumed}, {"trace": traceback.format_exc()[-1500:]}, stop)
        # (d) public points and weights (dimension-wise strategy, nodal grid)
        if strategy == "dimension-wise":
            try:
                with quiet():
                    pts, ws = s.get_points_and_weights()
                pw = rule_sum([tuple(float(c) for c in p) for p in pts], [float(w) for w in ws], fspec)
                if not vclose(pw, reported):
                    fail("points-weights", {"resumed": resumed}, {"reported": fl(reported), "sum_w_f": fl(pw), "n": len(ws)}, stop)
                pts0, ws0 = np.array(pts, dtype=float), np.array(ws, dtype=float)
                for arr in (pts, ws):
                    if isinstance(arr, np.ndarray) and arr.size:
                        arr[...] = 0
                with quiet():
                    pts_b, ws_b = s.get_points_and_weights()
                if not (np.array_equal(np.asarray(pts_b, dtype=float), pts0) and np.array_equal(np.asarray(ws_b, dtype=float), ws0)):
                    fail("points-weights", {"resumed": resumed, "repeated_query": True}, {"n_first": len(ws0), "n_second": len(ws_b)}, stop)
                if vec(s.operation.get_result(), outl) != reported:
                    fail("query-modifies-state", {"resumed": resumed, "where": "get_points_and_weights"},
                         {"reported": fl(reported), "get_result_after_query": fl(vec(s.operation.get_result(), outl))}, stop)
            except Exception:
                fail("exception", {"where": "get_points_and_weights", "resumed": resumed}, {"trace": traceback.format_exc()[-1500:]}, stop)
        # (c) + non-resumed stop: fresh runs to the same limit, without and with re-evaluation at the end
        fcase = dict(case, stops=[stop])
        try:
            if resumed:
                sf, repf = build_adaptive(fcase, reevaluate=False)
            else:
                sf, repf = s, rep            # the fresh run to the first stop IS the chain run up to its first stop
            sg, repg = build_adaptive(fcase, reevaluate=True)
            repf, repg = vec(repf, outl), vec(repg, outl)
            if resumed:
                indf, _ = independent_adaptive(sf, fcase)
                cur["scale"] = independent_adaptive.scale
                if not vclose(repf, indf):
                    readd = getattr(sf, "re_added", [Fraction(0)] * outl)
                    explained = strategy == "extend-split" and vclose([x - y for x, y in zip(repf, indf)], readd)
                    fail("reported-vs-independent", {"resumed": False, "excess_is_re_added_new_areas": bool(explained)},
                         {"reported": fl(repf), "independent": fl(indf), "re_added": fl(readd)}, stop)
                else:
                    bookkeeping(sf, indf, False, stop)
            else:
                indf = indep          # the fresh run to the first stop is the chain run up to its first stop
            if not vclose(repf, repg):
                adds = vclose([x - y for x, y in zip(repg, repf)], indf)
                fail("reevaluate-at-end", {"adds_recomputation_to_accumulated": bool(adds),
                                           "reevaluated_equals_independent": bool(vclose(repg, indf)),
                                           "plain_run_equals_independent": bool(vclose(repf, indf))},
                     {"reevaluate_False": fl(repf), "reevaluate_True": fl(repg), "independent": fl(indf)}, stop)
            if not replay_on_model(ctx, drv, sg, fcase, variant, exact, floor=cur["scale"]):
                ok = False
            if si == 0 and case.get("sibling_f"):
                scase = dict(case, f=case["sibling_f"], stops=[case["stops"][min(1, len(case["stops"]) - 1)]])
                scase.pop("sibling_f")
                if case.get("sibling_box"):
                    scase["a"], scase["b"] = case["sibling_box"]
                    scase.pop("evaluation_points", None)       # they belong to the main run's box
                ss, srep = build_adaptive(scase)
                sind, _ = independent_adaptive(ss, scase)
                if not sclose(vec(srep, scase["f"]["outl"]), sind, independent_adaptive.scale):
                    fail("reported-vs-independent", {"resumed": False, "sibling": True, "excess_is_re_added_new_areas": False},
                         {"sibling_reported": fl(vec(srep, scase["f"]["outl"])), "sibling_independent": fl(sind)}, stop)
                ctx.count("adaptive_sibling_runs")
        except Timeout:
            ctx.count("adaptive_timeout")
        except Exception:
            fail("exception", {"where": "performSpatiallyAdaptiv(reevaluate)", "resumed": False}, {"trace": traceback.format_exc()[-1500:]}, stop)
    # ---- multi-call API sequences on the SAME object: resume with its own refinement container, then a second run from scratch
    for step in ("container_resume", "rerun"):
        if not case.get(step) or not ok:
            continue
        try:
            if step == "container_resume":
                r = perform(s, s.ec, case, case["container_limit"], container=s.refinement)
            else:
                r = perform(s, s.ec, case, case["stops"][0])
            rep2 = vec(np.array(r[3], dtype=float), outl)
            ind2, _ = independent_adaptive(s, case)
            cur["scale"] = independent_adaptive.scale
            if not vclose(rep2, ind2):
                fail("reported-vs-independent", {"resumed": True, "sequence": step, "excess_is_re_added_new_areas": False},
                     {"reported": fl(rep2), "independent": fl(ind2)}, step)
            else:
                bookkeeping(s, ind2, True, step)
            ctx.count("sequence_" + step)
        except Timeout:
            ctx.count("adaptive_timeout")
        except Exception:
            fail("exception", {"where": step, "resumed": True}, {"trace": traceback.format_exc()[-1500:]}, step)
    # ---- model: the whole chain (all evaluations, refinements, the final re-evaluation on the copy)
    if not replay_on_model(ctx, drv, s, case, variant, exact, floor=cur["scale"]):
        ok = False
    ctx.count("recorded_ops_" + strategy, len(s.oplog))
    if case.get("split_single_dim"):
        ctx.count("ssd_cases")
        ctx.count("ssd_refinements_with_more_than_two_new_objects_per_area",
                  sum(1 for e in s.oplog if e["op"].startswith("refine") and e["pops"] and len(e["adds"]) > 2 * len(e["pops"])))
    ctx.count("exact_stream" if exact else "tolerance_stream")
    return ok


# =========================================================================================================== generators
def gen_micro(ctx, thorough):
    r = ctx.rng
    outl = r.choice([1, 1, 2, 3])
    ops = fill_tables(r, gen_micro_ops(r, r.randint(2, 14 if not thorough else 30)), outl)
    return {"kind": "micro", "outl": outl, "ops": ops}


STD_CONFIGS = [   # cycled; "old" = the point-wise integrator; Leja rules have NEGATIVE weights from 1-D level 3 on
    {"name": "Trapezoidal", "boundary": True},
    {"name": "Leja", "boundary": True, "integrator": "old"},
    {"name": "ClenshawCurtis", "boundary": True},
    {"name": "Trapezoidal", "boundary": False},
    {"name": "GaussLegendre", "boundary": True},
    {"name": "Trapezoidal", "boundary": True, "integrator": "old"},
    {"name": "Leja", "boundary": True},
    {"name": "ClenshawCurtis", "boundary": True, "integrator": "old"},
]


def gen_standard(ctx, thorough, index=0):
    r = ctx.rng
    gs = dict(STD_CONFIGS[index % len(STD_CONFIGS)])
    if gs["name"] == "Leja":
        dim, lmin = 2, 1
        lmax = r.choice([3, 3, 4]) if thorough else 3          # negative weights need a 1-D level >= 3
    else:
        dim = r.choice([2, 2, 3])
        lmin = r.choice([1, 1, 2])
        lmax = lmin + r.randint(0, 2 if dim == 2 else 1)
    if thorough and gs["name"] == "Trapezoidal" and r.random() < 0.15:
        dim, lmin, lmax = 4, 1, 2                                                   # g: dimension >= 3, non-cubic boxes
    a, b = gen_box(r, dim, extreme=r.random() < 0.15)                               # e: scale extremes
    if gs["name"] in ("Trapezoidal", "ClenshawCurtis"):
        gs["flagrep"] = r.choice(["bool", "bool", "np", "int"])
    case = {"kind": "standard", "dim": dim, "lmin": lmin, "lmax": lmax, "grid": gs, "a": a, "b": b,
            "f": gen_fspec(r, dim, nondyadic=r.random() < 0.2)}
    if r.random() < 0.15:
        case["no_cache"] = True                                                     # l: rarely used toggle before the run
    return case


def gen_dimadaptive(ctx, thorough):
    r = ctx.rng
    dim = r.choice([2, 2, 3])
    a, b = gen_box(r, dim, extreme=r.random() < 0.1)

    def nonzero_f():
        f = gen_fspec(r, dim, allow_table=False, nondyadic=r.random() < 0.2)
        tries = 0                   # the stopping rule divides by the reference integral
        while any(v == 0 for v in exact_integral(f, a, b)) and tries < 20:
            f = gen_fspec(r, dim, allow_table=False)
            tries += 1
        return f
    case = {"kind": "dim-adaptive", "dim": dim, "grid": {"name": "Trapezoidal", "boundary": True, "flagrep": r.choice(["bool", "np", "int"])},
            "a": a, "b": b, "f": nonzero_f(),
            "max_points": r.choice([30, 60, 100, 150]) if dim == 2 else r.choice([60, 120, 200])}
    if r.random() < 0.5:
        case["sibling_f"] = nonzero_f()       # b: a sibling object with another integrand and the same level vectors works before and after
        case["sibling_f"]["outl"] = case["sibling_f"]["outl"]
    return case


ES_CONFIGS = [   # (grid, automatic_extend_split, split_single_dim); cycled, so that every family occurs early in every run
    ({"name": "Trapezoidal", "boundary": True}, False, False),
    ({"name": "ClenshawCurtis", "boundary": True}, True, False),
    ({"name": "Trapezoidal", "boundary": True}, False, True),
    ({"name": "Lagrange", "boundary": True, "p": 2}, True, False),
    # MixedGrid whose 1-D grids have DIFFERENT boundary flags (the error estimator saves/restores them via get_/set_boundaries)
    ({"name": "Mixed", "grids": [{"kind": "Trapezoidal", "boundary": True}, {"kind": "Trapezoidal", "boundary": False}]}, False, False),
    ({"name": "Trapezoidal", "boundary": True}, True, False),
    ({"name": "GaussLegendre", "boundary": True}, True, False),
    ({"name": "Trapezoidal", "boundary": True}, False, False),
    ({"name": "GaussLegendre", "boundary": True}, False, False),
    ({"name": "Mixed", "grids": [{"kind": "Trapezoidal", "boundary": False}, {"kind": "Trapezoidal", "boundary": True}],
      "via_set_boundaries": True}, True, False),
    # split_single_dim only with the trapezoidal grid: on the high-order grids (ClenshawCurtis, GaussLegendre, Lagrange) the code's own
    # `assert i == 2 ** self.dim or i == 2` (get_sum_sibling_value) fails on the unchanged tree as soon as an area is split in one dimension
    ({"name": "Lagrange", "boundary": True, "p": 3}, True, False),
    ({"name": "Trapezoidal", "boundary": True}, False, True),
    ({"name": "Lagrange", "boundary": True, "p": 2}, False, False),
    ({"name": "Mixed", "grids": [{"kind": "ClenshawCurtis", "boundary": True}, {"kind": "Trapezoidal", "boundary": False}]}, False, False),
]
DW_CONFIGS = [   # nodal global grids that run on the unchanged tree (GlobalSimpsonGrid, the Romberg grids and the modified basis raise)
    {"name": "GlobalTrapezoidal", "boundary": True},
    {"name": "GlobalHighOrder", "boundary": True, "max_degree": 3},
    {"name": "GlobalTrapezoidal", "boundary": True},
    {"name": "GlobalHighOrder", "boundary": True, "max_degree": 5},
    {"name": "GlobalTrapezoidal", "boundary": False},
    {"name": "GlobalTrapezoidal", "boundary": True},
]


def gen_adaptive(ctx, thorough, strategy, index=0):
    r = ctx.rng
    ssd = False
    if strategy == "extend-split":
        gs, automatic, ssd = ES_CONFIGS[index % len(ES_CONFIGS)]
    else:
        gs, automatic = DW_CONFIGS[index % len(DW_CONFIGS)], False
    costly = gs["name"] in ("Lagrange", "GlobalHighOrder", "ClenshawCurtis", "GaussLegendre") or automatic
    dim = r.choice([2, 2, 2, 3]) if not costly else r.choice([2, 2, 2, 2, 2, 3])
    a, b = gen_box(r, dim)
    lmax = r.choice([2, 2, 3]) if dim == 2 else 2
    base = (2 ** lmax + 1) ** dim
    stops = sorted({1, r.randint(base // 2, 2 * base), r.randint(2 * base, 4 * base if not thorough else 7 * base)})
    if r.random() < 0.3 or (costly and dim == 3):
        stops = stops[:2]
    allow_table = gs["name"] in ("Trapezoidal", "GlobalTrapezoidal", "Mixed")     # error estimators of the high-order paths want smooth data
    case = {"kind": "adaptive", "strategy": strategy, "dim": dim, "lmin": 1, "lmax": lmax, "a": a, "b": b,
            "f": gen_fspec(r, dim, allow_table=allow_table, nondyadic=r.random() < 0.15), "stops": stops, "grid": dict(gs)}
    if r.random() < 0.15:
        case["recalc"] = r.choice([1, 2, 3, 5])
    # ---- hardening options (catalogue of change patterns a-l); probabilities chosen so that the run time stays put
    if gs["name"] in ("Trapezoidal", "GlobalTrapezoidal", "ClenshawCurtis"):
        case["grid"]["flagrep"] = r.choice(["bool", "bool", "np", "int"])           # d: flag representations
    if r.random() < 0.15 and dim == 2:                                             # e: scale extremes
        case["a"], case["b"] = a, b = gen_box(r, dim, extreme=True)
    if r.random() < 0.2:
        case["final_on_original"] = True                                            # a: query twice on the object itself, then go on
    if r.random() < 0.15:
        case["reset_cache_between"] = True                                          # l: toggles in the middle / before
    if r.random() < 0.1:
        case["no_cache"] = True
    if r.random() < 0.2:
        case["sibling_f"] = gen_fspec(r, dim, allow_table=False)                    # b: sibling object, other integrand, same levels
        if r.random() < 0.5:
            case["sibling_box"] = list(gen_box(r, dim))
    if r.random() < 0.2:
        case["container_resume"] = True                                             # h: multi-call sequences on one object
        case["container_limit"] = stops[-1] + base
    if r.random() < 0.2:
        case["rerun"] = True
    # (extend-split + evaluation_points: interpolate_points raises KeyError for some refinements on the clean tree -- interpolation is
    #  C02's business; the option is exercised on the dimension-wise strategy only)
    if r.random() < 0.15 and gs.get("boundary") is True and gs["name"] == "GlobalTrapezoidal":
        case["evaluation_points"] = [[a[d] + (b[d] - a[d]) * t for d in range(dim)] for t in (0.25, 0.5, 0.8125)]   # i
    if strategy == "extend-split":
        case["automatic"] = automatic
        case["refinements_before_extend"] = r.choice([1, 1, 2, 3])                  # d: option forwarded to every child area
        if gs["name"] == "Trapezoidal" and not automatic and not ssd and r.random() < 0.3:
            case["grid"]["boundary"] = False
            case.pop("evaluation_points", None)
        if ssd:
            # split_single_dim: twin errors equal in every dimension (integrand symmetric in the box's relative coordinates, often on
            # a non-unit box) make a refinement split in several dimensions at once -> calculate_new_twin_errors after initialize()
            case["split_single_dim"] = True
            case["f"] = gen_symmetric_fspec(r, dim, a, b)
        if thorough and index % 80 == 6:
            # f: the REAL size threshold of recalculate_frequently (refinements / 100 > counter) is crossed by a long cheap run
            case.update({"recalc_default": True, "stops": [1, 20000], "lmax": 2, "dim": 2, "a": [0.0, 0.0], "b": [1.0, 2.0],
                         "grid": {"name": "Trapezoidal", "boundary": True}, "automatic": False, "split_single_dim": False,
                         "f": gen_fspec(r, 2, allow_table=False)})
            for k in ("recalc", "sibling_f", "sibling_box", "container_resume", "evaluation_points", "final_on_original", "rerun"):
                case.pop(k, None)
    else:
        case["version"] = r.choice([2, 3, 3, 6, 6])
        case["rebalancing"] = r.random() < 0.7
        case["reference"] = r.random() < 0.6
        x = r.random()                                                              # d: options that shape the refinement history
        if x < 0.15:
            case["dw_options"] = {"margin": 0.5}
        elif x < 0.3:
            case["dw_options"] = {"use_volume_weighting": True}
        elif x < 0.4:
            case["dw_options"] = {"force_balanced_refinement_tree": True}
        if "dw_options" in case:
            case.pop("evaluation_points", None)       # interpolation of these variants is C02's business
        # (chebyshev_points=True raises `start < mid < end` in RefinementObjectSingleDimension.refine on the clean tree for boxes other
        #  than [0,1]^d -- outside this property; left out)
    return case


def run_case(ctx, drv, case, variant):
    k = case["kind"]
    if k == "micro":
        return run_micro(ctx, drv, case, variant)
    if k == "standard":
        return case_standard(ctx, drv, case)
    if k == "dim-adaptive":
        return case_dimadaptive(ctx, drv, case)
    if k == "adaptive":
        return case_adaptive(ctx, drv, case, variant)
    raise ValueError(k)


MALFORMED = ["", "es-eval", "es-eval 1|0=x", "es-refine 0", "es-refine a b", "dw-eval 1=1/0", "std 1", "da-iter 1,1", "da-q 1,1",
             "pw 1|0:1", "es-init 1,,2", "frobnicate 1 2", "es-return 2 -", "dw-return x -"]


def run(ctx):
    thorough = ctx.tier == "thorough"
    ctx.rule = ("micro: random histories (init / evaluate_operation / refine with or without the recalculate_frequently branch / evaluate_final_combi / malformed removals, any interleaving, "
                "random schemes of 0-4 components with coefficients in {-2..3}, dyadic vector-valued partial results, some components not "
                "computed on some areas) on the real Integration+RefinementContainer+SpatiallyAdaptivBase around a table-valued stub grid, "
                "state compared with the model after every operation; macro: StandardCombi (Trapezoidal with/without boundary, "
                "ClenshawCurtis, GaussLegendre, Leja lmax 3-4 (negative weights); default and point-wise 'old' integrator), DimAdaptiveCombi (every stopping iteration), dimension-wise (GlobalTrapezoidalGrid with/without boundary, GlobalHighOrderGrid "
                "max_degree 3/5, default grid_surplusses, versions 2/3/6, with/without rebalancing and reference) and extend-split (version 0; "
                "Trapezoidal, ClenshawCurtis, GaussLegendre, Lagrange p=2/3, MixedGrid with different per-dimension boundary flags (also installed via "
                "set_boundaries); with and without automatic_extend_split) in dim 2-3, lmin 1, lmax 2-3, "
                "polynomial (dyadic and non-dyadic coefficients) or table-backed integrands with 1-3 outputs, 2-3 stops per run "
                "(first fresh, later via continue_adaptive_refinement) plus fresh runs with/without reevaluate_at_end; 15% of the adaptive "
                "cases with recalculate_frequently (refinements_for_recalculate 1-5); "
                "hardening options: boundary flags as bool/numpy.bool_/0-1, Trapezoidal without boundary, number_of_refinements_before_extend 1-3, "
                "dimension-wise margin / volume weighting / forced balanced tree, boxes far from the origin (2^10..2^13) or tiny (2^-20..2^-12), "
                "repeated queries and caller-overwritten result arrays, evaluate_final_combi twice on the running object, sibling objects with another "
                "integrand (and box) between the stops, resume with the object's own refinement_container, second run on the same object, "
                "evaluation_points, deactivate_caching / reset_dictionary toggles, one object for several standard requests; all comparisons relative "
                "to the size of the summands (no absolute floor); "
                "a case is distinct by its full parameter dict; non-trivial if it has at least one refinement / two components")
    drv = ctx.driver("drv_c05")
    import extendsplit_gen
    extendsplit_gen.run(ctx, None, None)      # translator tie of the extend-split component selection (see extendsplit_gen.py); this harness is the search
    for l in MALFORMED:
        out = drv.ask(l)
        ctx.count("malformed_lines")
        if out != "bad-op":
            ctx.corr_break("C05/malformed-line", {"line": l}, {"impl": "rejected", "model": out})
    variant = detect_variant(ctx, drv)
    ctx.extra["evaluate_final_combi_variant"] = variant
    ctx.count("variant_" + variant)
    plan = ([("micro", 220), ("standard", 40), ("dim-adaptive", 14), ("dimension-wise", 30), ("extend-split", 30)] if not thorough else
            [("micro", 1500), ("standard", 200), ("dim-adaptive", 60), ("dimension-wise", 160), ("extend-split", 160)])
    budget = 95 if not thorough else 600
    total = sum(n for _, n in plan)
    done = 0
    # interleave the families so that a time budget cuts all of them proportionally
    counters = {k: 0 for k, _ in plan}
    bad = {k: 0 for k, _ in plan}          # a family that keeps failing is not run to the end; the others still are
    while done < total and ctx.time_left(budget) > 0:
        if all(counters[k] >= n or bad[k] >= 8 for k, n in plan):
            break
        for fam, n in plan:
            share = max(1, n * 10 // total)
            for _ in range(share):
                if counters[fam] >= n or bad[fam] >= 8:
                    break
                counters[fam] += 1
                done += 1
                if fam == "micro":
                    case = gen_micro(ctx, thorough)
                elif fam == "standard":
                    case = gen_standard(ctx, thorough, counters[fam] - 1)
                elif fam == "dim-adaptive":
                    case = gen_dimadaptive(ctx, thorough)
                else:
                    case = gen_adaptive(ctx, thorough, fam, counters[fam] - 1)
                nviol = len(ctx.violations)
                try:
                    ok = run_case(ctx, drv, case, variant)
                except Exception:
                    ok = False
                    ctx.corr_break("C05/harness-exception", case, traceback.format_exc()[-3000:])
                ctx.count("family_" + fam)
                nontrivial = True
                if fam == "micro":
                    nontrivial = sum(1 for o in case["ops"] if o["op"] in ("refine", "rawrefine")) >= 1
                ctx.case(case, nontrivial=nontrivial, sample=case if counters[fam] == 1 and fam != "micro" else None)
                if len(ctx.violations) > nviol:
                    bad[fam] += 1          # only failing INPUTS end a family early; a model disagreement keeps the search going


def replay(ctx, rp):
    case = rp["case"]
    case = {k: v for k, v in case.items() if k not in ("at_stop", "stop_iteration", "op_index", "op")}
    drv = ctx.driver("drv_c05")
    variant = detect_variant(ctx, drv)
    ok = run_case(ctx, drv, case, variant)
    known = sum(v[1] for v in ctx.known_hits.values())
    print("replay: %s" % ("property holds and model agrees on this case" if ok and not known else
                          ("only known findings reproduced" if not ctx.violations and not ctx.corr_breaks else "REPRODUCED")))
    for v in ctx.violations[:5]:
        print("  violation:", v["probe"], v["tags"], str(v["detail"])[:400])
    for c in ctx.corr_breaks[:3]:
        print("  disagreement:", c["observable"], str(c["detail"])[:400])
    for d in ctx._drivers:
        d.close()
    return 0 if (not ctx.violations and not ctx.corr_breaks) else 1
